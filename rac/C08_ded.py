"""Replay for the deductive C08 obligations.  Counterexamples of these obligations are interpretations of uninterpreted pandas / presync
operations and cannot be concretised; what is replayed is the clause: each obligation family maps to a fixed battery of discriminating
native inputs (a list operand whose members have timestamps / columns of their own together with outer joins, ties for the comparisons,
zero divisors, cells where no operand has data, non-commutative folds) evaluated on the real code against the dict-arithmetic oracle of the
bounded stand-in (rac/C08.py)."""
import warnings

from rac import C08 as B

KNOWN = set()          # none of the bounded module's input-class keys is a listed finding any more (all fixed): every key counts


def ser(idx, vals):
    return dict(ts=dict(idx=idx, cols=None, vals=[vals]))


def frm(idx, cols, vals):
    return dict(ts=dict(idx=idx, cols=cols, vals=vals))


def _jobs(jobs):
    bad = []
    for job in jobs:
        r = B.run_job(job)
        bad += ['%s: %s' % (k, w) for k, w in (r or []) if k not in KNOWN]
    return bad


A_, B_, C_ = ser([0, 1, 2], [1.0, -2.0, 0.0]), ser([1, 2, 3], [1.0, 0.0, -2.0]), ser([2, 3, 4], [-2.0, 1.0, 1.0])
FA = frm([0, 1, 2], ['a', 'b'], [[1.0, -2.0, 0.0], [0.0, 1.0, 1.0]])
FB = frm([1, 2, 3], ['b', 'c'], [[1.0, 0.0, -2.0], [1.0, 1.0, 0.0]])
FC = frm([0, 2, 4], ['a', 'c'], [[-2.0, 1.0, 1.0], [0.0, 0.0, 1.0]])


def battery(fns):
    jobs = []
    for fn in fns:
        for join in ('ij', 'oj'):
            for ops, split in (([A_, B_], 1), ([A_, B_, C_], 1), ([A_, B_, C_], 2), ([A_, {'num': 1.0}, C_], 1)):
                if fn in B.PRE or fn in B.FOLD or len(ops) == 2:
                    jobs.append(dict(fn=fn, ops=ops, split=split, join=join, columns='ij'))
            if fn in B.ARITH:
                for columns in ('ij', 'oj'):
                    jobs.append(dict(fn=fn, ops=[FA, FB, FC], split=1, join=join, columns=columns))
                    jobs.append(dict(fn=fn, ops=[FA, FB], split=1, join=join, columns=columns))
    return jobs


def replay_reducer(call):
    from pyg_base import reducer
    bad = []
    f = lambda x, y: '(%s%s)' % (x, y)
    for seq, exp in (([], 'D'), (['a'], 'a'), (['a', 'b'], '(ab)'), (['a', 'b', 'c'], '((ab)c)'), (['a', 'b', 'c', 'd'], '(((ab)c)d)')):
        got = reducer(f, seq, 'D')
        if got != exp:
            bad.append('reducer(f, %r, default) = %r, expected the left fold %r' % (seq, got, exp))
    return bad


def replay_kernel(call):
    tie = [ser([0, 1, 2, 3], [1.0, 0.0, -2.0, 1.0]), ser([0, 1, 2, 3], [1.0, 1.0, -2.0, 0.0])]
    name = (call.get('name') or '').strip('_')
    fns = [name] if name in B.ARITH + B.OTHER else B.ARITH + ['pow', 'gt', 'ge', 'lt', 'le']
    return _jobs([dict(fn=fn, ops=tie, split=1, join='ij', columns='ij') for fn in fns] + battery([f for f in fns if f in B.ARITH]))


def replay_div(call):
    import numpy as np, pandas as pd
    from pyg_base import div_
    warnings.filterwarnings('ignore')
    bad = _jobs([dict(fn='div', ops=[A_, B_], split=1, join=j, columns='ij') for j in ('ij', 'oj')] + [dict(fn='div', ops=[A_, {'num': v}], split=1, join='ij', columns='ij') for v in (1.0, -2.0)])
    s = pd.Series([1., 2., 3.], pd.date_range('2020-01-01', periods=3))
    r = div_(s, 0)
    if not (isinstance(r, pd.Series) and len(r) == 3 and r.isna().all()):
        bad.append('div_(series, 0) = %r, expected a NaN series of the operand\'s shape' % (r,))
    z = pd.Series([0., 2., 0.], s.index)
    z0 = z.copy()
    r = div_(s, z)
    if not (np.isnan(r.iloc[0]) and r.iloc[1] == 1.0 and np.isnan(r.iloc[2])):
        bad.append('div_(series, series with zeros) = %s: zeros must give NaN, never inf' % list(r.values))
    if list(z.values) != list(z0.values):
        bad.append('div_ wrote NaN into its divisor operand')
    return bad


def replay_wrapper(call):
    name = (call.get('name') or '').strip('_')
    fns = [name] if name in B.ARITH + B.OTHER else B.ARITH + B.OTHER
    return _jobs(battery(fns))


def replay_mask(call):
    return _jobs([dict(fn=fn, ops=[ser([0, 1, 2], [1.0, 'nan', 0.0]), ser([1, 2, 3], ['nan', 'nan', 1.0])], join='oj', columns='oj') for fn in B.AGG])


def replay_aggregate(call):
    name = call.get('name')
    fns = [name] if name in B.AGG else B.AGG
    ops = [ser([0, 1, 2], [1.0, 'nan', 0.0]), ser([1, 2, 3], [-2.0, 'nan', 1.0]), ser([1, 3], ['nan', 'nan'])]
    jobs = [dict(fn=fn, ops=ops[:k], join='oj', columns='oj') for fn in fns for k in (2, 3)]
    jobs += [dict(fn=fn, ops=[frm([0, 1], ['a', 'b'], [[1.0, 'nan'], ['nan', 'nan']]), frm([1, 2], ['a', 'b'], [['nan', 1.0], ['nan', 0.0]])], join='oj', columns='oj') for fn in fns]
    return _jobs(jobs)


def _replay(call):
    kind = call.get('kind')
    fn = dict(reducer=replay_reducer, kernel=replay_kernel, div=replay_div, wrapper=replay_wrapper, mask=replay_mask, aggregate=replay_aggregate).get(kind)
    if fn is None:
        return dict(fails=None, detail='no native battery for %r' % kind)
    bad = fn(call)
    return dict(fails=bool(bad), detail=('; '.join(bad))[:600] if bad else 'the clause holds on the real code for the whole battery of this obligation family')


def replay(call):
    from rac.ded_cache import cached
    return cached(__name__, call, lambda: _replay(call), uses=(), deps=(__file__, B.__file__))
