"""Native probe behind a failed frame obligation of pyvc/own_public.py: the function named in the obligation is called on sample arguments
and every argument is compared (structure, values, identity of the containers inside) before and after the call; where the obligation is about
handing out kept state, the function is called twice with equal arguments, the first result is altered and the second compared."""
import copy
import datetime


def _key(x):
    import numpy as np
    import pandas as pd
    if isinstance(x, (pd.DataFrame, pd.Series)):
        return ('pd', type(x).__name__, repr(list(x.index)), repr(getattr(x, 'columns', None) is not None and list(x.columns)), repr(x.values.tolist()),
                repr(x.index.name), repr(getattr(x, 'name', None)))
    if isinstance(x, np.ndarray):
        return ('np', x.shape, repr(x.tolist()))
    if isinstance(x, dict):
        return ('dict', type(x).__name__, [(repr(k), _key(v)) for k, v in x.items()])
    if isinstance(x, (list, tuple)):
        return (type(x).__name__, [_key(v) for v in x])
    return repr(x)


def _samples():
    import numpy as np
    import pandas as pd
    from pyg_base import dt, calendar
    i1 = pd.date_range('2020-01-01', periods=6)
    i2 = pd.date_range('2020-01-03', periods=6)
    a = pd.Series([1., np.nan, 3., 4., 5., 6.], i1)
    b = pd.Series([10., 20., np.nan, 40., 50., 60.], i2)
    df = pd.DataFrame(dict(x=[1., 2., np.nan, 4., 5., 6.], y=[6., 5., 4., 3., 2., 1.]), i1)
    tss = lambda: [a.copy(), b.copy(), df.copy()]          # noqa
    ops = lambda: [a.copy(), b.copy()]                     # noqa
    cal = calendar('frame_probe_cal')
    d0 = datetime.datetime(2021, 3, 5)
    S = {
        'df_reindex': [lambda f: (f, (a.copy(), list(i2)), dict(method=['ffill', 'bfill'])), lambda f: (f, (tss(), 'ij'), dict(method=['ffill', 'bfill'])),
                       lambda f: (f, (df.copy(), b.copy()), dict(method=['bfill']))],
        '_df_reindex': [lambda f: (f, (a.copy(), i2), dict(method=['ffill', 'bfill']))],
        'df_index': [lambda f: (f, (tss(), 'ij'), {}), lambda f: (f, (tss(), 'oj'), {}), lambda f: (f, (dict(a=a.copy(), b=b.copy()), 'ij'), {})],
        '_df_index': [lambda f: (f, (tss(), 'ij'), {})],
        'df_sync': [lambda f: (f, (tss(), 'ij'), dict(method=['ffill', 'bfill'])), lambda f: (f, (dict(a=a.copy(), b=df.copy()), 'oj'), dict(method=['ffill']))],
        'df_columns': [lambda f: (f, ([df.copy(), df[['y']].copy()], 'ij'), {})],
        'add_': [lambda f: (f, (ops(),), {}), lambda f: (f, (ops(), [df.copy()]), {}), lambda f: (f, (a.copy(), ops()), {})],
        'mul_': [lambda f: (f, (ops(),), {}), lambda f: (f, (ops(), [df.copy()]), {}), lambda f: (f, (a.copy(), ops()), {})],
        'sub_': [lambda f: (f, (ops(),), {}), lambda f: (f, (a.copy(), ops()), {}), lambda f: (f, (ops(), b.copy()), {})],
        'div_': [lambda f: (f, (ops(),), {}), lambda f: (f, (a.copy(), ops()), {}), lambda f: (f, (ops(), b.copy()), {})],
        'pow_': [lambda f: (f, (a.copy(), b.copy()), {})],
        'min_': [lambda f: (f, (ops(),), {}), lambda f: (f, (ops(), [df.copy()]), {})],
        'max_': [lambda f: (f, (ops(),), {}), lambda f: (f, (ops(), [df.copy()]), {})],
        'df_sum': [lambda f: (f, (tss(),), {}), lambda f: (f, (df.copy(),), {})],
        'df_mean': [lambda f: (f, (tss(),), {}), lambda f: (f, (df.copy(),), {})],
        'df_count': [lambda f: (f, (tss(),), {})],
        'df_std': [lambda f: (f, (tss(),), {})],
        'reducer': [lambda f: (f, (lambda x, y: x + y, [[1], [2], [3]]), {}), lambda f: (f, (lambda x, y: x + y, [[1], [2]], [0]), {})],
        'dt': [lambda f: (f, ([2020, 1, 2],), {}), lambda f: (f, (d0, '1m'), {})],
        'ymd': [lambda f: (f, (d0,), {})],
        'dt2str': [lambda f: (f, (d0,), {})],
        'cmp': [lambda f: (f, ([1, [2, 3]], [1, [2, 4]]), {}), lambda f: (f, (dict(a=[1]), dict(a=[2])), {})],
        'sort': [lambda f: (f, ([3, None, 'a', 1.5, [1]],), {}), lambda f: (f, ([[2, 1], [1, 2]],), {})],
        'cmparr': [lambda f: (f, (np.array([1, 2]), np.array([1, 3])), {})],
        'eq': [lambda f: (f, ([1, dict(a=[np.nan])], [1, dict(a=[np.nan])]), {}), lambda f: (f, (df.copy(), df.copy()), {})],
        'in_': [lambda f: (f, ([1], [[2], [1]]), {})],
        'dt_bump': [lambda f: (f, (d0, '1m'), {}), lambda f: (f, (a.copy(), 1), {})],
        'drange': [lambda f: (f, (d0, '1m', '1w'), {}), lambda f: (f, (d0, 5, 1), {})],
        'adjust': [lambda f: (getattr(cal, f), (d0, 'f'), {})], 'add': [lambda f: (getattr(cal, f), (d0, 3), {})],
        'bdays': [lambda f: (getattr(cal, f), (d0, dt(2021, 4, 1)), {})], 'is_bday': [lambda f: (getattr(cal, f), (d0,), {})],
        'is_trading': [lambda f: (getattr(cal, f), (d0,), {})],
        'as_list': [lambda f: (f, ([1, [2]],), {}), lambda f: (f, ((1, 2),), {})],
        'as_tuple': [lambda f: (f, ([1, [2]],), {})],
        'tree_to_table': [lambda f: (f, (dict(a=dict(x=1, y=[2]), b=dict(x=3, y=[4])), '%name/%field'), {})],
        'tree_update': [lambda f: (f, (dict(a=dict(x=1)), dict(a=dict(y=[2]))), {})],
    }
    return S


def replay(call):
    import pyg_base
    parts = call.get('name', '').split('.')
    fname = parts[1] if parts[0] == 'Calendar' else parts[0]
    S = _samples()
    if fname not in S:
        return dict(fails=None, detail='no native frame probe for %s' % call.get('name'))
    mods = [pyg_base, pyg_base._pandas, pyg_base._drange, pyg_base._dates, pyg_base._sort, pyg_base._eq, pyg_base._reducer, pyg_base._as_list, pyg_base._tree]
    n = 0
    for k, mk in enumerate(S[fname]):
        f = fname
        if parts[0] != 'Calendar':
            f = next((getattr(m, fname) for m in mods if hasattr(m, fname)), None)
            if f is None:
                return dict(fails=None, detail='%s not found in pyg_base' % fname)
        fn, args, kwargs = mk(f)
        before = (_key(args), _key(kwargs))
        try:
            r1 = fn(*args, **kwargs)
        except Exception as e:      # noqa
            continue
        n += 1
        after = (_key(args), _key(kwargs))
        if before != after:
            return dict(fails=True, detail='%s (probe #%d) changed its arguments: before %s after %s' % (fname, k, str(before)[:300], str(after)[:300]))
        # a second call with the same argument objects must give the same answer as the first
        try:
            r2 = fn(*args, **kwargs)
        except Exception as e:      # noqa
            return dict(fails=True, detail='%s (probe #%d): the second call with the same arguments raises %r, the first returned' % (fname, k, e))
        if _key(r1) != _key(r2):
            return dict(fails=True, detail='%s (probe #%d): the second call with the same argument objects returns %s, the first %s' % (fname, k, str(_key(r2))[:300], str(_key(r1))[:300]))
        # altering the first result must not change what an equal later call returns (no kept state handed out)
        k2 = _key(r2)
        if isinstance(r1, list) and r1:
            try:
                r1.append('!probe'); r1[0] = '!probe'
            except Exception:       # noqa
                pass
            try:
                r3 = fn(*args, **kwargs)
                if _key(r3) != k2:
                    return dict(fails=True, detail='%s (probe #%d): after the caller altered the first result, an equal call returns %s instead of %s' % (
                        fname, k, str(_key(r3))[:300], str(k2)[:300]))
            except Exception as e:  # noqa
                return dict(fails=True, detail='%s (probe #%d): after the caller altered the first result, an equal call raises %r' % (fname, k, e))
    return dict(fails=False, detail='%d native probes of %s left the arguments unchanged and repeatable' % (n, fname))


# ====================================================================================================== tables and mappings
def _snap_obj(x):
    """structure + identity of the containers inside (a replaced inner list is a change even when it holds equal values)"""
    if isinstance(x, dict):
        return ('d', type(x).__name__, [(repr(k), id(v), _snap_obj(v)) for k, v in dict.items(x)])
    if isinstance(x, (list, tuple)):
        return (type(x).__name__, [(id(v) if isinstance(v, (list, dict)) else None, _snap_obj(v)) for v in x])
    return repr(x)


def _table_probes():
    from pyg_base import dictable, Dict, dictattr, ulist
    T = lambda: dictable(a=[1, None, 3, 1], b=['x', 'y', 'x', 'x'], c=[1., 2., 3., 4.])          # noqa
    G = lambda: dictable(a=[1, 1, 2], b=['x', 'y', 'x'], c=[[1], [2, 3], [4]])                  # noqa
    R = lambda: dictable(a=[1, 3, 5], d=['p', 'q', 'r'])                                          # noqa
    M = lambda: Dict(a=1, b=[2, 3], c=dict(x=[4]))                                                # noqa
    A = lambda: dictattr(a=1, b=[2, 3], c=dict(x=[4]))                                            # noqa
    U = lambda: ulist([1, 2, 3])                                                                  # noqa
    P = {
        'dictable.__getitem__': [(T, lambda d: d[0]), (T, lambda d: d[:2]), (T, lambda d: d[[True, False, True, False]]), (T, lambda d: d[['a', 'b']]), (T, lambda d: d[[0, 2]]),
                                 (T, lambda d: d['a', 'b']), (T, lambda d: d[lambda a, c: (a, c)])],
        'dictable.__iter__': [(T, lambda d: list(d))], 'dictable.__len__': [(T, lambda d: len(d))],
        'dictable.get': [(T, lambda d: d.get('a')), (T, lambda d: d.get('zz', 0))],
        'dictable.do': [(T, lambda d: d.do(str, 'a')), (T, lambda d: d.do([str, len], 'b'))],
        'dictable.concat': [(T, lambda d: d.concat(d, R()))], 'dictable.__add__': [(T, lambda d: d + R()), (T, lambda d: d + dict(a=9, b='z', c=0.))],
        'dictable.sort': [(T, lambda d: d.sort('b')), (T, lambda d: d.sort(lambda c: -c)), (T, lambda d: d.sort('b', 'c'))],
        'dictable.if_none': [(T, lambda d: d.if_none(a=0)), (T, lambda d: d.if_none(0, c=lambda a: a))],
        'dictable.apply': [(T, lambda d: d.apply(lambda c: c + 1))],
        'dictable.inc': [(T, lambda d: d.inc(b='x')), (T, lambda d: d.inc(lambda c: c > 1)), (T, lambda d: d.inc(a=None)), (T, lambda d: d.inc(b='nope'))],
        'dictable.exc': [(T, lambda d: d.exc(b='x')), (T, lambda d: d.exc(lambda c: c > 1)), (T, lambda d: d.exc(a=[1, None]))],
        'dictable.one_or_none': [(T, lambda d: d.inc(a=3).one_or_none('b') if hasattr(d, 'one_or_none') else None)],
        'dictable.__getattr__': [(T, lambda d: d.a), (T, lambda d: d.find_b(a=3))],
        'dictable.join': [(T, lambda d: d.join(R(), 'a')), (T, lambda d: d * R()), (T, lambda d: d.join(R(), 'a', mode='l'))],
        'dictable.xor': [(T, lambda d: d.xor(R(), 'a')), (T, lambda d: d / R())],
        'dictable._listby': [(T, lambda d: [list(x) for x in d._listby(('a',))]), (T, lambda d: [list(x) for x in d._listby(('b', 'a'))])],
        'dictable.listby': [(T, lambda d: d.listby('b')), (T, lambda d: d.listby('a', 'b'))],
        'dictable.unlist': [(G, lambda d: d.unlist())], 'dictable.groupby': [(T, lambda d: d.groupby('b')), (T, lambda d: d.groupby('a', 'b'))],
        'dictable.ungroup': [(T, lambda d: d.groupby('b').ungroup())],
        'dictable.xyz': [(T, lambda d: d.xyz('a', 'b', 'c')), (T, lambda d: d.xyz('a', 'b', 'c', len))],
        'dictable.unpivot': [(T, lambda d: d.xyz('a', 'b', 'c', len).unpivot('a', 'b', 'c'))],
        'dictable.update': None, 'dictable.__setitem__': None, 'dictable.__init__': None,          # modify top(self) by contract
        'dict_concat': None,
        'Dict.__call__': [(M, lambda d: d(e=lambda a: a + 1, f=lambda e: e * 2))], 'Dict.do': [(M, lambda d: d.do(str, 'a'))],
        'Dict.apply': [(M, lambda d: d.apply(lambda a, b: (a, b)))], 'Dict.__getitem__': [(M, lambda d: d[lambda a: a]), (M, lambda d: d['a', 'b']), (M, lambda d: d[['a']])],
        'dictattr.relabel': [(A, lambda d: d.relabel(a='z')), (A, lambda d: d.relabel(lambda k: k + '_'))],
        'dictattr.__sub__': [(A, lambda d: d - 'a'), (A, lambda d: d - ['a', 'zz'])], 'dictattr.__and__': [(A, lambda d: d & 'a'), (A, lambda d: d & ['a', 'b', 'zz'])],
        'dictattr.__add__': [(A, lambda d: d + dict(a=5, z=[6]))], 'dictattr.__or__': [(A, lambda d: d | dict(a=5))],
        'dictattr.__getitem__': [(A, lambda d: d['a']), (A, lambda d: d['a', 'b']), (A, lambda d: d[['a', 'b']])],
        'dictattr.keys': [(A, lambda d: d.keys())], 'dictattr.values': [(A, lambda d: d.values())], 'dictattr.__truediv__': [(A, lambda d: d / 'a' if hasattr(d, '__truediv__') else None)],
        'dictattr.copy': [(A, lambda d: d.copy())],
        'ulist.__add__': [(U, lambda u: u + 4), (U, lambda u: u + [3, 4, 4])], 'ulist.__sub__': [(U, lambda u: u - 2), (U, lambda u: u - [2, 9])],
        'ulist.__and__': [(U, lambda u: u & [2, 3, 9])], 'ulist.__init__': None,
    }
    return P


def replay_table(call):
    """native probe behind a failed frame obligation of a table / mapping / ulist method: the method is run on sample receivers; the receiver (down
    to the identity of the containers inside it) must be the same afterwards"""
    name = call.get('name', '')
    qual = '.'.join(name.split('.')[:2]) if name.split('.')[0] in ('dictable', 'Dict', 'dictattr', 'ulist') else name.split('.')[0]
    P = _table_probes()
    if qual not in P:
        return dict(fails=None, detail='no native frame probe for %s' % qual)
    if P[qual] is None:
        return dict(fails=None, detail='%s modifies its receiver by contract; no native probe for the rest of its frame' % qual)
    n = 0
    for k, (mk, f) in enumerate(P[qual]):
        d = mk()
        before = _snap_obj(d)
        try:
            r = f(d)
        except Exception:       # noqa
            continue
        n += 1
        if _snap_obj(d) != before:
            return dict(fails=True, detail='%s (probe #%d) changed its receiver: now %r' % (qual, k, dict(d) if isinstance(d, dict) else list(d)))
    return dict(fails=False, detail='%d native probes of %s left the receiver unchanged' % (n, qual))
