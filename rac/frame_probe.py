"""Native probe behind a failed frame obligation of pyvc/own_public.py: the function named in the obligation is called on sample arguments
and every argument is compared (structure, values, identity of the containers inside) before and after the call; where the obligation is about
handing out kept state, the function is called twice with equal arguments, the first result is altered and the second compared."""
import copy
import datetime


def _key(x):
    import numpy as np
    import pandas as pd
    if isinstance(x, (pd.DataFrame, pd.Series)):
        return ('pd', type(x).__name__, repr(list(x.index)), repr(getattr(x, 'columns', None) is not None and list(x.columns)), repr(x.values.tolist()),
                repr(x.index.name), repr(getattr(x, 'name', None)))
    if isinstance(x, np.ndarray):
        return ('np', x.shape, repr(x.tolist()))
    if isinstance(x, dict):
        return ('dict', type(x).__name__, [(repr(k), _key(v)) for k, v in x.items()])
    if isinstance(x, (list, tuple)):
        return (type(x).__name__, [_key(v) for v in x])
    return repr(x)


def _samples():
    import numpy as np
    import pandas as pd
    from pyg_base import dt, calendar
    i1 = pd.date_range('2020-01-01', periods=6)
    i2 = pd.date_range('2020-01-03', periods=6)
    a = pd.Series([1., np.nan, 3., 4., 5., 6.], i1)
    b = pd.Series([10., 20., np.nan, 40., 50., 60.], i2)
    df = pd.DataFrame(dict(x=[1., 2., np.nan, 4., 5., 6.], y=[6., 5., 4., 3., 2., 1.]), i1)
    tss = lambda: [a.copy(), b.copy(), df.copy()]          # noqa
    ops = lambda: [a.copy(), b.copy()]                     # noqa
    cal = calendar('frame_probe_cal')
    d0 = datetime.datetime(2021, 3, 5)
    S = {
        'df_reindex': [lambda f: (f, (a.copy(), list(i2)), dict(method=['ffill', 'bfill'])), lambda f: (f, (tss(), 'ij'), dict(method=['ffill', 'bfill'])),
                       lambda f: (f, (df.copy(), b.copy()), dict(method=['bfill']))],
        '_df_reindex': [lambda f: (f, (a.copy(), i2), dict(method=['ffill', 'bfill']))],
        'df_index': [lambda f: (f, (tss(), 'ij'), {}), lambda f: (f, (tss(), 'oj'), {}), lambda f: (f, (dict(a=a.copy(), b=b.copy()), 'ij'), {})],
        '_df_index': [lambda f: (f, (tss(), 'ij'), {})],
        'df_sync': [lambda f: (f, (tss(), 'ij'), dict(method=['ffill', 'bfill'])), lambda f: (f, (dict(a=a.copy(), b=df.copy()), 'oj'), dict(method=['ffill']))],
        'df_columns': [lambda f: (f, ([df.copy(), df[['y']].copy()], 'ij'), {})],
        'add_': [lambda f: (f, (ops(),), {}), lambda f: (f, (ops(), [df.copy()]), {}), lambda f: (f, (a.copy(), ops()), {})],
        'mul_': [lambda f: (f, (ops(),), {}), lambda f: (f, (ops(), [df.copy()]), {}), lambda f: (f, (a.copy(), ops()), {})],
        'sub_': [lambda f: (f, (ops(),), {}), lambda f: (f, (a.copy(), ops()), {}), lambda f: (f, (ops(), b.copy()), {})],
        'div_': [lambda f: (f, (ops(),), {}), lambda f: (f, (a.copy(), ops()), {}), lambda f: (f, (ops(), b.copy()), {})],
        'pow_': [lambda f: (f, (a.copy(), b.copy()), {})],
        'min_': [lambda f: (f, (ops(),), {}), lambda f: (f, (ops(), [df.copy()]), {})],
        'max_': [lambda f: (f, (ops(),), {}), lambda f: (f, (ops(), [df.copy()]), {})],
        'df_sum': [lambda f: (f, (tss(),), {}), lambda f: (f, (df.copy(),), {})],
        'df_mean': [lambda f: (f, (tss(),), {}), lambda f: (f, (df.copy(),), {})],
        'df_count': [lambda f: (f, (tss(),), {})],
        'df_std': [lambda f: (f, (tss(),), {})],
        'reducer': [lambda f: (f, (lambda x, y: x + y, [[1], [2], [3]]), {}), lambda f: (f, (lambda x, y: x + y, [[1], [2]], [0]), {})],
        'dt': [lambda f: (f, ([2020, 1, 2],), {}), lambda f: (f, (d0, '1m'), {})],
        'ymd': [lambda f: (f, (d0,), {})],
        'dt2str': [lambda f: (f, (d0,), {})],
        'cmp': [lambda f: (f, ([1, [2, 3]], [1, [2, 4]]), {}), lambda f: (f, (dict(a=[1]), dict(a=[2])), {})],
        'sort': [lambda f: (f, ([3, None, 'a', 1.5, [1]],), {}), lambda f: (f, ([[2, 1], [1, 2]],), {})],
        'cmparr': [lambda f: (f, (np.array([1, 2]), np.array([1, 3])), {})],
        'eq': [lambda f: (f, ([1, dict(a=[np.nan])], [1, dict(a=[np.nan])]), {}), lambda f: (f, (df.copy(), df.copy()), {})],
        'in_': [lambda f: (f, ([1], [[2], [1]]), {})],
        'dt_bump': [lambda f: (f, (d0, '1m'), {}), lambda f: (f, (a.copy(), 1), {})],
        'drange': [lambda f: (f, (d0, '1m', '1w'), {}), lambda f: (f, (d0, 5, 1), {})],
        'adjust': [lambda f: (getattr(cal, f), (d0, 'f'), {})], 'add': [lambda f: (getattr(cal, f), (d0, 3), {})],
        'bdays': [lambda f: (getattr(cal, f), (d0, dt(2021, 4, 1)), {})], 'is_bday': [lambda f: (getattr(cal, f), (d0,), {})],
        'is_trading': [lambda f: (getattr(cal, f), (d0,), {})],
        'as_list': [lambda f: (f, ([1, [2]],), {}), lambda f: (f, ((1, 2),), {})],
        'as_tuple': [lambda f: (f, ([1, [2]],), {})],
        'tree_to_table': [lambda f: (f, (dict(a=dict(x=1, y=[2]), b=dict(x=3, y=[4])), '%name/%field'), {})],
        'tree_update': [lambda f: (f, (dict(a=dict(x=1)), dict(a=dict(y=[2]))), {})],
    }
    return S


def replay(call):
    import pyg_base
    parts = call.get('name', '').split('.')
    fname = parts[1] if parts[0] == 'Calendar' else parts[0]
    S = _samples()
    if fname not in S:
        return dict(fails=None, detail='no native frame probe for %s' % call.get('name'))
    mods = [pyg_base, pyg_base._pandas, pyg_base._drange, pyg_base._dates, pyg_base._sort, pyg_base._eq, pyg_base._reducer, pyg_base._as_list, pyg_base._tree]
    n = 0
    for k, mk in enumerate(S[fname]):
        f = fname
        if parts[0] != 'Calendar':
            f = next((getattr(m, fname) for m in mods if hasattr(m, fname)), None)
            if f is None:
                return dict(fails=None, detail='%s not found in pyg_base' % fname)
        fn, args, kwargs = mk(f)
        before = (_key(args), _key(kwargs))
        try:
            r1 = fn(*args, **kwargs)
        except Exception as e:      # noqa
            continue
        n += 1
        after = (_key(args), _key(kwargs))
        if before != after:
            return dict(fails=True, detail='%s (probe #%d) changed its arguments: before %s after %s' % (fname, k, str(before)[:300], str(after)[:300]))
        # a second call with the same argument objects must give the same answer as the first
        try:
            r2 = fn(*args, **kwargs)
        except Exception as e:      # noqa
            return dict(fails=True, detail='%s (probe #%d): the second call with the same arguments raises %r, the first returned' % (fname, k, e))
        if _key(r1) != _key(r2):
            return dict(fails=True, detail='%s (probe #%d): the second call with the same argument objects returns %s, the first %s' % (fname, k, str(_key(r2))[:300], str(_key(r1))[:300]))
        # altering the first result must not change what an equal later call returns (no kept state handed out)
        k2 = _key(r2)
        if isinstance(r1, list) and r1:
            try:
                r1.append('!probe'); r1[0] = '!probe'
            except Exception:       # noqa
                pass
            try:
                r3 = fn(*args, **kwargs)
                if _key(r3) != k2:
                    return dict(fails=True, detail='%s (probe #%d): after the caller altered the first result, an equal call returns %s instead of %s' % (
                        fname, k, str(_key(r3))[:300], str(k2)[:300]))
            except Exception as e:  # noqa
                return dict(fails=True, detail='%s (probe #%d): after the caller altered the first result, an equal call raises %r' % (fname, k, e))
    return dict(fails=False, detail='%d native probes of %s left the arguments unchanged and repeatable' % (n, fname))
