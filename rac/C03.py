"""C03 bounded stand-in: df_sync / df_reindex / presync put every timeseries inside (nested) lists/dicts onto one common
index (and multi-column frames onto one column set), values intact, as-of filled when a fill method is given; bare numpy
arrays are aligned at the end; everything else passes through and the container structure is preserved.

The oracle is set algebra on grid positions plus an as-of lookup over a dict {position: non-NaN value}; it never calls
pandas or the library.  A collection is described by a JSON tree (the `call`), from which both the real input and the
expectation are built:
    [node, ...]                 list
    {"d": {key: node}}          dict (insertion order kept)
    {"lit": x}                  a non-timeseries member (string / number / None)
    {"ts": {"idx": [grid positions], "cols": null | [names], "vals": [[...] per column]}}   Series (cols null) / DataFrame
    {"arr": [[...] per column]} / {"arr1": [...]}     bare numpy arrays (2-d given column-wise / 1-d)
NaN is spelt 'nan' inside the tree."""
import datetime, itertools, json, random, warnings
from rac.common import Collector

D = datetime.datetime
NAN = float('nan')
GRID = [D(2020, 1, 1) + datetime.timedelta(days=i) for i in range(6)]
POS = {t: i for i, t in enumerate(GRID)}
SUBSETS = [[p for p in range(6) if (m >> p) & 1] for m in range(64)]
JOINS = ['ij', 'oj', 'lj', 'rj']
METHODS = [None, 'ffill', 'bfill']
K_D5 = 'C03:nested-container:raises'
K_EMPTY_ARR = 'C03:numpy:truncate-to-length-zero'
K_EMPTY_FRAME = 'C03:columns:zero-row-frame-with-fill-method'


def isn(x):
    return isinstance(x, float) and x != x


def same(x, y):
    try:
        x, y = float(x), float(y)
    except Exception:       # noqa
        return False
    return (x != x and y != y) or x == y


def dec(v):
    return NAN if v == 'nan' else v


def enc(v):
    return 'nan' if isn(v) else v


# ------------------------------------------------------------------ building the real input from the tree
def build(node):
    import numpy as np, pandas as pd
    if isinstance(node, list):
        return [build(n) for n in node]
    if 'd' in node:
        return {k: build(v) for k, v in node['d'].items()}
    if 'lit' in node:
        return node['lit']
    if 'arr1' in node:
        return np.array([dec(v) for v in node['arr1']], dtype=node.get('dtype', 'float'))
    if 'arr' in node:
        cols = [[dec(v) for v in col] for col in node['arr']]
        return np.array(cols, dtype=node.get('dtype', 'float')).T.reshape((len(cols[0]) if cols else 0, len(cols)))
    s = node['ts']
    index = pd.DatetimeIndex([GRID[p] for p in s['idx']])
    if s['cols'] is None:
        return pd.Series([dec(v) for v in s['vals'][0]], index, dtype=float)
    return pd.DataFrame({c: pd.Series([dec(v) for v in vs], index, dtype=float) for c, vs in zip(s['cols'], s['vals'])}, index=index,
                        columns=list(s['cols']))


def flat(node):
    """leaves in the order the collection is written (lists left to right, dicts in insertion order)"""
    if isinstance(node, list):
        return [x for n in node for x in flat(n)]
    if 'd' in node:
        return [x for n in node['d'].values() for x in flat(n)]
    return [node]


def depth_class(node, depth=0):
    """True when some container below the top level has at least two members (the input class of D5)"""
    kids = node if isinstance(node, list) else list(node['d'].values()) if isinstance(node, dict) and 'd' in node else None
    if kids is None:
        return False
    if depth >= 1 and len(kids) >= 2:
        return True
    return any(depth_class(k, depth + 1) for k in kids)


# ------------------------------------------------------------------ oracle
def common_index(tss, join):
    """join: 'ij'/'oj'/'lj'/'rj' or an explicit list of grid positions; tss: the ts specs in written order"""
    if isinstance(join, list):
        return list(join)
    if not tss:
        return None
    sets = [set(s['idx']) for s in tss]
    if join[0] == 'i':
        return sorted(set.intersection(*sets))
    if join[0] == 'o':
        return sorted(set.union(*sets))
    return list(tss[0]['idx'] if join[0] == 'l' else tss[-1]['idx'])


def common_columns(tss, how):
    multi = [list(s['cols']) for s in tss if s['cols'] is not None and len(s['cols']) > 1]
    if not multi or how is None:
        return None
    if how[0] == 'i':
        return set.intersection(*[set(m) for m in multi])
    if how[0] == 'o':
        return set.union(*[set(m) for m in multi])
    return set(multi[0] if how[0] == 'l' else multi[-1])


def asof(obs, p, method):
    """obs: {position: value}.  None: the value at p (NaN kept) or NaN; ffill/bfill: last/next non-NaN at or before/after p"""
    if method is None:
        return obs.get(p, NAN)
    good = sorted(q for q, v in obs.items() if not isn(v))
    if method == 'ffill':
        good = [q for q in good if q <= p]
        return obs[good[-1]] if good else NAN
    good = [q for q in good if q >= p]
    return obs[good[0]] if good else NAN


def asof_row(obs, rows, p, method):
    """frames aligned with a fill method: the observation is the *row*.  rows: the positions whose row is not entirely NaN
    (over the frame's own columns); the cell is taken from the last / next such row at or before / after p exactly as it
    is there - a NaN cell of a surviving row stays NaN, its other cells are not replaced by those of another row."""
    rows = [q for q in rows if (q <= p if method == 'ffill' else q >= p)]
    if not rows:
        return NAN
    return obs.get(rows[-1] if method == 'ffill' else rows[0], NAN)


# ------------------------------------------------------------------ comparison of one result against the tree
def compare(node, got, index, method, cols, out, path='$'):
    import numpy as np, pandas as pd
    if isinstance(node, list):
        if not (type(got) is list and len(got) == len(node)):
            out.append(('C03:structure', '%s: expected a list of %d, got %s' % (path, len(node), type(got).__name__)))
            return
        for i, (n, g) in enumerate(zip(node, got)):
            compare(n, g, index, method, cols, out, '%s[%d]' % (path, i))
        return
    if 'd' in node:
        if not (isinstance(got, dict) and list(got.keys()) == list(node['d'].keys())):
            out.append(('C03:structure', '%s: expected a dict with keys %s, got %r' % (path, list(node['d']), got if not isinstance(got, dict) else list(got))))
            return
        for k, n in node['d'].items():
            compare(n, got[k], index, method, cols, out, '%s.%s' % (path, k))
        return
    if 'lit' in node:
        lit = node['lit']
        if not (got is lit or (type(got) is type(lit) and got == lit)):
            out.append(('C03:passthrough', '%s: non-timeseries member %r came back as %r' % (path, lit, got)))
        return
    s = node['ts']
    if index is None:
        return
    if not isinstance(got, (pd.Series, pd.DataFrame)) or isinstance(got, pd.DataFrame) != (s['cols'] is not None):
        out.append(('C03:structure', '%s: timeseries came back as %s' % (path, type(got).__name__)))
        return
    want_idx = [GRID[p] for p in index]
    if list(got.index) != want_idx:
        out.append(('C03:index', '%s: index %s, expected %s' % (path, [str(t)[:10] for t in got.index], [str(t)[:10] for t in want_idx])))
        return
    if s['cols'] is None:
        columns, have = [None], {None: [float(v) for v in got.values]}
    else:
        target = set(s['cols']) if (cols is None or len(s['cols']) <= 1) else cols
        if set(got.columns) != target or len(got.columns) != len(target):
            key = K_EMPTY_FRAME if (not s['idx'] and method is not None) else 'C03:columns'
            out.append((key, '%s: columns %s, expected the set %s' % (path, list(got.columns), sorted(target))))
            return
        columns = list(got.columns)
        have = {c: [float(v) for v in got[c].values] for c in columns}
    # a frame's row is missing only when it is NaN in every one of the frame's own columns
    rows = None if s['cols'] is None else sorted(p for i, p in enumerate(s['idx']) if not all(isn(dec(vs[i])) for vs in s['vals']))
    partial = rows is not None and any(isn(dec(vs[i])) for vs in s['vals'] for i, p in enumerate(s['idx']) if p in rows)
    for c in columns:
        if c is None or c in s['cols']:
            vals = s['vals'][0 if c is None else list(s['cols']).index(c)]
            obs = {p: dec(v) for p, v in zip(s['idx'], vals)}
        else:
            obs = {}            # a column the frame did not have: NaN throughout
        for p, g in zip(index, have[c]):
            e = asof(obs, p, method) if (rows is None or method is None) else asof_row(obs, rows, p, method)
            if not same(g, e):
                out.append(('C03:value:%s%s' % (method or 'none', ':frame-row-partly-nan' if (partial and method) else ''), '%s%s at %s: got %r, expected %r (observations %s)' % (
                    path, '' if c is None else '[%s]' % c, str(GRID[p])[:10], g, e, {str(GRID[q])[5:10]: v for q, v in obs.items()})))
                return


def np_expected(arrs, join):
    """arrs: list of column-wise 2-d / 1-d python lists; returns the common length"""
    lens = [len(a['arr1']) if 'arr1' in a else (len(a['arr'][0]) if a['arr'] else 0) for a in arrs]
    return dict(i=min(lens), o=max(lens), l=lens[0], r=lens[-1])[join[0]]


def compare_np(node, got, n, out, path='$'):
    import numpy as np
    if isinstance(node, list):
        if not (type(got) is list and len(got) == len(node)):
            out.append(('C03:structure', '%s: expected a list of %d' % (path, len(node))))
            return
        for i, (x, g) in enumerate(zip(node, got)):
            compare_np(x, g, n, out, '%s[%d]' % (path, i))
        return
    if 'd' in node:
        if not (isinstance(got, dict) and list(got) == list(node['d'])):
            out.append(('C03:structure', '%s: expected a dict with keys %s' % (path, list(node['d']))))
            return
        for k, x in node['d'].items():
            compare_np(x, got[k], n, out, '%s.%s' % (path, k))
        return
    if 'lit' in node:
        if not (got is node['lit'] or got == node['lit']):
            out.append(('C03:passthrough', '%s: %r came back as %r' % (path, node['lit'], got)))
        return
    cols = [node['arr1']] if 'arr1' in node else node['arr']
    if not isinstance(got, np.ndarray) or got.ndim != (1 if 'arr1' in node else 2):
        out.append(('C03:structure', '%s: array came back as %r' % (path, type(got).__name__)))
        return
    m = len(cols[0]) if cols else 0
    key_len = K_EMPTY_ARR if (n == 0 and m > 0) else 'C03:numpy:length'
    if len(got) != n:
        out.append((key_len, '%s: array of length %d came back with length %d, the common length is %d' % (path, m, len(got), n)))
        return
    gcols = [list(got)] if 'arr1' in node else [list(got[:, j]) for j in range(got.shape[1])]
    for col, g in zip(cols, gcols):
        col = [dec(v) for v in col]
        e = col[m - n:] if n <= m else [NAN] * (n - m) + col
        if len(g) != len(e) or not all(same(x, y) for x, y in zip(g, e)):
            out.append(('C03:numpy:value', '%s: %s aligned at the end to length %d gave %s, expected %s' % (path, col, n, [float(x) for x in g], e)))
            return


# ------------------------------------------------------------------ running one job on the real code
def _explicit(fn, join):
    import pandas as pd
    return pd.DatetimeIndex([GRID[p] for p in join]) if isinstance(join, list) else join


def run_job(job):
    """job = dict(fn, tree, join, method, columns).  Returns the list of (key, what) clause failures."""
    import numpy as np, pandas as pd
    from pyg_base import df_sync, df_reindex, presync
    warnings.filterwarnings('ignore')
    fn, tree, join, method, columns = job['fn'], job['tree'], job['join'], job.get('method'), job.get('columns')
    out = []
    leaves = flat(tree)
    is_np = any('arr' in l or 'arr1' in l for l in leaves)
    if fn == 'presync':         # first / last follow the call: positional arguments, then keywords
        kws = job.get('kw') or []
        leaves = flat([x for i, x in enumerate(tree) if i not in kws] + [tree[i] for i in kws])
    tss = [l['ts'] for l in leaves if 'ts' in l]
    inp = build(tree)
    if job.get('listcls'):
        inp = _as_basket(inp)
    before = json.dumps(tree)
    nested = depth_class(tree)
    try:
        if fn == 'df_sync':
            got = df_sync(inp, _explicit(fn, join), method, columns) if columns is not None else df_sync(inp, _explicit(fn, join), method)
            colpolicy = columns or 'ij'
        elif fn == 'df_reindex':
            got = df_reindex(inp, _explicit(fn, join), method=method)
            colpolicy = None
        elif fn == 'df_reindex_ts':         # index given as a timeseries carrying it
            got = df_reindex(inp, pd.Series(0., pd.DatetimeIndex([GRID[p] for p in join])), method=method)
            colpolicy = None
        elif fn == 'presync':
            seen = []

            def rec(*args, **kwargs):
                seen.append((args, kwargs))
                return 0
            f = presync(rec, index=_explicit(fn, join), method=method, **(dict(columns=False) if columns is False else {}))
            kw = job.get('kw') or []
            f(*[x for i, x in enumerate(inp) if i not in kw], **{'k%d' % i: inp[i] for i in kw})
            if len(seen) != 1:
                return [('C03:presync:calls', 'the wrapped function was called %d times for an all-Series input' % len(seen))]
            a, k = seen[0]
            it = iter(a)
            got = [k['k%d' % i] if i in kw else next(it) for i in range(len(inp))]
            colpolicy = None
        else:
            raise ValueError(fn)
    except Exception as e:      # noqa
        if fn == 'df_sync' and nested and isinstance(e, TypeError) and 'missing' in str(e):
            return [(K_D5, '%s on a container nested two deep raised %s: %s' % (fn, type(e).__name__, e))]
        return [('C03:raises:%s' % ('nested' if nested else 'flat'), '%s raised %s: %s' % (fn, type(e).__name__, e))]
    if job.get('listcls'):
        # a list subclass is a list: it is looped over like one and comes back as an instance of the same class
        bad = []
        got = _from_basket(inp, got, bad)
        if bad:
            out.append(('C03:structure:list-subclass', '%s: a container of class Basket(list) came back as %s' % (bad[0][0], bad[0][1])))
    if is_np:
        compare_np(tree, got, np_expected([l for l in leaves if 'arr' in l or 'arr1' in l], join), out)
    else:
        compare(tree, got, common_index(tss, join), method, common_columns(tss, colpolicy), out)
    if json.dumps(jsonable_tree(inp, tree)) != before:
        out.append(('C03:input-modified', 'the argument was modified by %s' % fn))
    return out


def jsonable_tree(inp, tree):
    """re-encode the (possibly mutated) input objects in the tree notation, to compare with the tree they were built from"""
    if isinstance(tree, list):
        return [jsonable_tree(i, t) for i, t in zip(inp, tree)] if isinstance(inp, list) and len(inp) == len(tree) else 'changed'
    if 'd' in tree:
        return {'d': {k: jsonable_tree(inp[k], t) for k, t in tree['d'].items()}} if isinstance(inp, dict) and list(inp) == list(tree['d']) else 'changed'
    if 'lit' in tree:
        return {'lit': inp}
    extra = {'dtype': str(inp.dtype).rstrip('0123456789')} if 'dtype' in tree else {}
    if 'arr1' in tree:
        return dict({'arr1': [enc(float(v)) for v in inp]}, **extra)
    if 'arr' in tree:
        return dict({'arr': [[enc(float(v)) for v in inp[:, j]] for j in range(inp.shape[1])]}, **extra)
    s = tree['ts']
    idx = [POS.get(t.to_pydatetime(), -1) for t in inp.index]
    if s['cols'] is None:
        return {'ts': dict(idx=idx, cols=None, vals=[[enc(float(v)) for v in inp.values]])}
    return {'ts': dict(idx=idx, cols=list(inp.columns), vals=[[enc(float(v)) for v in inp[c].values] for c in inp.columns])}


# ------------------------------------------------------------------ enumerators
def mk_ts(rng, sid, idx, cols=None, rowwise=False, p_nan=0.3):
    """values encode (series id, column, grid position) so that a cell taken from the wrong place is visible"""
    ncol = 1 if cols is None else len(cols)
    rows = [rng.random() < (p_nan if rowwise != 'mixed' else .2) for _ in idx]
    vals = []
    for j in range(ncol):
        if rowwise == 'mixed':      # some rows entirely NaN, in the others every cell NaN independently
            vals.append(['nan' if (rows[i] or rng.random() < p_nan) else float(100 * (j + 1) + 10 * (sid + 1) + p) for i, p in enumerate(idx)])
            continue
        vals.append(['nan' if (rows[i] if rowwise else rng.random() < p_nan) else float(100 * (j + 1) + 10 * (sid + 1) + p) for i, p in enumerate(idx)])
    return {'ts': dict(idx=list(idx), cols=None if cols is None else list(cols), vals=vals)}


LITS = ['txt', 3, None, 2.5]
COLSETS = [['a', 'b'], ['b', 'c'], ['a', 'c'], ['a', 'b', 'c'], ['c', 'a'], ['x']]


class Basket(list):
    """a list subclass used as a container of timeseries"""


def _as_basket(x):
    if isinstance(x, list):
        return Basket(_as_basket(v) for v in x)
    if isinstance(x, dict):
        return {k: _as_basket(v) for k, v in x.items()}
    return x


def _from_basket(inp, got, bad, path='$'):
    if isinstance(inp, Basket):
        if type(got) is not Basket:
            bad.append((path, type(got).__name__))
        if isinstance(got, (list, tuple)) and len(got) == len(inp):
            return [_from_basket(i, g, bad, '%s[%d]' % (path, k)) for k, (i, g) in enumerate(zip(inp, got))]
        return got
    if isinstance(inp, dict) and isinstance(got, dict):
        return type(got)((k, _from_basket(inp[k], v, bad, '%s.%s' % (path, k)) if k in inp else v) for k, v in got.items())
    return got


def _dkey(i, n):
    """dict keys whose insertion order is the reverse of their sorted order (the first member is the one written first, not the alphabetically first)"""
    return 'k%d' % (n - 1 - i)


def jobs_for(tier, seed):
    rng = random.Random(seed)
    quick = tier == 'quick'
    jobs = []
    pairs = [(i, j) for i in range(64) for j in range(64)]

    def add(fn, tree, join, method, columns=None, **kw):
        jobs.append(dict(fn=fn, tree=tree, join=join, method=method, columns=columns, **kw))

    # A. two Series, every pair of index sets (thorough) / every index set against 12 seeded partners (quick), every join x method
    sel = pairs if not quick else sorted(set((i, j) for i in range(64) for j in rng.sample(range(64), 12)) | {(0, 0), (0, 63), (63, 0), (63, 63)})
    for i, j in sel:
        a, b = mk_ts(rng, 0, SUBSETS[i]), mk_ts(rng, 1, SUBSETS[j])
        combos = [(jn, m) for jn in JOINS for m in METHODS]
        for jn, m in (combos if not quick else rng.sample(combos, 4)):
            add('df_sync', [a, b], jn, m)
        jn, m = rng.choice(JOINS), rng.choice(METHODS)
        add('df_reindex', [a, {'lit': rng.choice(LITS)}, b], jn, m)
    # B. one to three members, Series / one-column / multi-column frames, mixed with literals, in a list or a dict
    for _ in range(4000 if quick else 40000):
        k = rng.choice([1, 2, 2, 3, 3])
        members = []
        method = rng.choice(METHODS)
        for sid in range(k):
            kind = rng.choice(['s', 's', 'f', 'f', 'f1'])
            idx = SUBSETS[rng.randrange(64)]
            cols = None if kind == 's' else rng.choice(COLSETS[:5]) if kind == 'f' else ['x']
            members.append(mk_ts(rng, sid, idx, cols, rowwise=method is not None))
        for _l in range(rng.choice([0, 0, 1, 2])):
            members.insert(rng.randrange(len(members) + 1), {'lit': rng.choice(LITS)})
        tree = members if rng.random() < .6 else {'d': {_dkey(i, len(members)): m for i, m in enumerate(members)}}
        jn = rng.choice(JOINS + [sorted(rng.sample(range(6), rng.randrange(0, 7)))])
        r = rng.random()
        if r < .6:
            add('df_sync', tree, jn, method, rng.choice([None, 'ij', 'oj', 'lj', 'rj']))
        elif r < .85 or not isinstance(jn, list):
            add('df_reindex', tree, jn, method)
        else:
            add('df_reindex_ts', tree, jn, method)
    # B'. frames whose cells are NaN independently, no fill method (with a fill method the row is the observation)
    for _ in range(800 if quick else 8000):
        k = rng.choice([2, 3])
        members = [mk_ts(rng, sid, SUBSETS[rng.randrange(64)], rng.choice(COLSETS[:5])) for sid in range(k)]
        add('df_sync', members, rng.choice(JOINS), None, rng.choice(['ij', 'oj', 'lj', 'rj']))
    # B". multi-column frames whose rows are NaN in some columns only (and some rows entirely), WITH a fill method: the row is
    #     the observation, a partly-NaN row survives as it is.  Alone (identity / explicit index), with a Series or another
    #     frame, in a list / dict / nested, through df_sync (every column policy), df_reindex (three index spellings), presync
    for _ in range(1300 if quick else 13000):
        method = rng.choice(['ffill', 'bfill'])
        k = rng.choice([1, 2, 2, 3])
        members = []
        for sid in range(k):
            kind = 'f' if sid == 0 else rng.choice(['s', 'f', 'f'])
            idx = SUBSETS[rng.choice([63, 63, rng.randrange(64), rng.randrange(64)])]
            members.append(mk_ts(rng, sid, idx, None if kind == 's' else rng.choice(COLSETS[:5]), rowwise='mixed', p_nan=.35))
        rng.shuffle(members)
        if rng.random() < .3:
            members.insert(rng.randrange(len(members) + 1), {'lit': rng.choice(LITS)})
        r = rng.random()
        tree = members if r < .5 else {'d': {_dkey(i, len(members)): m for i, m in enumerate(members)}} if r < .8 else [members[0], {'d': {'x': members[1:]}}]
        own = [l['ts']['idx'] for l in flat(tree) if 'ts' in l and l['ts']['cols']][0]
        jn = rng.choice(JOINS + [sorted(rng.sample(range(6), rng.randrange(0, 7))), list(own)])
        r = rng.random()
        if r < .45:
            add('df_sync', tree, jn, method, rng.choice([None, 'ij', 'oj', 'lj', 'rj']))
        elif r < .7 or (r < .85 and not isinstance(jn, list)):
            add('df_reindex', tree, jn, method)
        elif r < .85:
            add('df_reindex_ts', tree, jn, method)
        elif isinstance(tree, list):
            add('presync', tree, jn, method, False, kw=[i for i in range(len(tree)) if i > 0 and rng.random() < .4])
        else:
            add('df_reindex', tree, jn, method)
    # C. nested containers: every shape below x join x method; df_sync (reaches the column step) and df_reindex
    def shapes(a, b, c, l):
        return [[a, {'d': {'x': b}}], [a, {'d': {'x': b, 'y': l}}], [a, [b, c]], {'d': {'p': a, 'q': {'d': {'x': b, 'y': c}}}},
                {'d': {'p': a, 'q': [b, l]}}, [[a, b], c], [[a], [b], l], {'d': {'p': [a, {'d': {'x': b, 'y': [c, l]}}]}}]
    for rep in range(6 if quick else 60):
        a, b, c = [mk_ts(rng, sid, SUBSETS[rng.randrange(64)]) for sid in range(3)]
        for tree in shapes(a, b, c, {'lit': rng.choice(LITS)}):
            for jn in JOINS + [sorted(rng.sample(range(6), 3))]:
                for m in (METHODS if not quick else [rng.choice(METHODS)]):
                    add('df_sync', tree, jn, m)
                    add('df_reindex', tree, jn, m)
    # D. bare numpy arrays: every tuple of 2 or 3 lengths in 0..5, 1-d and 2-d (two columns), every join
    for k in (2, 3):
        for lens in itertools.product(range(6), repeat=k):
            for jn in JOINS:
                for two_d in (False, True):
                    arrs = []
                    for sid, n in enumerate(lens):
                        col = [float(10 * (sid + 1) + i) if rng.random() > .2 else 'nan' for i in range(n)]
                        arrs.append({'arr': [col, [v if v == 'nan' else v + 100 for v in col]]} if two_d else {'arr1': col})
                    tree = arrs if rng.random() < .7 else {'d': {'k%d' % i: x for i, x in enumerate(arrs)}}
                    add('df_sync', tree, jn, None)
    # D'. the same with integer and boolean arrays (no NaN inside): padding in front is NaN whatever the dtype of the array that is padded
    rng_d = random.Random(seed + 77)
    for lens in itertools.product(range(5), repeat=2):
        for jn in JOINS:
            for two_d in (False, True):
                for dtype in ('int', 'bool'):
                    arrs = []
                    for sid, n in enumerate(lens):
                        col = [float((10 * (sid + 1) + i) if dtype == 'int' else (i + sid) % 2) for i in range(n)]
                        node = {'arr': [col, [v + (100 if dtype == 'int' else 0) for v in col]]} if two_d else {'arr1': col}
                        if sid == 0 or rng_d.random() < .5:
                            node['dtype'] = dtype
                        arrs.append(node)
                    add('df_sync', arrs, jn, None)
    # E. presync through a recording function: positional and keyword arguments, a dict argument, literals
    for _ in range(1500 if quick else 10000):
        a, b, c = [mk_ts(rng, sid, SUBSETS[rng.randrange(64)]) for sid in range(3)]
        shape = rng.choice([[a, b], [a, b, c], [{'d': {'x': a, 'y': b}}, c], [a, {'lit': 'txt'}, b], [[a, b], c]])
        kw = [i for i in range(len(shape)) if i > 0 and rng.random() < .4]
        add('presync', shape, rng.choice(JOINS + [sorted(rng.sample(range(6), 3))]), rng.choice(METHODS), kw=kw)
    # F. the same collections with every list replaced by an instance of a list subclass (class Basket(list)): a seeded sample of the jobs above
    rng2 = random.Random(seed + 4242)
    plain = [j for j in jobs if isinstance(j['tree'], list) and j['fn'] != 'presync']
    for j in rng2.sample(plain, min(len(plain), 400 if quick else 6000)):
        jobs.append(dict(j, listcls='Basket'))
    return jobs


def ident(job):
    return json.dumps([job['fn'], job['tree'], job['join'], job.get('method'), job.get('columns'), job.get('kw'), job.get('listcls')], sort_keys=True)


def nontrivial(job):
    leaves = flat(job['tree'])
    return any(('ts' in l and l['ts']['idx']) or ('arr1' in l and l['arr1']) or ('arr' in l and l['arr'][0]) for l in leaves)


def run(tier, seed):
    quick = tier == 'quick'
    c = Collector('C03', 'collections of 1-3 Series / one-column / multi-column (a,b,c) frames whose indices are subsets of a 6-day grid (all 64, empty '
                  'included; two-Series lists over %s pairs of index sets), values encode (member, column, day), NaN with probability 0.3 (cell by cell; with a fill method whole rows in '
                  'section B and, section B", multi-column frames with rows NaN in some columns only next to entirely-NaN rows: the row is the '
                  'observation, only an entirely-NaN row is missing, a surviving row keeps its NaN cells), mixed with strings/numbers/None, in lists, dicts (keys inserted in descending order, so that written order and sorted key order differ) and 8 nested shapes; join in {ij,oj,lj,rj,explicit '
                  'index}; method in {None,ffill,bfill}; column policy in {default,ij,oj,lj,rj}; df_sync, df_reindex (index as policy, as pd.Index, as a '
                  'timeseries), presync(recording function; columns=False for frames); bare numpy arrays: every 2- and 3-tuple of lengths 0..5, 1-d and 2-d, x 4 joins, and every pair of lengths 0..4 with integer / boolean arrays; seeded choices '
                  'from random.Random(seed); a seeded sample of these collections again with every list an instance of a list subclass (looped over like a list, same class back). Distinct by (function, collection, join, method, columns); non-trivial when some member has at least one row'
                  % ('all 4096' if not quick else '~770 seeded'), exhaustive=False,
                  scope='index sets: subsets of 6 timestamps; <=3 timeseries per collection; nesting depth <=4; numpy lengths 0..5')
    jobs = jobs_for(tier, seed)
    if quick:
        results = map(run_job, jobs)
    else:
        import multiprocessing as mp
        pool = mp.get_context('fork').Pool(14)
        results = pool.imap(run_job, jobs, chunksize=50)
    for job, fails in zip(jobs, results):
        call = dict(fn=job['fn'], tree=job['tree'], join=job['join'], method=job.get('method'), columns=job.get('columns'), kw=job.get('kw'), listcls=job.get('listcls'))
        c.case(ident(job), nontrivial=nontrivial(job), sample=dict(fn=job['fn'], join=job['join'], method=job.get('method'), collection=json.dumps(job['tree'])[:300]))
        for key, what in fails:
            c.check(False, key, what, call)
    if not quick:
        pool.close()
        pool.join()
    return c.result()


def replay(call):
    fails = run_job(dict(fn=call['fn'], tree=call['tree'], join=call['join'], method=call.get('method'), columns=call.get('columns'), kw=call.get('kw'), listcls=call.get('listcls')))
    return dict(fails=bool(fails), detail='; '.join('%s: %s' % f for f in fails)[:600] if fails else 'all clauses hold on the real code for this input')
