"""Replay of solver counterexamples for the C04 obligations: the model's integers are fed to the real ym / _ymd / num2dt / dt / ymd and
compared with plain datetime arithmetic written from the property statement."""
import datetime

D = datetime.datetime
TD = datetime.timedelta


def _i(call, k, default=0):
    v = call.get(k)
    return default if v is None else int(v)


def spec_ymd(y, m, d):
    """first day of the normalised month plus d-1 days"""
    tot = 12 * y + (m - 1)
    return D(tot // 12, tot % 12 + 1, 1) + TD(days=d - 1)


def replay(call):
    from pyg_base import _dates as M
    kind = call.get('kind')
    y, m, d = _i(call, 'y', 2000), _i(call, 'm', 1), _i(call, 'd', 1)
    h, mi, s = _i(call, 'h'), _i(call, 'mi'), _i(call, 's')
    try:
        if kind == 'ym':
            got = M.ym(y, m)
            tot = 12 * y + m - 1
            exp = (tot // 12, tot % 12 + 1)
            return dict(fails=tuple(got) != exp, detail='ym(%d, %d) = %s, expected %s' % (y, m, got, exp))
        if kind == '_ymd':
            got, exp = M._ymd(y, m, d), spec_ymd(y, m, d)
            return dict(fails=got != exp, detail='_ymd(%d, %d, %d) = %s, expected %s' % (y, m, d, got, exp))
        if kind in ('num2dt', 'dt_int'):
            f = M.num2dt if kind == 'num2dt' else M.dt
            fails, det = False, []
            cands = []
            if call.get('i') is not None:
                cands.append(int(call['i']))
            try:
                day = D(y, m, d)
                cands += [10000 * y + 100 * m + d, day.toordinal()]
            except ValueError:
                day = None
            for i in cands:
                if 1900 <= i < 2300:
                    exp = D(i, 1, 1)
                elif 300000 <= i < 1095000:
                    exp = D.fromordinal(i)
                elif 19000101 <= i <= 22991231 and day is not None and i == 10000 * y + 100 * m + d:
                    exp = day
                else:
                    continue
                got = f(i)
                if got != exp:
                    fails = True
                det.append('%s(%d) = %s, expected %s' % (f.__name__, i, got, exp))
            return dict(fails=fails, detail='; '.join(det) or 'no integer spelling inside the domain in this model')
        if kind == 'dt_parts':
            fails, det = False, []
            in_dom = 1900 <= y < 2300 and abs(m) <= 1200 and abs(d) <= 100000
            if not in_dom:
                return dict(fails=False, detail='model outside the domain')
            cases = [((y, m), spec_ymd(y, m, 1)), ((y, m, d), spec_ymd(y, m, d))]
            if 0 <= h < 24 and 0 <= mi < 60 and 0 <= s < 60:
                base = spec_ymd(y, m, d)
                cases += [((y, m, d, h), base + TD(hours=h)), ((y, m, d, h, mi), base + TD(hours=h, minutes=mi)),
                          ((y, m, d, h, mi, s), base + TD(hours=h, minutes=mi, seconds=s))]
            for args, exp in cases:
                got = M.dt(*args)
                if got != exp:
                    fails = True
                    det.append('dt%s = %s, expected %s' % (args, got, exp))
            return dict(fails=fails, detail='; '.join(det) or 'dt of the integer parts agrees with first-of-normalised-month + (d-1) days [+ h:m:s]')
        if kind in ('dt_datetime', 'ymd_datetime'):
            t = D.fromordinal(_i(call, 'o', 730120)) + TD(microseconds=_i(call, 'us'))
            if kind == 'dt_datetime':
                got, exp = M.dt(t), t
            else:
                got, exp = M.ymd(t), D(t.year, t.month, t.day)
            return dict(fails=got != exp, detail='%s(%s) = %s, expected %s' % (kind.split('_')[0], t, got, exp))
        if kind == 'ymd_parts':
            got, exp = M.ymd(y, m, d, h, mi, s), D(y, m, d)
            return dict(fails=got != exp, detail='ymd(%s) = %s, expected %s' % ((y, m, d, h, mi, s), got, exp))
    except Exception as e:      # noqa
        return dict(fails=True, detail='%s on (y=%d, m=%d, d=%d, h=%d, mi=%d, s=%d, i=%s) raised %r' % (kind, y, m, d, h, mi, s, call.get('i'), e))
    return dict(fails=None, detail='no replay for kind %r' % kind)
