"""C04 bounded stand-in: every supported spelling of a calendar day / instant is passed to the real dt() / ymd() / dt2str() and must give
the same datetime; unambiguous wrong-dialect strings must raise ValueError; month/day overflow follows 'first day of the normalised
month plus d-1 days'.  Oracles are plain calendar arithmetic on datetime; nothing here reads the implementation.

quick tier   : every 37th day of 1900-2300 + every month end + every 29 Feb + all days of five years (incl. both range ends)
thorough tier: all 146 097 days of 1900-2300 (multiprocessing)
"""
import datetime, random, calendar as _calendar
from rac.common import Collector

D = datetime.datetime
DAY = datetime.timedelta(days=1)
T0, T1 = D(1900, 1, 1), D(2300, 1, 1)
O0, O1 = T0.toordinal(), T1.toordinal()
MONTHS = ['January', 'February', 'March', 'April', 'May', 'June', 'July', 'August', 'September', 'October', 'November', 'December']
SEPS = '-/. '
SEPNAME = {'-': 'dash', '/': 'slash', '.': 'dot', ' ': 'space'}
DIALECTS = ('uk', 'us')

NONSTRING = ['datetime', 'date', 'parts', 'parts_hms', 'int_yyyymmdd', 'ordinal', 'np_D', 'np_s', 'np_us', 'np_ns', 'pd']
NEUTRAL_STR = ['iso', 'isodate', 'yyyymmdd', 'name_dBY', 'name_0dbY', 'name_BdY', 'name_b0dY', 'name_0d-b-Y', 'dt2str']
FAMILY = dict(iso='iso', isodate='iso', yyyymmdd='yyyymmdd', dt2str='dt2str')


def ns_ok(t):
    return 1678 <= t.year <= 2261


def numeric_string(t, order, sep, pad):
    """order 'dmy' or 'mdy'; pad 'p' (zero padded) or 'u' (unpadded)"""
    f = '%02d' if pad == 'p' else '%d'
    a, b = (t.day, t.month) if order == 'dmy' else (t.month, t.day)
    return sep.join([f % a, f % b, '%04d' % t.year])


def build(t, name):
    """the positional arguments handed to dt() for spelling `name` of instant t"""
    import numpy as np, pandas as pd
    y, m, d = t.year, t.month, t.day
    if name == 'datetime':
        return (t,)
    if name == 'date':
        return (t.date(),)
    if name == 'parts':
        return (y, m, d)
    if name == 'parts_hms':
        return (y, m, d, t.hour, t.minute, t.second)
    if name == 'int_yyyymmdd':
        return (y * 10000 + m * 100 + d,)
    if name == 'ordinal':
        return (t.toordinal(),)
    if name.startswith('np_'):
        return (np.datetime64(t).astype('datetime64[%s]' % name[3:]),)
    if name == 'pd':
        return (pd.Timestamp(t),)
    if name == 'iso':
        return (t.isoformat(),)
    if name == 'isodate':
        return ('%04d-%02d-%02d' % (y, m, d),)
    if name == 'yyyymmdd':
        return ('%04d%02d%02d' % (y, m, d),)
    if name == 'name_dBY':
        return ('%d %s %04d' % (d, MONTHS[m - 1], y),)
    if name == 'name_0dbY':
        return ('%02d %s %04d' % (d, MONTHS[m - 1][:3], y),)
    if name == 'name_BdY':
        return ('%s %d, %04d' % (MONTHS[m - 1], d, y),)
    if name == 'name_b0dY':
        return ('%s %02d %04d' % (MONTHS[m - 1][:3], d, y),)
    if name == 'name_0d-b-Y':
        return ('%02d-%s-%04d' % (d, MONTHS[m - 1][:3], y),)
    if name == 'dt2str':
        from pyg_base import dt2str
        return (dt2str(t),)
    order, sep, pad = name.split('|')
    return (numeric_string(t, order, sep, pad),)


def family(name, t):
    """key component: clause / input class of a spelling"""
    if name in NONSTRING:
        return 'nonstring'
    if name in FAMILY:
        return FAMILY[name]
    if name.startswith('name_'):
        return 'monthname'
    order, sep, pad = name.split('|')
    fam = 'dmy-uk' if order == 'dmy' else 'mdy-us'
    first = t.day if order == 'dmy' else t.month
    if pad == 'u' and first < 10 and sep in '. ':
        fam += ':unpadded-%s' % SEPNAME[sep]          # single-digit leading field followed by '.' / ' '
    return fam


def day_spellings(t):
    """(name, dialect, expect) for a midnight day t; expect in {'value', 'ValueError'}"""
    out = []
    for dialect in DIALECTS:
        for name in NONSTRING:
            if name == 'np_ns' and not ns_ok(t):
                continue
            out.append((name, dialect, 'value'))
        for name in NEUTRAL_STR:
            out.append((name, dialect, 'value'))
    for sep in SEPS:
        for pad in 'pu':
            if pad == 'u' and t.day >= 10 and t.month >= 10:
                continue                                   # identical to the padded string
            out.append(('dmy|%s|%s' % (sep, pad), 'uk', 'value'))
            out.append(('mdy|%s|%s' % (sep, pad), 'us', 'value'))
            if t.day > 12:                                 # unambiguous, written in the other dialect: must be rejected
                out.append(('dmy|%s|%s' % (sep, pad), 'us', 'ValueError'))
                out.append(('mdy|%s|%s' % (sep, pad), 'uk', 'ValueError'))
    return out


def eval_one(t, name, dialect, expect, use_ymd=False):
    """returns None when the clause holds, else (key, what)"""
    from pyg_base import dt, ymd
    fn = ymd if use_ymd else dt
    args = build(t, name)
    fam = family(name, t)
    target = D(t.year, t.month, t.day) if use_ymd else t
    if name in ('parts_hms', 'np_s') and not use_ymd:
        target = t.replace(microsecond=0)          # spellings that carry the time of day to the second
    clause = 'ymd' if use_ymd else fam
    try:
        r = fn(*args, dialect=dialect)
    except Exception as e:              # noqa
        if expect == 'ValueError':
            if isinstance(e, ValueError):
                return None
            return ('C04:wrong-dialect:other-exception', '%s(%r, dialect=%r) raised %r, expected ValueError' % (fn.__name__, args, dialect, e))
        return ('C04:%s:raises' % clause, '%s(*%r, dialect=%r) raised %r, expected %s' % (fn.__name__, args, dialect, e, target))
    if expect == 'ValueError':
        return ('C04:wrong-dialect:accepted', 'dt(%r, dialect=%r) = %s: a day>12 string of the other dialect was not rejected' % (args[0], dialect, r))
    try:
        ok = isinstance(r, datetime.datetime) and r == target
    except Exception:                   # noqa
        ok = False
    if not ok:
        return ('C04:%s:value' % clause, '%s(*%r, dialect=%r) = %r, expected %s' % (fn.__name__, args, dialect, r, target))
    return None


# ------------------------------------------------------------------ numeric d-m-y / m-d-y strings followed by a time of day
TOD_LEVELS = ('HM', 'HMS', 'HMSf')        # ' HH:MM', ' HH:MM:SS', ' HH:MM:SS.ffffff'


def spelled(t, level):
    """the instant a string with that time-of-day suffix spells: t truncated to the minute / second / microsecond"""
    return t.replace(second=0, microsecond=0) if level == 'HM' else t.replace(microsecond=0) if level == 'HMS' else t


def numeric_tod_string(t, order, sep, pad, level):
    suffix = ' %02d:%02d' % (t.hour, t.minute)
    if level != 'HM':
        suffix += ':%02d' % t.second
    if level == 'HMSf':
        suffix += '.%06d' % t.microsecond
    return numeric_string(t, order, sep, pad) + suffix


def eval_numeric_tod(t, order, sep, pad, level, dialect, expect):
    """the d-m-y (uk) / m-d-y (us) numeric string of day t followed by t's time of day (to the minute / second / microsecond) must
    give the instant it spells under its own dialect, and for day > 12 be rejected with ValueError under the other one.
    returns None when the clause holds, else (key, what)"""
    from pyg_base import dt
    target = spelled(t, level)
    text = numeric_tod_string(target, order, sep, pad, level)
    fam = family('%s|%s|%s' % (order, sep, pad), t)
    try:
        r = dt(text, dialect=dialect)
    except Exception as e:              # noqa
        if expect == 'ValueError':
            if isinstance(e, ValueError):
                return None
            return ('C04:time-of-day:wrong-dialect:other-exception', 'dt(%r, dialect=%r) raised %r, expected ValueError' % (text, dialect, e))
        return ('C04:time-of-day:%s:raises' % fam, 'dt(%r, dialect=%r) raised %r, expected %s' % (text, dialect, e, target))
    if expect == 'ValueError':
        return ('C04:time-of-day:wrong-dialect:accepted', 'dt(%r, dialect=%r) = %s: a day>12 string of the other dialect (with a time of day) was not '
                'rejected' % (text, dialect, r))
    try:
        ok = isinstance(r, datetime.datetime) and r == target
    except Exception:                   # noqa
        ok = False
    if ok:
        return None
    what = 'dt(%r, dialect=%r) = %r, expected %s' % (text, dialect, r, target)
    if level == 'HMSf' and target.microsecond and isinstance(r, datetime.datetime) and r == target.replace(microsecond=0):
        # right day and second, the fraction of a second written in the string is lost (its own input class: day <= 12 under uk)
        return ('C04:time-of-day:%s:microseconds-dropped' % fam.split(':')[0], what)
    return ('C04:time-of-day:%s:value' % fam, what)


def numeric_tod_cases(t):
    """(order, sep, pad, level, dialect, expect) for an instant t"""
    out = []
    for sep in SEPS:
        for pad in 'pu':
            if pad == 'u' and t.day >= 10 and t.month >= 10:
                continue
            for level in TOD_LEVELS:
                out.append(('dmy', sep, pad, level, 'uk', 'value'))
                out.append(('mdy', sep, pad, level, 'us', 'value'))
                if t.day > 12:
                    out.append(('dmy', sep, pad, level, 'us', 'ValueError'))
                    out.append(('mdy', sep, pad, level, 'uk', 'ValueError'))
    return out


def numeric_tod_instants(rng, quick):
    """every day of a leap year (all 366 (day, month) pairs), the range ends, seeded days of the whole range; each with a
    time of day running through the boundary values of every field (the 16 zero / non-zero patterns) or seeded"""
    days = list(range(D(2000, 1, 1).toordinal(), D(2001, 1, 1).toordinal())) + [O0, O1 - 1]
    days += [rng.randrange(O0, O1) for _ in range(300 if quick else 8000)]
    bounds = [datetime.timedelta(hours=h, minutes=m, seconds=sec, microseconds=us)
              for h in (0, 1, 12, 23) for m in (0, 1, 59) for sec in (0, 1, 59) for us in (0, 1, 500000, 999999, 1000)]
    rng.shuffle(bounds)
    out = []
    for k, o in enumerate(days):
        if k % 3 == 2:
            tod = datetime.timedelta(hours=rng.randrange(24), minutes=rng.randrange(60), seconds=rng.randrange(60), microseconds=rng.randrange(10 ** 6))
        else:
            tod = bounds[k % len(bounds)]
        out.append(D.fromordinal(o) + tod)
    return out


def call_of(t, name, dialect, expect, use_ymd=False):
    return dict(kind='spell', o=t.toordinal(), us=int((t - D(t.year, t.month, t.day)) / datetime.timedelta(microseconds=1)),
                name=name, dialect=dialect, expect=expect, ymd=bool(use_ymd), iso=t.isoformat())


def check_days(ordinals):
    """all spellings x both dialects of each midnight day; returns (n_evaluations, {key: [what, call, count]})"""
    n, fails = 0, {}
    for o in ordinals:
        t = D.fromordinal(o)
        for name, dialect, expect in day_spellings(t):
            n += 1
            bad = eval_one(t, name, dialect, expect)
            if bad is not None:
                if bad[0] in fails:
                    fails[bad[0]][2] += 1
                else:
                    fails[bad[0]] = [bad[1], call_of(t, name, dialect, expect), 1]
    return n, fails


def merge(c, fails):
    for key, (what, call, count) in fails.items():
        if key in c.violations:
            c.violations[key]['count'] += count
        else:
            c.violations[key] = dict(key=key, what=str(what)[:600], call=call, count=count)


def quick_days():
    days = set(range(O0, O1, 37))
    for y in range(1900, 2300):
        for m in range(1, 13):
            days.add(D(y, m, _calendar.monthrange(y, m)[1]).toordinal())
        if _calendar.isleap(y):
            days.add(D(y, 2, 29).toordinal())
    for y in (1900, 2000, 2024, 2100, 2299):
        days.update(range(D(y, 1, 1).toordinal(), D(y + 1, 1, 1).toordinal()))
    return sorted(days)


def overflow_expected(y, m, d):
    """first day of the normalised month plus d-1 days"""
    tot = y * 12 + (m - 1)
    yy, m0 = divmod(tot, 12)
    return D(yy, m0 + 1, 1) + (d - 1) * DAY


def check_overflow(c, y, m, d):
    from pyg_base import dt
    call = dict(kind='overflow', y=y, m=m, d=d)
    try:
        r = dt(y, m, d)
    except Exception as e:          # noqa
        return c.check(False, 'C04:overflow:raises', 'dt(%d,%d,%d) raised %r' % (y, m, d, e), call)
    return c.check(r == overflow_expected(y, m, d), 'C04:overflow:value', 'dt(%d,%d,%d) = %s, expected %s' % (y, m, d, r, overflow_expected(y, m, d)), call)


TOD_LOSSLESS = ['datetime', 'iso', 'np_us', 'np_ns', 'pd', 'dt2str']
# non-zero representatives of each time-of-day field: lowest, highest and (for the microsecond) values that exercise every digit position
TOD_NONZERO = dict(h=(1, 23, 12), m=(1, 59, 30), s=(1, 59, 30), us=(1, 999999, 50, 500000, 1000, 999000))


def tod_patterns(rng, days, n_values):
    """times of day by the zero / non-zero pattern of (hour, minute, second, microsecond): for every one of the 16 patterns and every
    day of `days`, `n_values` instants whose non-zero fields run through TOD_NONZERO (the k-th instant takes the k-th representative of
    each field, further ones are seeded).  Yields (pattern name, instant); midnight (pattern 0000) is one instant per day."""
    fields = ('h', 'm', 's', 'us')
    top = dict(h=24, m=60, s=60, us=10 ** 6)
    for mask in range(16):
        name = ''.join('1' if (mask >> (3 - i)) & 1 else '0' for i in range(4))
        for o in days:
            for k in range(n_values if mask else 1):
                val = {}
                for i, f in enumerate(fields):
                    if not (mask >> (3 - i)) & 1:
                        val[f] = 0
                    elif k < len(TOD_NONZERO[f]):
                        val[f] = TOD_NONZERO[f][k]
                    else:
                        val[f] = rng.randrange(1, top[f])
                yield name, D.fromordinal(o) + datetime.timedelta(hours=val['h'], minutes=val['m'], seconds=val['s'], microseconds=val['us'])


def run(tier, seed):
    rng = random.Random(seed)
    quick = tier == 'quick'
    days = quick_days() if quick else list(range(O0, O1))
    c = Collector('C04',
                  rule='days of [1900-01-01, 2300-01-01): %s; each day under every spelling (datetime, date, (y,m,d), (y,m,d,h,m,s), yyyymmdd int, '
                       'ordinal, np.datetime64[D/s/us/ns], pd.Timestamp, ISO with and without time, yyyymmdd string, 5 month-name forms, dt2str round '
                       'trip) x both dialects, d-m-y (uk) and m-d-y (us) strings with separators - / . space, zero padded and unpadded, and for '
                       'day>12 the same strings under the other dialect (must raise ValueError); %d seeded instants with a time of day to the '
                       'microsecond through the lossless formats and ymd(); all 16 zero/non-zero patterns of (hour, minute, second, microsecond) x %d days '
                       '(range ends, leap day, epoch, seeded) x lowest/highest/seeded non-zero field values through the lossless formats (datetime, ISO, '
                       'np.datetime64[us/ns], pd.Timestamp, dt2str round trip), the to-the-second spellings ((y,m,d,h,m,s), np.datetime64[s]) and ymd(); the d-m-y / m-d-y numeric strings '
                       '(4 separators, padded / unpadded) followed by a time of day HH:MM, HH:MM:SS, HH:MM:SS.ffffff on every day of 2000 + range ends + '
                       'seeded days, times at the field boundaries or seeded, own dialect (value) and for day>12 the other dialect (ValueError); overflow dt(y,m,d) for months [-36,48] x days [-400,400]: %s. '
                       'Every case is a distinct (day, spelling, dialect) triple or (y,m,d) triple.'
                       % ('every 37th day + all month ends + all 29 Feb + all days of 1900, 2000, 2024, 2100, 2299 (%d days)' % len(days) if quick
                          else 'all 146097 days', 400 if quick else 20000, 12 if quick else 206,
                          'complete grid for year 2000, seeded sample of 20000 for other years' if quick else 'complete grid for 6 years'),
                  exhaustive=not quick,
                  scope='calendar days 1900-01-01..2299-12-31 (%s), spellings as listed, dialects uk/us, months -36..48, days -400..400'
                        % ('sampled' if quick else 'all'))
    n_eval = 0
    tod_seen, ovf_seen = set(), set()
    if quick:
        n, fails = check_days(days)
        n_eval += n
        merge(c, fails)
    else:
        import multiprocessing as mp
        chunks = [days[i:i + 500] for i in range(0, len(days), 500)]
        with mp.get_context('fork').Pool(16) as pool:
            for n, fails in pool.imap(check_days, chunks):
                n_eval += n
                merge(c, fails)
    n_day_evals = n_eval
    for o in days[::max(1, len(days) // 6)][:6]:
        t = D.fromordinal(o)
        c.samples.append(dict(t=t.isoformat(), spellings=[build(t, 'dmy|/|u')[0], build(t, 'mdy|.|p')[0], build(t, 'name_BdY')[0], build(t, 'int_yyyymmdd')[0]]))
    # ---- times of day to the microsecond (lossless formats), (y,m,d,h,m,s) to the second, ymd() drops the time of day
    for i in range(400 if quick else 20000):
        o = rng.randrange(O0, O1)
        us = rng.choice([1, 999999, 500000, rng.randrange(10 ** 6), 0])
        t = D.fromordinal(o) + datetime.timedelta(hours=rng.randrange(24), minutes=rng.randrange(60), seconds=rng.randrange(60), microseconds=us)
        if i % 50 == 0:
            t = D.fromordinal(o) + datetime.timedelta(days=1) - datetime.timedelta(microseconds=1)      # 23:59:59.999999
        for name in TOD_LOSSLESS + ['parts_hms']:
            if name == 'np_ns' and not ns_ok(t):
                continue
            for dialect in DIALECTS:
                for use_ymd in (False, True):
                    n_eval += 1
                    tod_seen.add((t, name, dialect, use_ymd))
                    bad = eval_one(t, name, dialect, 'value', use_ymd=use_ymd)
                    if bad is not None:
                        key = bad[0] if use_ymd else bad[0].replace('C04:', 'C04:time-of-day:', 1)
                        c.check(False, key, bad[1], call_of(t, name, dialect, 'value', use_ymd))
    # ---- times of day by zero / non-zero pattern of (hour, minute, second, microsecond): all 16 patterns (a field that is zero is where a
    #      "has no time of day" shortcut or a format that omits trailing fields can lose the others), each through every lossless spelling,
    #      the to-the-second spellings and ymd(), on the range ends, a leap day, a day <= 12 / month <= 12 ambiguity day and seeded days
    pat_days = [O0, O1 - 1, D(2000, 2, 29).toordinal(), D(2000, 1, 10).toordinal(), D(1969, 12, 31).toordinal(), D(1970, 1, 1).toordinal()]
    pat_days += [rng.randrange(O0, O1) for _ in range(6 if quick else 200)]
    for pat, t in tod_patterns(rng, pat_days, 4 if quick else 8):
        for name in TOD_LOSSLESS + ['parts_hms', 'np_s']:
            if name == 'np_ns' and not ns_ok(t):
                continue
            for dialect in DIALECTS:
                for use_ymd in (False, True):
                    n_eval += 1
                    tod_seen.add((t, name, dialect, use_ymd))
                    bad = eval_one(t, name, dialect, 'value', use_ymd=use_ymd)
                    if bad is not None:
                        key = bad[0] if use_ymd else bad[0].replace('C04:', 'C04:time-of-day:', 1)
                        c.check(False, key, '[h,m,s,us zero/non-zero pattern %s] %s' % (pat, bad[1]), call_of(t, name, dialect, 'value', use_ymd))
    # ---- numeric d-m-y / m-d-y strings (every separator, padded / unpadded) followed by a time of day ' HH:MM' / ' HH:MM:SS' /
    #      ' HH:MM:SS.ffffff': the dialect rule (value under the own dialect, ValueError for day > 12 under the other) holds with the suffix
    for t in numeric_tod_instants(rng, quick):
        for order, sep, pad, level, dialect, expect in numeric_tod_cases(t):
            n_eval += 1
            tod_seen.add((spelled(t, level), order, sep, pad, level, dialect))
            bad = eval_numeric_tod(t, order, sep, pad, level, dialect, expect)
            if bad is not None:
                c.check(False, bad[0], bad[1], dict(kind='numtod', o=t.toordinal(), us=int((t - D(t.year, t.month, t.day)) / datetime.timedelta(microseconds=1)),
                                                    order=order, sep=sep, pad=pad, level=level, dialect=dialect, expect=expect, iso=t.isoformat()))
    c.samples.append(dict(numeric_with_time_of_day=[numeric_tod_string(D(2001, 4, 3, 10, 20, 30, 5), 'dmy', '-', 'p', 'HMS'),
                                                    numeric_tod_string(D(2001, 4, 23, 10, 20, 30, 5), 'mdy', '.', 'u', 'HMSf')]))
    c.samples.append(dict(time_of_day_patterns='16 zero/non-zero patterns of (h,m,s,us), e.g. 0001 -> %s' % (D(2000, 1, 10) + datetime.timedelta(microseconds=50)).isoformat()))
    # ---- month / day overflow
    months, dys = list(range(-36, 49)), list(range(-400, 401))
    if quick:
        for m in months:
            for d in dys:
                check_overflow(c, 2000, m, d)
                ovf_seen.add((2000, m, d))
                n_eval += 1
        for _ in range(20000):
            y, m, d = rng.randrange(1904, 2295), rng.choice(months), rng.choice(dys)
            check_overflow(c, y, m, d)
            ovf_seen.add((y, m, d))
            n_eval += 1
    else:
        for y in (1904, 1999, 2000, 2023, 2100, 2294):
            for m in months:
                for d in dys:
                    check_overflow(c, y, m, d)
                    ovf_seen.add((y, m, d))
                    n_eval += 1
    c.samples.append(dict(overflow='dt(2000, -36, -400)', expected=overflow_expected(2000, -36, -400).isoformat()))
    res = c.result()
    res['evaluations'] = n_eval
    res['distinct_nontrivial'] = n_day_evals + len(tod_seen) + len(ovf_seen)     # days are enumerated without repetition
    return res


def replay(call):
    kind = call.get('kind')
    if kind == 'spell':
        t = D.fromordinal(int(call['o'])) + datetime.timedelta(microseconds=int(call.get('us') or 0))
        bad = eval_one(t, call['name'], call['dialect'], call.get('expect', 'value'), use_ymd=bool(call.get('ymd')))
        if bad is None:
            return dict(fails=False, detail='clause holds on the real code for %s spelling %s dialect %s' % (t, call['name'], call['dialect']))
        return dict(fails=True, detail=bad[1])
    if kind == 'numtod':
        t = D.fromordinal(int(call['o'])) + datetime.timedelta(microseconds=int(call.get('us') or 0))
        bad = eval_numeric_tod(t, call['order'], call['sep'], call['pad'], call['level'], call['dialect'], call.get('expect', 'value'))
        text = numeric_tod_string(spelled(t, call['level']), call['order'], call['sep'], call['pad'], call['level'])
        return dict(fails=bad is not None, detail=bad[1] if bad else 'clause holds on the real code for dt(%r, dialect=%r)' % (text, call['dialect']))
    if kind == 'overflow':
        c = Collector('C04', 'replay')
        check_overflow(c, int(call['y']), int(call['m']), int(call['d']))
        v = list(c.violations.values())
        return dict(fails=bool(v), detail=v[0]['what'] if v else 'dt(y,m,d) equals the first day of the normalised month plus d-1 days')
    return dict(fails=None, detail='no replay for kind %r' % kind)
