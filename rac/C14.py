"""C14 bounded stand-in: eq is a NaN-aware, type-strict equivalence.

Values are described in a small JSON-able spec language (so every failing input can be replayed) and *built fresh* for
every evaluation, so two builds of one spec are structural copies holding different NaN objects.
The oracle EQ below is written from the property statement only: scalars compare with NaN-aware ==, a scalar never
equals a container, containers of different type are different, lists/tuples/dicts compare element-wise, arrays by shape and
cells, Series/DataFrames by index, columns and cells.  Nothing here reads the implementation of eq."""
import datetime, random, warnings
from rac.common import Collector

warnings.filterwarnings('ignore')


# ----------------------------------------------------------------------------------------------- spec language
def _num(v):
    return float(v) if v in ('nan', 'inf', '-inf') else None if v == 'none' else v


def _nums(v):
    return [_nums(i) for i in v] if isinstance(v, list) else _num(v)


def build(s):
    """build a fresh python object from a spec (a JSON-able nested list)"""
    import numpy as np, pandas as pd
    from pyg_base import Dict, dictattr
    k = s[0]
    if k == 'none':
        return None
    if k in ('b', 'i', 's'):
        return s[1]
    if k == 'f':
        return float(s[1])
    if k == 'nan':
        return float('nan')
    if k == 'dt':
        return datetime.datetime.fromisoformat(s[1])
    if k == 'date':
        return datetime.date.fromisoformat(s[1])
    if k == 'ts':
        return pd.Timestamp(s[1])
    if k == 'dt64':
        return np.datetime64(s[1])
    if k == 'np':
        return getattr(np, s[1])(_num(s[2]))
    if k == 'list':
        return [build(i) for i in s[1]]
    if k == 'tuple':
        return tuple(build(i) for i in s[1])
    if k in ('dict', 'Dict', 'dictattr'):
        tp = dict(dict=dict, Dict=Dict, dictattr=dictattr)[k]
        return tp({key: build(v) for key, v in s[1]})
    if k == 'arr':          # ['arr', dtype, nested list of numbers/'nan'/strings]
        return np.array(_nums(s[2]), dtype=s[1])
    if k == 'arr0':         # 0-d array
        return np.array(_num(s[1]))
    if k == 'oarr':         # 1-d object array of built elements
        a = np.empty(len(s[1]), dtype=object)
        for i, e in enumerate(s[1]):
            a[i] = build(e)
        return a
    if k == 'series':       # ['series', dtype, values, index or None]
        idx = s[3]
        if idx is not None and len(idx) and isinstance(idx[0], str) and idx[0][:2] == '20':
            idx = [datetime.datetime.fromisoformat(i) for i in idx]
        return pd.Series(_nums(s[2]), index=idx, dtype=s[1])
    if k == 'df':           # ['df', [[col, values], ...], index or None]
        return pd.DataFrame({c: _nums(v) for c, v in s[1]}, index=s[2])
    if k == 'edf':          # ['edf', columns, index, dtype or None]: a frame without cells (no rows and / or no columns)
        return pd.DataFrame(index=_labels(s[2]), columns=s[1], dtype=s[3])
    if k == 'eser':         # ['eser', dtype, index kind]: a Series without rows; the index is empty but of kind 'range' / 'object' / 'datetime' / 'float'
        index = dict(range=None, object=pd.Index([], dtype=object), datetime=pd.DatetimeIndex([]), float=pd.Index([], dtype=float))[s[2]]
        return pd.Series([], index=index, dtype=s[1])
    raise ValueError('unknown spec %r' % (s,))


def _labels(idx):
    if idx is not None and len(idx) and isinstance(idx[0], str) and idx[0][:2] == '20':
        return [datetime.datetime.fromisoformat(i) for i in idx]
    return idx


# ----------------------------------------------------------------------------------------------- oracle
def _kind(x):
    import numpy as np, pandas as pd
    if isinstance(x, (list, tuple, dict, np.ndarray, pd.Series, pd.DataFrame)):
        return 'container'
    return 'scalar'


def _isnan(x):
    import numpy as np
    return isinstance(x, (float, np.floating)) and x != x


def EQ(x, y, in_dict=False):
    """-> (expected value, reason of the first difference or 'equal', difference lies inside a dict value)"""
    import numpy as np, pandas as pd
    kx, ky = _kind(x), _kind(y)
    if kx == 'scalar' and ky == 'scalar':
        if _isnan(x) or _isnan(y):
            return (_isnan(x) and _isnan(y)), 'nan', in_dict
        try:
            r = bool(x == y)
        except Exception:        # noqa
            r = False
        return r, 'scalar', in_dict
    if kx != ky:
        return False, 'scalar-vs-container', in_dict
    if type(x) is not type(y):
        return False, 'container-type', in_dict
    if isinstance(x, (list, tuple)):
        if len(x) != len(y):
            return False, 'length', in_dict
        pairs, deeper = list(zip(x, y)), in_dict
    elif isinstance(x, dict):
        if set(x.keys()) != set(y.keys()):
            return False, 'keys', in_dict
        pairs, deeper = [(x[k], y[k]) for k in x], True
    elif isinstance(x, np.ndarray):
        if x.shape != y.shape:
            return False, 'array-shape', in_dict
        cells = lambda a: list(a.ravel()) if a.dtype == object else a.ravel().tolist()    # noqa
        pairs, deeper = list(zip(cells(x), cells(y))), in_dict
    else:
        if not EQ(list(x.index), list(y.index))[0]:
            return False, 'pandas-index', in_dict
        if isinstance(x, pd.DataFrame) and not EQ(list(x.columns), list(y.columns))[0]:
            return False, 'pandas-columns', in_dict
        pairs, deeper = list(zip(x.values.ravel().tolist(), y.values.ravel().tolist())), in_dict
    for a, b in pairs:
        r = EQ(a, b, deeper)
        if not r[0]:
            return (False, r[1] if r[1] not in ('scalar', 'nan') else 'cells', r[2])
    return True, 'equal', in_dict


def _walk(s):
    yield s
    if s[0] in ('list', 'tuple', 'oarr'):
        for i in s[1]:
            yield from _walk(i)
    elif s[0] in ('dict', 'Dict', 'dictattr'):
        for _, v in s[1]:
            yield from _walk(v)


def _tags(s):
    t = set()
    for n in _walk(s):
        if n[0] == 'arr0':
            t.add('0d-array')
        if n[0] in ('dict', 'Dict', 'dictattr'):
            t.add('dict')
        if n[0] == 'np' and n[2] == 'nan' and n[1] != 'float64':
            t.add('numpy-nan-scalar-not-float64')
    return t


def _plain(s):
    """NaN-free plain value: None, bool, int, float, str, datetime, nested list/tuple/dict"""
    return all(n[0] in ('none', 'b', 'i', 'f', 's', 'dt', 'date', 'list', 'tuple', 'dict') for n in _walk(s))


def _raise_key(sx, sy):
    t = _tags(sx) | _tags(sy)
    return 'C14:never-raises:' + ('0d-array' if '0d-array' in t else 'in-dict-value' if 'dict' in t else 'other')


def _value_key(sx, sy, exp, reason, in_dict):
    if exp:
        t = _tags(sx) | _tags(sy)
        return 'C14:value:equal-expected:' + ('numpy-nan-scalar-not-float64' if 'numpy-nan-scalar-not-float64' in t else 'in-dict-value' if in_dict else 'other')
    return 'C14:value:in-dict-value' if in_dict else 'C14:value:%s' % reason


def check_pair(c, sx, sy):
    """all single-pair clauses on fresh builds of sx, sy.  returns bool(eq(x,y)) or None if it raised"""
    from pyg_base import eq
    import numpy as np
    call = dict(kind='pair', x=sx, y=sy)
    x, y = build(sx), build(sy)
    exp, reason, in_dict = EQ(x, y)
    if _plain(sx) and _plain(sy):
        assert exp == bool(x == y), 'oracle self-check: EQ must agree with == on NaN-free plain values %r %r' % (sx, sy)
    try:
        r = eq(x, y)
    except Exception as e:      # noqa
        c.check(False, _raise_key(sx, sy), 'eq(%r, %r) raised %r' % (x, y, e), call)
        return None
    if not isinstance(r, (bool, np.bool_)):          # messages are built on failure only: the repr of a frame costs more than the comparison
        c.check(False, 'C14:returns-bool', 'eq(%r, %r) returned %r of type %s' % (x, y, r, type(r)), call)
    if bool(r) != exp:
        c.check(False, _value_key(sx, sy, exp, reason, in_dict), 'eq(%r, %r) = %r, the statement requires %r (%s)' % (x, y, r, exp, reason), call)
    return bool(r)


def check_reflexive(c, sx):
    from pyg_base import eq
    x = build(sx)
    call = dict(kind='reflexive', x=sx)
    try:
        r = eq(x, x)
    except Exception as e:      # noqa
        c.check(False, _raise_key(sx, sx), 'eq(x, x) raised %r for x = %r' % (e, x), call)
        return
    if not bool(r):
        c.check(False, 'C14:reflexive', 'eq(x, x) = %r for x = %r' % (r, x), call)


def check_symmetry(c, sx, sy, rxy, ryx):
    if rxy is None or ryx is None or rxy == ryx:
        return
    _, reason, in_dict = EQ(build(sx), build(sy))
    c.check(False, 'C14:symmetry:%s' % ('in-dict-value' if in_dict else reason),
            'eq(x, y) = %r but eq(y, x) = %r for x = %r, y = %r' % (rxy, ryx, build(sx), build(sy)), dict(kind='symmetry', x=sx, y=sy))


def _trans_class(specs):
    reasons = set()
    for a in specs:
        for b in specs:
            _, reason, in_dict = EQ(build(a), build(b))
            reasons.add('in-dict-value' if in_dict and reason != 'equal' else reason)
    for r in ('scalar-vs-container', 'in-dict-value', 'array-shape', 'container-type'):
        if r in reasons:
            return r
    if all(_kind(build(a)) == 'scalar' for a in specs):
        return 'scalars-under-=='
    return 'other'


# ----------------------------------------------------------------------------------------------- universe
def base_universe():
    L = lambda *a: ['list', list(a)]      # noqa
    T = lambda *a: ['tuple', list(a)]     # noqa
    Dd = lambda tp='dict', **kw: [tp, [[k, v] for k, v in kw.items()]]      # noqa
    i1, i2, f1, nan, sa, none = ['i', 1], ['i', 2], ['f', 1.0], ['nan'], ['s', 'a'], ['none']
    A = lambda dtype, v: ['arr', dtype, v]    # noqa
    u = [none, ['b', True], ['b', False], ['i', 0], i1, i2, f1, ['f', 2.5], ['f', 0.0], nan, sa, ['s', 'b'], ['s', ''], ['s', '1'],
         ['dt', '2020-01-01T00:00:00'], ['dt', '2020-01-02T00:00:00'], ['ts', '2020-01-01'], ['dt64', '2020-01-01'], ['date', '2020-01-01'],
         ['np', 'float64', 1.0], ['np', 'float64', 'nan'], ['np', 'float32', 'nan'], ['np', 'float32', 1.0], ['np', 'int64', 1], ['np', 'int64', 0], ['np', 'bool_', True],
         ['f', 'inf'], ['f', '-inf'], ['np', 'float64', 'inf'], A('float', [1.0, 'inf']), L(['f', 'inf']), L(['f', '-inf']), Dd(a=['f', 'inf']),
         # floats that differ by less than any tolerance one might use for "closeness": equal only when every cell matches exactly
         ['f', 1.000001], ['f', 1e-9], A('float', [1.0, 2.000001]), A('float', [1e-9, 2.0]), A('float', [0.0, 2.0]), L(['f', 1.000001]), ['series', 'float', [1.0, 2.000001], None],
         # object cells: None and NaN are different cells (eq(None, nan) is False), in arrays, Series and frames alike
         ['oarr', [none, sa]], ['oarr', [nan, sa]], ['series', 'object', ['none', 'a'], None], ['series', 'object', ['nan', 'a'], None],
         L(), T(), Dd(), Dd('Dict'), A('float', []), A('int', [1]), A('float', [1.0]), A('int', [1, 2]), A('float', [1.0, 2.0]), A('int', [2, 1]),
         A('float', [1.0, 'nan']), A('float32', [1.0, 'nan']), A('int', [[1, 2]]), A('int', [[1], [2]]), A('int', [[1, 2], [3, 4]]), A('int', [[1, 2], [3, 5]]),
         A('int', [[1], [1]]), A('int', [[1, 1], [1, 1]]), A('int', [[1]]), A('str', ['a']), A('str', ['a', 'b']), A('bool', [True]),
         ['oarr', [none]], ['oarr', [i1, sa]], ['oarr', [i1, L(i1, nan)]], ['arr0', 1], ['arr0', 'nan'],
         L(i1), L(f1), L(['b', True]), L(i1, i2), L(i2, i1), L(nan), L(i1, nan), L(sa), L(none), L(L(i1)), L(T(i1)), L(L(nan)), L(i1, i2, ['i', 3]),
         T(i1), T(i1, i2), T(nan), T(sa), T(L(i1)),
         Dd(a=i1), Dd(a=f1), Dd(a=i2), Dd(b=i1), Dd(a=i1, b=i2), Dd(b=i2, a=i1), Dd(a=nan), Dd(a=none), Dd(a=L(i1, i2)), Dd(a=T(i1, i2)),
         Dd(a=L(i1, i2), b=L(['i', 3], ['i', 4])), Dd(a=L(i1, i2), b=T(['i', 3], ['i', 4])), Dd(a=L(i1, i2), b=L(['i', 3])), Dd(a=L(i1, i2), b=T(['i', 3])),
         Dd(a=Dd(b=i1)), Dd(a=Dd('Dict', b=i1)), Dd('Dict', a=i1), Dd('dictattr', a=i1), Dd(a=A('int', [1, 2])), Dd(a=L()), Dd(a=T()), Dd(a=sa, b=L(i1, nan)),
         Dd(a=A('int', [[1, 2], [3, 4]]), b=L(i1, i2)), Dd(a=A('int', [1, 2]), b=A('int', [1, 2, 3])),
         ['series', 'int', [1, 2], None], ['series', 'float', [1.0, 2.0], None], ['series', 'float', [1.0, 'nan'], None], ['series', 'int', [1, 2], [1, 2]],
         ['series', 'int', [1, 3], None], ['series', 'object', ['a', 'b'], None], ['series', 'int', [1, 2, 3], None], ['series', 'float', [], None],
         ['series', 'int', [1, 2], ['2020-01-01T00:00:00', '2020-01-02T00:00:00']], ['series', 'int', [1], None],
         ['df', [['a', [1, 2]]], None], ['df', [['a', [1.0, 'nan']]], None], ['df', [['b', [1, 2]]], None], ['df', [['a', [1, 2]]], [1, 2]],
         ['df', [['a', [1, 2]], ['b', [3, 4]]], None], ['df', [['a', [1, 3]]], None], ['df', [], None], ['df', [['a', [1]]], None],
         Dd(a=['series', 'int', [1, 2], None]), L(['series', 'float', [1.0, 'nan'], None], nan), T(['df', [['a', [1.0, 'nan']]], None])]
    return u


def empty_pandas_universe():
    """pandas objects without cells - no rows and / or no columns - that differ in column names (also their order, int against str names), index labels
    (values, length, type), dtype and index kind, the same held by a list / dict, and their neighbours: frames / Series WITH cells on the same labels
    and the other empty containers.  Index, columns (and type) decide here, there is no cell to look at."""
    ts = ['2020-01-01T00:00:00', '2020-01-02T00:00:00']
    e = [['edf', ['a'], None, None], ['edf', ['b'], None, None], ['edf', ['a', 'b'], None, None], ['edf', ['b', 'a'], None, None], ['edf', ['a'], None, 'float'],
         ['edf', ['a'], None, 'int'], ['edf', [1], None, None], ['edf', ['1'], None, None], ['edf', ['a'], [], 'float'],
         ['edf', None, [1, 2], None], ['edf', None, [3, 4], None], ['edf', None, [2, 1], None], ['edf', None, ['x', 'y'], None], ['edf', None, [1, 2, 3], None],
         ['edf', None, [1.0, 2.0], 'float'], ['edf', None, ts, None], ['edf', None, ts[:1], None],
         ['edf', None, None, None], ['edf', [], [], 'float'], ['df', [], None], ['df', [['a', []]], None], ['df', [['a', []], ['b', []]], None],
         ['eser', 'float', 'range'], ['eser', 'int', 'range'], ['eser', 'object', 'range'], ['eser', 'float', 'object'], ['eser', 'float', 'datetime'], ['eser', 'float', 'float'],
         ['series', 'float', [], None]]
    held = [['list', [e[0]]], ['list', [e[1]]], ['dict', [['k', e[9]]]], ['dict', [['k', e[10]]]], ['tuple', [e[22]]], ['list', [e[22]]]]
    near = [['df', [['a', [1, 2]]], None], ['df', [['a', [1.0, 'nan']]], [1, 2]], ['df', [['b', [1.0, 'nan']]], [1, 2]], ['series', 'float', [1.0, 'nan'], [1, 2]],
            ['series', 'float', [1.0, 'nan'], [3, 4]], ['list', []], ['tuple', []], ['dict', []], ['arr', 'float', []], ['arr', 'float', [[]]], ['none'], ['nan']]
    return e + held + near


_ALT = {('i', 1): [['f', 1.0], ['np', 'int64', 1], ['b', True], ['np', 'float64', 1.0], ['i', 2]],
        ('nan',): [['np', 'float64', 'nan'], ['f', 1.0], ['none']],
        ('s', 'a'): [['s', 'b'], ['list', [['s', 'a']]]]}


def nested_families(rng, count):
    """families of near-equal nestings: a template, and variants with one container kind / one leaf changed"""
    leaves = [['i', 1], ['nan'], ['s', 'a'], ['none'], ['i', 2], ['f', 2.5], ['dt', '2020-01-01T00:00:00'], ['arr', 'float', [1.0, 'nan']], ['arr', 'int', [[1, 2], [3, 4]]],
              ['series', 'float', [1.0, 'nan'], None], ['df', [['a', [1, 2]]], None], ['list', []], ['tuple', []], ['dict', []], ['np', 'float64', 1.0]]

    def gen(depth):
        if depth == 0 or rng.random() < .25:
            return rng.choice(leaves)
        k = rng.choice(['list', 'tuple', 'dict', 'Dict', 'oarr', 'list', 'dict'])
        n = rng.choice([1, 2, 2, 3])
        kids = [gen(depth - 1) for _ in range(n)]
        if k in ('dict', 'Dict'):
            return [k, [['k%d' % i, v] for i, v in enumerate(kids)]]
        return [k, kids]

    def variants(s):
        nodes = list(_walk(s))

        def subst(t, target, repl):
            if t is target:
                return repl
            if t[0] in ('list', 'tuple', 'oarr'):
                return [t[0], [subst(i, target, repl) for i in t[1]]]
            if t[0] in ('dict', 'Dict', 'dictattr'):
                return [t[0], [[k, subst(v, target, repl)] for k, v in t[1]]]
            return t
        out = [s]
        swap = dict(list=['tuple', 'oarr'], tuple=['list'], dict=['Dict'], Dict=['dict', 'dictattr'], oarr=['list'])
        for n in nodes:
            if n[0] in swap:
                out.append(subst(s, n, [rng.choice(swap[n[0]]), n[1]]))
            elif n[0] in ('i', 'nan', 's') and tuple(n) in _ALT:
                out.append(subst(s, n, rng.choice(_ALT[tuple(n)])))
        return out
    fams = []
    for _ in range(count):
        s = gen(rng.choice([1, 2, 2, 3]))
        if s[0] not in ('list', 'tuple', 'dict', 'Dict', 'oarr'):
            continue
        v = variants(s)
        fams.append(v[:1] + rng.sample(v[1:], min(len(v) - 1, 4)))
    return fams


def _sampler(limit=2):
    """-> take(category, sample, when=True): the sample for the first `limit` cases of a category that satisfy `when`, else None"""
    counts = {}

    def take(cat, d, when=True):
        if when and counts.get(cat, 0) < limit:
            counts[cat] = counts.get(cat, 0) + 1
            return d
        return None
    return take


_TAKE = []


def _run_matrix(c, specs, names, do_triples=True):
    n = len(specs)
    M = [[None] * n for _ in range(n)]
    for i in range(n):
        check_reflexive(c, specs[i])
        for j in range(n):
            M[i][j] = check_pair(c, specs[i], specs[j])
            exp = EQ(build(specs[i]), build(specs[j]))
            # non-trivial: the answer is not settled by two different top-level container types alone
            c.case((names[i], names[j]), nontrivial=not (exp[1] == 'container-type' and not exp[2]),
                   sample=_TAKE[0](names[i][0] + exp[1], dict(x=specs[i], y=specs[j]), (i * 7 + j) % 11 == 3) if _TAKE else None)
    for i in range(n):
        for j in range(i + 1, n):
            check_symmetry(c, specs[i], specs[j], M[i][j], M[j][i])
    if do_triples:
        for i in range(n):
            for j in range(n):
                if M[i][j]:
                    for k in range(n):
                        if M[j][k]:
                            c.evaluations += 1
                            if M[i][k] is False:
                                cls = _trans_class([specs[i], specs[j], specs[k]])
                                c.check(False, 'C14:transitivity:' + cls, 'eq(x,y) and eq(y,z) but not eq(x,z) for x = %r, y = %r, z = %r' % (build(specs[i]), build(specs[j]), build(specs[k])),
                                        dict(kind='triple', x=specs[i], y=specs[j], z=specs[k]))
    return M


def run(tier, seed):
    from pyg_base import in_, eq
    rng = random.Random(seed)
    quick = tier == 'quick'
    base = base_universe()
    fams = nested_families(rng, 25 if quick else 200)
    c = Collector('C14', rule='all ordered pairs (incl. a value against a fresh structural copy of itself) and all triples (from the pair matrix) of a fixed universe of %d values: '
                  'None, bools, ints, floats, NaN, strings, datetime/date/Timestamp/datetime64, numpy scalars (float64/float32/int64/bool_, NaN), empty and non-empty list/tuple/dict/Dict/'
                  'dictattr, arrays of several dtypes and shapes (0-d, (n,), (1,n), (n,1), (n,n), object), Series/DataFrames differing in cells/index/columns/length, and dicts/lists holding these; '
                  'all pairs and triples of %d pandas objects without cells (frames with no rows and / or no columns, empty Series) differing in column names and their order, index labels / length / type, '
                  'dtype, index kind, held by lists / dicts, next to frames and Series with cells on the same labels and the other empty containers; '
                  'plus %d seeded families of nestings (depth <= 3 over list/tuple/dict/Dict/object-array) each with variants that change one container kind or one leaf, all pairs and triples '
                  'within a family and against a sample of the base universe; in_ on sampled sequences. A pair is non-trivial unless it is settled by two different top-level container types; '
                  'distinct by (value, value)' % (len(base), len(empty_pandas_universe()), len(fams)),
                  exhaustive=False, scope='fixed universe of %d values: all pairs, all triples; %d nested families: all pairs/triples inside a family' % (len(base), len(fams)))
    names = ['u%d' % i for i in range(len(base))]
    _TAKE[:] = [_sampler(1)]
    M = _run_matrix(c, base, names)
    for f, fam in enumerate(fams):
        extra = rng.sample(base, 4 if quick else 8)
        specs = fam + extra
        _run_matrix(c, specs, ['n%d_%d' % (f, i) for i in range(len(specs))])
    # pandas objects without cells: all pairs (the diagonal is a value against a fresh copy of itself) and triples
    empties = empty_pandas_universe()
    _run_matrix(c, empties, ['e%d' % i for i in range(len(empties))])
    # membership built on eq: in_(x, seq) == any(eq(x, s) for s in seq)
    for t in range(150 if quick else 2000):
        sx = rng.choice(base)
        seq = [rng.choice(base) for _ in range(rng.randrange(0, 5))]
        if rng.random() < .4:
            seq.insert(rng.randrange(len(seq) + 1), sx)
        check_in(c, sx, seq)
        c.case(('in_', t), nontrivial=len(seq) > 0)
    return c.result()


def check_in(c, sx, seq):
    from pyg_base import in_, eq
    call = dict(kind='in', x=sx, seq=seq)
    try:
        exp = False
        for s in seq:                          # first match decides, like any(); elements after it are not compared
            if eq(build(sx), build(s)):
                exp = True
                break
    except Exception:                          # noqa  already reported by the pair checks
        return
    try:
        got = in_(build(sx), [build(s) for s in seq])
    except Exception as e:                     # noqa
        c.check(False, 'C14:in_:raises', 'in_(%r, %r) raised %r' % (build(sx), [build(s) for s in seq], e), call)
        return
    c.check(bool(got) == exp, 'C14:in_:value', 'in_(%r, %r) = %r but any(eq(x, s)) = %r' % (build(sx), [build(s) for s in seq], got, exp), call)


def replay(call):
    c = Collector('C14', 'replay')
    kind = call.get('kind')
    if kind == 'pair':
        check_pair(c, call['x'], call['y'])
    elif kind == 'reflexive':
        check_reflexive(c, call['x'])
    elif kind == 'symmetry':
        cc = Collector('C14', 'scratch')
        check_symmetry(c, call['x'], call['y'], check_pair(cc, call['x'], call['y']), check_pair(cc, call['y'], call['x']))
    elif kind == 'triple':
        cc = Collector('C14', 'scratch')
        x, y, z = call['x'], call['y'], call['z']
        a, b, d = check_pair(cc, x, y), check_pair(cc, y, z), check_pair(cc, x, z)
        c.check(not (a and b) or d is not False, 'transitivity', 'eq(x,y) = %r, eq(y,z) = %r, eq(x,z) = %r for x = %r, y = %r, z = %r' % (a, b, d, build(x), build(y), build(z)))
    elif kind == 'in':
        check_in(c, call['x'], call['seq'])
    else:
        return dict(fails=None, detail='no replay for kind %r' % kind)
    v = list(c.violations.values())
    return dict(fails=bool(v), detail=v[0]['what'] if v else 'all clauses hold on the real code for this input')
