"""Replay of solver counterexamples for the C10 obligations, and native validation of the rrule axiom of pyvc/th_rrule.py.

replay(call): call = dict(kind='drange', o0, u0, o1, u1, bump) with bump None | {'int': n} | {'td': [days, seconds, microseconds]} | {'str': tenor};
the real drange is run (forked child, hard timeout) and judged by the oracle of the bounded stand-in (rac/C10.py: start at t0, apply the bump while
inside the interval; a bump pointing away from t1 must raise ValueError; t0 == t1 gives [t0])."""
import datetime, random
from rac.common import Collector
from rac import C10 as B

D = datetime.datetime
TD = datetime.timedelta


def _t(o, us):
    return D.fromordinal(int(o)) + TD(microseconds=int(us))


def _judge(t0, t1, spec, run_spec):
    zero = ('int' in spec and spec['int'] == 0) or ('td' in spec and B.bump_of(spec) == TD(0))
    if t0 == t1:
        expect = 'same'
    elif zero or (B.direction(spec) > 0) != (t1 > t0):
        expect = 'ValueError'
    else:
        expect = 'value'
    case = dict(t0=t0, t1=t1, bump=spec, expect=expect, group=None)
    if run_spec is None:
        from pyg_base import drange
        try:
            res = ('ok', drange(t0, t1))
        except BaseException as e:     # noqa
            res = ('raise', type(e).__name__, isinstance(e, ValueError), str(e)[:200])
    else:
        res = B.evaluate([case], batch=1, timeout=15.0)[0]
    c = Collector('C10', 'replay')
    B.judge(c, case, res)
    v = list(c.violations.values())
    return v[0]['what'] if v else None


def _variants(t0, t1, spec):
    """the counterexample itself, then inputs next to it: longer spans in the same direction, an end point hit exactly by the iterated bump,
    and (for a single number) the multipliers 2 and 3 - an obligation about an arbitrary loop iteration fixes the step, not the span"""
    yield t0, t1, spec
    sgn = 1 if t1 >= t0 else -1
    specs = [spec]
    if 'int' in spec and spec['int']:
        s = 1 if spec['int'] > 0 else -1
        specs += [dict(int=s * 2), dict(int=s * 3)]
    elif 'str' in spec:
        toks, rest = B.parse_tokens(spec['str'])
        if len(toks) == 1 and toks[0][0]:
            s = 1 if toks[0][0] > 0 else -1
            specs += [dict(str='%d%s' % (s * 2, toks[0][1])), dict(str='%d%s' % (s * 3, toks[0][1]))]
    for sp in specs:
        for days in (45, 800):
            yield t0, t0 + sgn * TD(days=days), sp
        try:
            far = B.expected(t0, t0 + B.direction(sp) * TD(days=900), sp)
            if len(far) > 3:
                yield t0, far[3], sp
        except Exception:       # noqa
            pass


def replay(call):
    if call.get('kind') != 'drange':
        return dict(fails=None, detail='no replay for kind %r' % call.get('kind'))
    t0, t1 = _t(call['o0'], call.get('u0') or 0), _t(call['o1'], call.get('u1') or 0)
    spec = call.get('bump')
    run_spec = spec
    if spec is None:
        what = _judge(t0, t1, dict(int=1 if t0 < t1 else -1), None)
        return dict(fails=bool(what), detail=what or 'drange(%s, %s) agrees with daily steps towards t1' % (t0, t1))
    if 'td' in spec:
        spec = B.td_spec(TD(days=spec['td'][0], seconds=spec['td'][1], microseconds=spec['td'][2]))
    tried = 0
    for a, b, sp in _variants(t0, t1, spec):
        tried += 1
        what = _judge(a, b, sp, sp)
        if what:
            return dict(fails=True, detail=what + ('' if tried == 1 else ' (input next to the solver model: the model itself passes)'))
        if tried >= 16:
            break
    return dict(fails=False, detail='drange(%s, %s, %r) and %d inputs next to it agree with the iterated bump' % (t0, t1, B.bump_of(spec), tried - 1))


# ----------------------------------------------------------------------------------------------------------- the rrule axiom
def axiom_sequence(freq, k, a, b):
    """th_rrule.RRule.sequence, natively"""
    unit = dict(DAILY=TD(days=1), WEEKLY=TD(days=7), HOURLY=TD(hours=1), MINUTELY=TD(minutes=1), SECONDLY=TD(seconds=1))[freq]
    a1 = a.replace(microsecond=0)
    out, x = [], a1
    while x <= b:
        out.append(x)
        x = x + k * unit
    return out


def validate_rrule_axiom(samples=1500, seed=0):
    from dateutil import rrule as RR
    rng = random.Random(seed)
    bad = []
    for _ in range(samples):
        freq = rng.choice(['DAILY', 'WEEKLY', 'HOURLY', 'MINUTELY', 'SECONDLY'])
        k = rng.choice([1, 1, 2, 3, 5, 7, 11, 30, 45, 90])
        a = D.fromordinal(rng.randrange(693596, 839000)) + TD(seconds=rng.randrange(86400), microseconds=rng.choice([0, 0, 1, 250000, 999999]))
        span = dict(DAILY=400, WEEKLY=3000, HOURLY=30, MINUTELY=2, SECONDLY=0.05)[freq] * rng.random() * k
        b = a + TD(days=span) + TD(microseconds=rng.choice([0, 0, 1, -1, 999999])) if rng.random() < 0.9 else a - TD(days=rng.random())
        got = list(RR.rrule(getattr(RR, freq), interval=k, dtstart=a, until=b))
        exp = axiom_sequence(freq, k, a, b)
        if got != exp:
            bad.append((freq, k, a, b, got[:3], exp[:3], len(got), len(exp)))
    return bad


if __name__ == '__main__':
    bad = validate_rrule_axiom()
    print('rrule axiom: %d disagreements' % len(bad))
    for x in bad[:5]:
        print(x)
