"""C01 bounded stand-in: stateful runs of the public dictable API against a list-of-records model.

The model is a column-name list plus a list of row dicts; every operation is re-stated on it from the property text (lengths are
reconciled by broadcasting scalars / length-1 lists, a length that does not fit is a ValueError, concatenation appends rows in
order and fills absent columns with None, ...).  After every step EVERY table produced so far in the history (the operands
included) is compared with its model: rectangular column store, len, shape, d[i][c] == d[c][i], iteration, tuple access, get."""
import datetime, itertools, random, re
from rac.common import Collector

DT = datetime.datetime(2020, 1, 1)
DT_ISO = DT.isoformat()
CELLS = [None, 1, 1.5, 'a', DT_ISO]
NAMES = ['a', 'b', 'c', 'd']

FN1 = {
    'str': (lambda v: str(v)),
    'isnone': (lambda v: v is None),
    'const': (lambda v: 7),
}


def dec(tok):
    if isinstance(tok, str) and re.match(r'^\d{4}-\d\d-\d\dT', tok):
        return datetime.datetime.fromisoformat(tok)
    if isinstance(tok, list):
        return [dec(t) for t in tok]
    if isinstance(tok, dict):
        return {k: dec(v) for k, v in tok.items()}
    return tok


def as_col(value):
    """what a column value stands for: a list is itself, anything else is a single cell"""
    return list(value) if isinstance(value, list) else [value]


# ---------------------------------------------------------------- the model
class M(object):
    def __init__(self, cols=(), rows=()):
        self.cols = list(cols)
        self.rows = [dict(r) for r in rows]

    def copy(self):
        return M(self.cols, self.rows)

    @property
    def n(self):
        return len(self.rows)

    def col(self, c):
        return [r[c] for r in self.rows]

    def with_columns(self, columns):
        """model of a column store {name: list}"""
        return M.from_columns(columns)

    @staticmethod
    def from_columns(columns):
        cols = {k: as_col(v) for k, v in columns.items()}
        lens = set(len(v) for v in cols.values()) - {1}
        if len(lens) > 1:
            raise ValueError('lengths %s' % lens)
        n = list(lens)[0] if lens else (1 if cols else 0)
        cols = {k: (v * n if len(v) == 1 else v) for k, v in cols.items()}
        return M(list(cols), [dict((k, cols[k][i]) for k in cols) for i in range(n)])

    @staticmethod
    def from_records(records):
        cols = []
        for r in records:
            for k in r:
                if k not in cols:
                    cols.append(k)
        return M(cols, [dict((k, r.get(k)) for k in cols) for r in records])

    def set(self, name, value):
        """column assignment in place; ValueError (and no change) when the length does not fit"""
        v = as_col(value)
        if not self.cols:
            self.cols = [name]
            self.rows = [{name: x} for x in v]
            return
        if len(v) != self.n:
            if len(v) == 1:
                v = v * self.n
            else:
                raise ValueError('misfit')
        if name not in self.cols:
            self.cols.append(name)
        for r, x in zip(self.rows, v):
            r[name] = x

    def drop(self, name):
        self.cols.remove(name)
        for r in self.rows:
            del r[name]
        if not self.cols:
            self.rows = []

    def select(self, idx):
        return M(self.cols, [self.rows[i] for i in idx])

    @staticmethod
    def concat(models):
        cols = []
        for m in models:
            for c in m.cols:
                if c not in cols:
                    cols.append(c)
        return M(cols, [dict((c, r.get(c)) for c in cols) for m in models for r in m.rows])


# ---------------------------------------------------------------- constructing real tables and their models
def construct(spec):
    """returns (real table, model) or raises what the constructor raises"""
    from pyg_base import dictable
    form = spec['form']
    if form == 'empty':
        return dictable(), M()
    if form == 'records':
        recs = dec(spec['records'])
        return dictable([dict(r) for r in recs]), M.from_records(recs)
    if form in ('columns', 'kw'):
        cols = dec(spec['columns'])
        real = dictable(dict(cols)) if form == 'columns' else dictable(**cols)
        return real, M.from_columns(cols)
    if form == 'rows':
        rows, header = dec(spec['rows']), spec['header']
        return dictable([list(r) for r in rows], list(header)), M(header, [dict(zip(header, r)) for r in rows])
    raise KeyError(form)


def model_of(spec):
    form = spec['form']
    if form == 'empty':
        return M()
    if form == 'records':
        return M.from_records(dec(spec['records']))
    if form in ('columns', 'kw'):
        return M.from_columns(dec(spec['columns']))
    return M(spec['header'], [dict(zip(spec['header'], r)) for r in dec(spec['rows'])])


# ---------------------------------------------------------------- comparing a real table with its model
def check_state(d, m):
    """list of discrepancies between the real table and the model (empty = agrees)"""
    from pyg_base import dictable
    out = []
    if not isinstance(d, dictable):
        return ['not a dictable: %r' % type(d)]
    store = dict(d)
    if not all(isinstance(v, list) for v in store.values()):
        return ['wf: a column is not a list: %r' % store]
    lens = set(len(v) for v in store.values())
    if len(lens) > 1:
        return ['wf: columns of different length: %r' % store]
    if set(store.keys()) != set(m.cols) or len(store) != len(m.cols):
        return ['columns %r, model has %r' % (list(store.keys()), m.cols)]
    if len(d) != m.n:
        out.append('len %r, model has %d rows' % (len(d), m.n))
    if tuple(d.shape) != (m.n, len(m.cols)):
        out.append('shape %r, model %r' % (d.shape, (m.n, len(m.cols))))
    rows = [dict(r) for r in d]
    if rows != m.rows:
        out.append('iteration yields %r, model rows %r' % (rows, m.rows))
    if out:
        return out
    for i in range(m.n):
        ri = d[i]
        if dict(ri) != m.rows[i]:
            out.append('d[%d] = %r, model row %r' % (i, dict(ri), m.rows[i]))
        rneg = d[i - m.n]
        if dict(rneg) != m.rows[i]:
            out.append('d[%d] = %r, model row %r' % (i - m.n, dict(rneg), m.rows[i]))
        for c in m.cols:
            if not (d[c][i] == ri[c] and d[c][i] is d[i][c]):
                out.append('d[%d][%r] = %r but d[%r][%d] = %r' % (i, c, ri[c], c, i, d[c][i]))
    for c in m.cols:
        if d[c] != m.col(c) or d.get(c) != m.col(c):
            out.append('column %r = %r, model %r' % (c, d[c], m.col(c)))
    if len(m.cols) >= 2:
        pair = tuple(m.cols[:2])
        if d[pair] != [tuple(r[c] for c in pair) for r in m.rows]:
            out.append('d[%r] = %r' % (pair, d[pair]))
    if d.get('~absent~', 7) != [7] * m.n:
        out.append('get(absent, 7) = %r' % d.get('~absent~', 7))
    if sorted(d.keys()) != sorted(m.cols) or sorted(d.columns) != sorted(m.cols):
        out.append('keys() = %r' % d.keys())
    return out


# ---------------------------------------------------------------- operations: model side
class Expect(Exception):
    """the model says this operation must be rejected with ValueError"""


def derive_fn(src, name):
    if name == 'tag':
        return eval('lambda %s: "%%s!" %% (%s,)' % (src, src))         # noqa
    if name == 'isnone':
        return eval('lambda %s: %s is None' % (src, src))              # noqa
    raise KeyError(name)


def derive_val(v, name):
    return '%s!' % (v,) if name == 'tag' else (v is None)


def do2_fn(other):
    return eval('lambda v, %s: "%%s|%%s" %% (v, %s)' % (other, other))  # noqa


GROUP = dict(set='setitem', update='setitem', call='call', derive='call', sub='delete', slice='getitem', mask='getitem', take='getitem', project='getitem',
             relabel='relabel', do='do', add='concat', filter='filter', sort='sort', copy='copy', rebuild='construct')
GROUP['del'] = 'delete'
INPLACE = ('set', 'del', 'update')


def model_step(op, m, others):
    """returns the new model (new-table operations) or mutates m (in-place operations, returns None); raises Expect for a demanded ValueError.
    `others` are the models of the other operand tables of a concatenation."""
    k = op['op']
    if k == 'set':
        try:
            m.set(op['name'], dec(op['value']))
        except ValueError:
            raise Expect()
        return None
    if k == 'del':
        m.drop(op['name'])
        return None
    if k == 'update':
        for name, value in op['values']:
            try:
                m.set(name, dec(value))          # the pairs before the misfit are assigned, the table stays rectangular
            except ValueError:
                raise Expect()
        return None
    if k == 'call':
        r = m.copy()
        for name, value in op['values'].items():
            try:
                r.set(name, dec(value))
            except ValueError:
                raise Expect()
        return r
    if k == 'derive':
        r = m.copy()
        for name, src, fn in op['specs']:
            r.set(name, [derive_val(v, fn) for v in r.col(src)])
        return r
    if k == 'sub':
        r = m.copy()
        for name in (op['names'] if isinstance(op['names'], list) else [op['names']]):
            if name in r.cols:
                r.drop(name)
        return r
    if k == 'slice':
        return m.select(list(range(m.n))[slice(op['start'], op['stop'], op['step'])])
    if k == 'mask':
        return m.select([i for i, t in enumerate(op['mask']) if t])
    if k == 'take':
        return m.select([i if i >= 0 else m.n + i for i in op['idx']])
    if k == 'project':
        return M(op['names'], [dict((c, r[c]) for c in op['names']) for r in m.rows])
    if k == 'relabel':
        mp = op['map']
        return M([mp.get(c, c) for c in m.cols], [dict((mp.get(c, c), v) for c, v in r.items()) for r in m.rows])
    if k == 'do':
        r = m.copy()
        cols = op['cols'] if op['cols'] is not None else list(r.cols)
        for c in cols:
            for fn in op['fns']:
                if fn == 'with_other':
                    new = ['%s|%s' % (row[c], row[op['other']]) for row in r.rows]
                else:
                    new = [FN1[fn](row[c]) for row in r.rows]
                for row, v in zip(r.rows, new):
                    row[c] = v
        return r
    if k == 'add':
        if op['how'] == 'none':
            return m                      # d + None / d + 0 is d
        seq = [m] + list(others)           # d + t, d + record(s), sum([t1, t2], d), concat(d, t1, t2)
        if op['how'] == 'radd':           # t + d
            seq = [others[0], m]
        return M.concat(seq)
    if k == 'filter':
        v = dec(op['value'])
        hit = [(r[op['name']] is None) if v is None else (r[op['name']] == v) for r in m.rows]
        return m.select([i for i, h in enumerate(hit) if h == (op['how'] == 'inc')])
    if k == 'sort':
        return m.copy()                   # shape level: a permutation of the rows, checked separately
    if k == 'copy':
        return m.copy()
    if k == 'rebuild':
        if op['how'] == 'records':
            return M.from_records(m.rows)
        return m.copy()
    raise KeyError(k)


# ---------------------------------------------------------------- operations: real side
def real_step(op, d, others):
    from pyg_base import dictable
    k = op['op']
    if k == 'set':
        if op['how'] == 'attr':
            setattr(d, op['name'], dec(op['value']))
        else:
            d[op['name']] = dec(op['value'])
        return None
    if k == 'del':
        if op['how'] == 'attr':
            delattr(d, op['name'])
        else:
            del d[op['name']]
        return None
    if k == 'update':
        d.update(dict((n, dec(v)) for n, v in op['values']))
        return None
    if k == 'call':
        return d(**dec(op['values']))
    if k == 'derive':
        return d(**dict((name, derive_fn(src, fn)) for name, src, fn in op['specs']))
    if k == 'sub':
        return d - op['names']
    if k == 'slice':
        return d[slice(op['start'], op['stop'], op['step'])]
    if k == 'mask':
        return d[[bool(t) for t in op['mask']]]
    if k == 'take':
        return d[list(op['idx'])]
    if k == 'project':
        return d[list(op['names'])]
    if k == 'relabel':
        how, mp = op['how'], op['map']
        if how == 'kw':
            return d.relabel(**mp)
        if how == 'rename':
            return d.rename(**mp)
        if how == 'dict':
            return d.relabel(dict(mp))
        if how == 'fn':
            return d.relabel(lambda key: key + '_f')
        if how == 'prefix':
            return d.relabel('p_')
        return d.relabel('_s')
    if k == 'do':
        fns = [do2_fn(op['other']) if f == 'with_other' else FN1[f] for f in op['fns']]
        f = fns[0] if len(fns) == 1 else fns
        if op['cols'] is None:
            return d.do(f)
        if op.get('spell') == 'list':
            return d.do(f, list(op['cols']))
        return d.do(f, *op['cols'])
    if k == 'add':
        how = op['how']
        if how == 'none':
            return d + op.get('zero')
        if how == 'add':
            return d + others[0]
        if how == 'radd':
            return others[0] + d
        if how == 'record':
            return d + dict(dec(op['record']))
        if how == 'records':
            return d + [dict(r) for r in dec(op['records'])]
        if how == 'sum':
            return sum(list(others), d)
        if how == 'concat':
            return dictable.concat(d, *others)
        if how == 'concat_list':
            return dictable.concat([d] + list(others))
    if k == 'filter':
        return getattr(d, op['how'])(**{op['name']: dec(op['value'])})
    if k == 'sort':
        return d.sort(op['name'])
    if k == 'copy':
        return d.copy()
    if k == 'rebuild':
        if op['how'] == 'records':
            return dictable(list(d))
        if op['how'] == 'columns':
            return dictable(dict(d))
        return dictable(list(d.values()) and [list(r) for r in zip(*d.values())], list(d.keys()))
    raise KeyError(k)


# ---------------------------------------------------------------- choosing an operation for the current state
OP_KINDS = ['set_fit', 'set_scalar', 'set_len1', 'set_misfit', 'set_attr', 'set_existing', 'del_item', 'del_attr', 'update', 'update_misfit',
            'call_const', 'call_list', 'call_misfit', 'derive', 'derive2', 'sub', 'sub_list', 'sub_absent', 'slice', 'slice_step', 'mask', 'mask_none',
            'take', 'take_empty', 'project', 'relabel_kw', 'relabel_fn', 'relabel_prefix', 'relabel_suffix', 'rename', 'relabel_dict', 'relabel_swap', 'relabel_chain', 'do_all', 'do_cols', 'do_list', 'do_other', 'do_other_chain',
            'add_table', 'add_disjoint', 'add_empty', 'add_norows', 'radd_table', 'add_record', 'add_records', 'add_none', 'sum', 'concat', 'concat_list',
            'inc', 'exc', 'sort', 'copy', 'rebuild_records', 'rebuild_columns', 'rebuild_rows']


def cells(rng, n):
    return [rng.choice(CELLS) for _ in range(n)]


def fresh(m, rng):
    free = [c for c in NAMES + ['e', 'f'] if c not in m.cols]
    if free:
        return rng.choice(free)
    k = len(m.cols)
    while 'g%d' % k in m.cols:
        k += 1
    return 'g%d' % k


def misfit_len(m, rng):
    return rng.choice([k for k in (0, 2, 3, 4) if k != m.n and k != 1])


def gen_table(rng, cols=None, nmax=3, forms=('columns', 'kw', 'rows', 'records')):
    cols = cols if cols is not None else rng.sample(NAMES, rng.choice([1, 2, 2, 3]))
    n = rng.choice(range(nmax + 1))
    form = rng.choice(forms)
    if form == 'records' and n == 0:
        form = 'rows'
    data = {c: cells(rng, n) for c in cols}
    if form == 'records':
        return dict(form='records', records=[dict((c, data[c][i]) for c in cols) for i in range(n)])
    if form == 'rows':
        return dict(form='rows', rows=[[data[c][i] for c in cols] for i in range(n)], header=list(cols))
    return dict(form=form, columns=data)


def make_op(kind, m, rng):
    """an operation descriptor of that kind fitting the model state, plus the specs of extra operand tables; None when not applicable"""
    has, n = bool(m.cols), m.n
    col = rng.choice(m.cols) if has else None
    if kind == 'set_fit':
        return dict(op='set', how='item', name=fresh(m, rng), value=cells(rng, n if has else rng.choice([0, 1, 2, 3]))), []
    if kind == 'set_scalar':
        return dict(op='set', how='item', name=fresh(m, rng), value=rng.choice(CELLS)), []
    if kind == 'set_len1':
        return dict(op='set', how='item', name=fresh(m, rng), value=cells(rng, 1)), []
    if kind == 'set_misfit':
        if not has:
            return None
        return dict(op='set', how=rng.choice(['item', 'attr']), name=rng.choice([fresh(m, rng), col]), value=cells(rng, misfit_len(m, rng))), []
    if kind == 'set_attr':
        return dict(op='set', how='attr', name=fresh(m, rng), value=rng.choice([cells(rng, n) if has else cells(rng, 2), rng.choice(CELLS)])), []
    if kind == 'set_existing':
        if not has:
            return None
        return dict(op='set', how='item', name=col, value=rng.choice([cells(rng, n), rng.choice(CELLS)])), []
    if kind in ('del_item', 'del_attr'):
        if not has:
            return None
        return dict(op='del', how='item' if kind == 'del_item' else 'attr', name=col), []
    if kind == 'update':
        return dict(op='update', values=[[fresh(m, rng), rng.choice(CELLS)]] + ([[col, cells(rng, n)]] if has else [])), []
    if kind == 'update_misfit':
        if not has:
            return None
        return dict(op='update', values=[[fresh(m, rng), rng.choice(CELLS)], [col, cells(rng, misfit_len(m, rng))]]), []
    if kind == 'call_const':
        return dict(op='call', values={fresh(m, rng): rng.choice(CELLS)}), []
    if kind == 'call_list':
        vals = {fresh(m, rng): cells(rng, n if has else 2)}
        if has:
            vals[col] = cells(rng, n)
        return dict(op='call', values=vals), []
    if kind == 'call_misfit':
        if not has:
            return None
        return dict(op='call', values={fresh(m, rng): cells(rng, misfit_len(m, rng))}), []
    if kind == 'derive':
        if not has:
            return None
        return dict(op='derive', specs=[[fresh(m, rng), col, rng.choice(['tag', 'isnone'])]]), []
    if kind == 'derive2':
        if not has:
            return None
        n1 = fresh(m, rng)
        n2 = [c for c in ['e', 'f', 'h', 'i'] + ['h%d' % k for k in range(len(m.cols) + 2)] if c not in m.cols and c != n1][0]
        return dict(op='derive', specs=[[n1, col, 'tag'], [n2, n1, 'isnone']]), []      # the second depends on the first
    if kind == 'sub':
        if not has:
            return None
        return dict(op='sub', names=col), []
    if kind == 'sub_list':
        if not has:
            return None
        return dict(op='sub', names=rng.sample(m.cols, rng.choice(range(1, len(m.cols) + 1)))), []
    if kind == 'sub_absent':
        return dict(op='sub', names='zz'), []
    if kind == 'slice':
        return dict(op='slice', start=rng.choice([None, 0, 1, -1, 2]), stop=rng.choice([None, 0, 1, 2, -1, 5]), step=None), []
    if kind == 'slice_step':
        return dict(op='slice', start=rng.choice([None, 0, 1, -1]), stop=rng.choice([None, 0, 3]), step=rng.choice([-1, 2, -2])), []
    if kind == 'mask':
        if not has or n == 0:
            return None
        return dict(op='mask', mask=[rng.random() < .5 for _ in range(n)]), []
    if kind == 'mask_none':
        if not has or n == 0:
            return None
        return dict(op='mask', mask=[False] * n), []
    if kind == 'take':
        if not has or n == 0:
            return None
        return dict(op='take', idx=[rng.randrange(-n, n) for _ in range(rng.choice([1, 2, 4]))]), []
    if kind == 'take_empty':
        return dict(op='take', idx=[]), []
    if kind == 'project':
        if not has:
            return None
        return dict(op='project', names=rng.sample(m.cols, rng.choice(range(1, len(m.cols) + 1)))), []
    if kind in ('relabel_kw', 'rename', 'relabel_dict'):
        if not has:
            return None
        return dict(op='relabel', how={'relabel_kw': 'kw', 'rename': 'rename', 'relabel_dict': 'dict'}[kind], map={col: fresh(m, rng)}), []
    if kind in ('relabel_swap', 'relabel_chain'):       # renames are simultaneous: two columns swap their names; a -> b while b -> a fresh name
        if len(m.cols) < 2:
            return None
        c1, c2 = rng.sample(m.cols, 2)
        mp = {c1: c2, c2: c1} if kind == 'relabel_swap' else {c1: c2, c2: fresh(m, rng)}
        return dict(op='relabel', how=rng.choice(['kw', 'rename', 'dict']), map=mp), []
    if kind == 'relabel_fn':
        return dict(op='relabel', how='fn', map=dict((c, c + '_f') for c in m.cols)), []
    if kind == 'relabel_prefix':
        return dict(op='relabel', how='prefix', map=dict((c, 'p_' + c) for c in m.cols)), []
    if kind == 'relabel_suffix':
        return dict(op='relabel', how='suffix', map=dict((c, c + '_s') for c in m.cols)), []
    if kind == 'do_all':
        return dict(op='do', fns=[rng.choice(list(FN1))], cols=None), []
    if kind == 'do_cols':
        if not has:
            return None
        return dict(op='do', fns=[rng.choice(list(FN1))], cols=rng.sample(m.cols, rng.choice(range(1, len(m.cols) + 1))), spell=rng.choice(['args', 'list'])), []
    if kind == 'do_list':
        if not has:
            return None
        return dict(op='do', fns=['isnone', 'str'], cols=[col], spell='args'), []
    if kind == 'do_other':
        if len(m.cols) < 2:
            return None
        c1, c2 = rng.sample(m.cols, 2)
        return dict(op='do', fns=['with_other'], cols=[c1], other=c2, spell='args'), []
    if kind == 'do_other_chain':          # the column handed over as the extra argument is itself transformed earlier in the same call: the later column sees its new cells
        if len(m.cols) < 2:
            return None
        c1, c2 = rng.sample(m.cols, 2)
        return dict(op='do', fns=['with_other'], cols=[c2, c1], other=c2, spell=rng.choice(['args', 'list'])), []
    if kind == 'add_table':
        return dict(op='add', how='add'), [gen_table(rng, cols=rng.choice([list(m.cols) or ['a'], rng.sample(NAMES, 2)]))]
    if kind == 'add_disjoint':
        return dict(op='add', how='add'), [gen_table(rng, cols=['x', 'y'][:rng.choice([1, 2])])]
    if kind == 'add_empty':
        return dict(op='add', how=rng.choice(['add', 'radd'])), [dict(form='empty')]
    if kind == 'add_norows':
        return dict(op='add', how=rng.choice(['add', 'radd'])), [dict(form='rows', rows=[], header=rng.sample(NAMES, 2))]
    if kind == 'radd_table':
        return dict(op='add', how='radd'), [gen_table(rng)]
    if kind == 'add_record':
        names = rng.sample(NAMES, rng.choice([1, 2]))
        rec = dict((c, rng.choice(CELLS)) for c in names)
        return dict(op='add', how='record', record=rec), [dict(form='records', records=[rec], virtual=True)]
    if kind == 'add_records':
        recs = [dict((c, rng.choice(CELLS)) for c in rng.sample(NAMES, rng.choice([1, 2]))) for _ in range(2)]
        return dict(op='add', how='records', records=recs), [dict(form='records', records=recs, virtual=True)]
    if kind == 'add_none':
        return dict(op='add', how='none', zero=rng.choice([None, 0])), []
    if kind == 'sum':
        return dict(op='add', how='sum'), [gen_table(rng), gen_table(rng)]
    if kind == 'concat':
        return dict(op='add', how='concat'), [gen_table(rng), gen_table(rng, cols=list(m.cols) or None)]
    if kind == 'concat_list':
        return dict(op='add', how='concat_list'), [gen_table(rng)]
    if kind in ('inc', 'exc'):
        if not has:
            return None
        return dict(op='filter', how=kind, name=col, value=rng.choice(CELLS + (m.col(col)[:1]))), []
    if kind == 'sort':
        if not has:
            return None
        return dict(op='sort', name=col), []
    if kind == 'copy':
        return dict(op='copy'), []
    if kind == 'rebuild_records':
        return dict(op='rebuild', how='records'), []
    if kind == 'rebuild_columns':
        return dict(op='rebuild', how='columns'), []
    if kind == 'rebuild_rows':
        if not has:
            return None
        return dict(op='rebuild', how='rows'), []
    raise KeyError(kind)


# ---------------------------------------------------------------- running one history
def run_history(start, ops=None, kinds=None, rng=None):
    """executes a history on the real code and on the model.  Either `ops` (replay: concrete descriptors with their operand specs) or `kinds`
    (generation: operation kinds instantiated against the current model with rng).  Returns (fails, concrete ops)."""
    fails, done = [], []
    try:
        model = model_of(start)
        expect_err = False
    except ValueError:
        model, expect_err = None, True
    try:
        d, _ = construct(start)
    except ValueError as e:
        if not expect_err:
            fails.append(('C01:raises:construct', 'constructor raised ValueError: %s' % e))
        return fails, done
    except Exception as e:      # noqa
        fails.append(('C01:raises:construct', 'constructor raised %s: %s' % (type(e).__name__, e)))
        return fails, done
    if expect_err:
        fails.append(('C01:valueerror-expected:construct', 'columns of two different lengths were accepted: %r' % dict(d)))
        return fails, done
    entries = [[d, model]]          # every table of the history with its model; the current table is entries[cur]
    bad = check_state(d, model)
    if bad:
        fails.append(('C01:model:construct', bad[0]))
        return fails, done
    cur = 0
    steps = ops if ops is not None else kinds
    for item in steps:
        d, model = entries[cur]
        if ops is not None:
            op, other_specs = item['op'], item['others']
        else:
            made = make_op(item, model, rng)
            if made is None:
                continue
            op, other_specs = made
        done.append(dict(op=op, others=other_specs))
        grp = GROUP[op['op']]
        others, omodels = [], []
        for s in other_specs:
            om = model_of(s)
            omodels.append(om)
            if not s.get('virtual'):
                o, _ = construct(s)
                others.append(o)
                entries.append([o, om])
        # the model first
        snapshot_model = model.copy()
        try:
            new_model = model_step(op, model, omodels)
            expect = 'ok'
        except Expect:
            new_model, expect = None, 'ValueError'
        msg = ''
        try:
            res = real_step(op, d, others)
            outcome = 'ok'
        except ValueError as e:
            res, outcome, msg = None, 'ValueError', str(e)
        except Exception as e:      # noqa
            res, outcome, msg = None, 'other', '%s: %s' % (type(e).__name__, e)
        if outcome != expect:
            if expect == 'ValueError':
                fails.append(('C01:valueerror-expected:%s' % grp, 'a length that does not fit was accepted by %r' % (op,)))
            else:
                fails.append(('C01:raises:%s' % grp, '%r raised %s' % (op, msg)))
            break
        if expect == 'ValueError' and op['op'] in INPLACE:
            # the property demands only that the table is still rectangular: the model follows the real table if it is
            store = dict(d)
            if all(isinstance(v, list) for v in store.values()) and len(set(len(v) for v in store.values())) <= 1:
                cols = list(store)
                model.cols, model.rows = cols, [dict(zip(cols, r)) for r in zip(*store.values())]
            else:
                fails.append(('C01:rectangular-after-rejection:%s' % grp, 'after the rejected %r the column store is %r' % (op, store)))
                break
        if expect == 'ok' and op['op'] not in INPLACE:
            if op['op'] == 'sort':
                # shape level: same columns, a permutation of the rows; the model adopts the order
                if isinstance(res, dict) and set(res.keys()) == set(model.cols):
                    got = [dict(r) for r in res]
                    rest = list(model.rows)
                    ok = len(got) == len(rest)
                    for r in got:
                        if r in rest:
                            rest.remove(r)
                        else:
                            ok = False
                    if ok:
                        new_model = M(model.cols, got)
            hit = [e for e in entries if e[0] is res]
            if hit:                      # the operation handed back one of the existing tables (d + None): same object, same model
                if hit[0][1] is not new_model:
                    bad = check_state(res, new_model)
                    if bad:
                        fails.append(('C01:model:%s' % grp, '%r gave %s' % (op, bad[0])))
                        break
                cur = entries.index(hit[0])
            else:
                bad = check_state(res, new_model)
                if bad:
                    fails.append(('C01:model:%s' % grp, '%r gave %s' % (op, bad[0])))
                    break
                entries.append([res, new_model])
                cur = len(entries) - 1
        # re-inspect every table of the history: the current one against its (updated) model, all the others must be unchanged
        stop = False
        for i, (obj, mod) in enumerate(entries):
            bad = check_state(obj, mod)
            if bad:
                key = 'C01:model:%s' % grp if (op['op'] in INPLACE and obj is d) else 'C01:operands-unchanged:%s' % grp
                fails.append((key, 'after %r table #%d: %s' % (op, i, bad[0])))
                stop = True
                break
        if stop:
            break
    return fails, done


# ---------------------------------------------------------------- enumeration
def fixed_starts():
    out = [dict(form='empty'),
           dict(form='rows', rows=[], header=['a']),
           dict(form='rows', rows=[], header=['a', 'b']),
           dict(form='kw', columns=dict(a=[])),
           dict(form='kw', columns=dict(a=[], b=1)),
           dict(form='columns', columns=dict(a=[], b=[]))]
    for v in CELLS:
        out.append(dict(form='kw', columns=dict(a=v)))
        out.append(dict(form='columns', columns=dict(a=[v], b=[1, 'a', None])))
    out += [dict(form='kw', columns=dict(a=[1, 1.5, 'a'], b='a', c=[DT_ISO])),
            dict(form='kw', columns=dict(a=[1, None], b=[None, None])),
            dict(form='records', records=[dict(a=1, b=None)]),
            dict(form='records', records=[dict(a=1, b='a'), dict(a=1.5, c=DT_ISO)]),
            dict(form='records', records=[dict(a=1), dict(b=1), dict(c=None)]),
            dict(form='records', records=[dict(b=1, a=2), dict(a=3, b=4), dict(a=None, b='a')]),
            dict(form='rows', rows=[[1, 'a']], header=['a', 'b']),
            dict(form='rows', rows=[[1], [None]], header=['a']),
            dict(form='rows', rows=[[1, 'a'], [1.5, None]], header=['a', 'b']),
            dict(form='rows', rows=[['a', 'a', 'a'], [None, 1, DT_ISO], [1.5, 1.5, None]], header=['c', 'a', 'b']),
            dict(form='rows', rows=[['a', 'a']] * 3, header=['a', 'b']),
            dict(form='kw', columns=dict(a=[1, 1.5], b=[1, 1.5, 'a'])),            # two lengths: ValueError demanded
            dict(form='columns', columns=dict(a=[], b=[1, 2]))]                    # 0 and 2: ValueError demanded
    return out


def run(tier, seed):
    rng = random.Random(seed)
    quick = tier == 'quick'
    n_rand_starts = 12 if quick else 40
    n_pairs = 4000 if quick else None          # None: all ordered pairs of operation kinds on every start
    n_long = 1500 if quick else 20000
    c = Collector('C01', rule='histories = a start table (%d fixed: empty, columns without rows, every cell kind, scalar / length-1 broadcast, ragged records, rows+header, two rejected '
                  'constructions; plus %d seeded tables <= 3 rows x <= 3 columns over {None, 1, 1.5, "a", datetime} in all four construction forms) followed by operations drawn from %d '
                  'operation kinds (column assignment fit/scalar/len-1/misfit by item and attribute, update, deletion by del/delattr/-, d(...) constants/lists/derived/dependent derived, '
                  'slices, masks, integer lists, [], projection, relabel x6, do x4, + / radd / sum / concat with tables, records, empty and row-less tables, None, inc, exc, sort, copy, '
                  'rebuild from records / columns / rows). (1) every start x every kind (length 1); (2) %s ordered pairs of kinds per start (length 2); (3) %d seeded histories of length 3-8. '
                  'Parameters are instantiated against the current state with the seed. After each step every table of the history is compared with its list-of-records model. '
                  'A history is non-trivial when at least one operation was applicable; distinct by (start, concrete operations).'
                  % (len(fixed_starts()), n_rand_starts, len(OP_KINDS), 'ALL' if n_pairs is None else '%d sampled' % n_pairs, n_long),
                  exhaustive=False, scope='tables <= 3 rows x <= 3 columns at the start (grow by concatenation), 5 cell values, histories of length <= 8 over %d operation kinds' % len(OP_KINDS))
    starts = fixed_starts() + [gen_table(rng) for _ in range(n_rand_starts)]

    def go(start, kinds):
        try:
            fails, done = run_history(start, kinds=kinds, rng=rng)
        except Exception as e:      # noqa
            fails, done = [('C01:harness', 'history crashed %s: %s' % (type(e).__name__, e))], [dict(op=dict(op='?', kinds=kinds), others=[])]
        call = dict(start=start, ops=done)
        c.case((repr(start), repr(done)), nontrivial=len(done) > 0, sample=dict(start=start, ops=[o['op'] for o in done]))
        for key, what in fails:
            c.check(False, key, '%s | start=%r ops=%r' % (what, start, [o['op'] for o in done]), call)

    for s in starts:
        go(s, [])
        for k in OP_KINDS:
            go(s, [k])
    pairs = list(itertools.product(OP_KINDS, repeat=2))
    if n_pairs is None:
        for s in starts:
            for p in pairs:
                go(s, list(p))
    else:
        for _ in range(n_pairs):
            go(rng.choice(starts), list(rng.choice(pairs)))
    for _ in range(n_long):
        go(rng.choice(starts), [rng.choice(OP_KINDS) for _ in range(rng.choice([3, 3, 4, 5, 8]))])
    return c.result()


def replay(call):
    fails, _ = run_history(call['start'], ops=call.get('ops') or [])
    return dict(fails=bool(fails), detail='; '.join('%s: %s' % f for f in fails)[:800] if fails else 'all clauses hold on the real code for this history')
