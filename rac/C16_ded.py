"""Replay of solver counterexamples for the C16 obligations on the real code (runs under /venv/bin/python).

A model of a failed obligation speaks about abstract elements / keys (uninterpreted sort).  It is concretised as follows:
  ulist      the model fixes len(u), len(xs) <= 3 and the cells u[i], xs[i] (names of abstract values): the very lists are rebuilt
             with one distinct python object per abstract value, for ulist and for a subclass.
  dictattr   the model fixes which of the witness keys K0, K1 (and the operand key k) are in d / in the selection and their order;
             the mapping over those keys plus one filler key is rebuilt (both filler positions), for the class and a subclass of it.
  Dict.__call__  the model fixes which of K0, D0 are callable keywords and who names whom; the keyword set is rebuilt with these
             two keys plus an optional third callable, in every keyword order.
Every rebuilt input is run through the real operation and compared with a plain-python oracle written from the property
statement.  `fails` is True only if the real code disagrees with the oracle on such an input."""
import itertools, copy


def _dedup(xs):
    out = []
    for x in xs:
        if not any(x == y for y in out):
            out.append(x)
    return out


# ----------------------------------------------------------------------------------------------- ulist
def replay_ulist(call):
    from pyg_base import ulist

    class MyU(ulist):
        pass
    op, argkind = call['extra'][0], call['extra'][1]
    nu, nx = int(call.get('len_u') or 0), int(call.get('len_xs') or 0)
    if not (0 <= nu <= 3 and 0 <= nx <= 3):
        return dict(fails=False, detail='model lists longer than the replay window (len_u=%s, len_xs=%s)' % (nu, nx))
    u = [str(call.get('u%d' % i)) for i in range(nu)]
    xs = [str(call.get('xs%d' % i)) for i in range(nx)]
    if len(set(u)) != len(u):
        return dict(fails=False, detail='model receiver %r has duplicates (precondition: a ulist)' % (u,))
    bad = []
    for cls in (MyU, ulist):
        recv = cls(list(u))
        if argkind == 'element':
            operand = xs[0] if xs else 'absent'
            ol = [operand]
        else:
            operand, ol = list(xs), list(xs)
        before = copy.deepcopy(operand)
        f = {'add': lambda a, b: a + b, 'or': lambda a, b: a | b, 'sub': lambda a, b: a - b, 'and': lambda a, b: a & b}[op]
        try:
            r = f(recv, operand)
        except Exception as e:      # noqa
            bad.append('%s(%r) %s %r raised %r' % (cls.__name__, u, op, operand, e))
            continue
        exp = {'add': _dedup(u + ol), 'or': _dedup(u + ol), 'sub': [x for x in u if x not in ol], 'and': [x for x in u if x in ol]}[op]
        if list(r) != exp or type(r) is not cls or len(set(r)) != len(r):
            bad.append('%s(%r) %s %r = %s(%r), expected %s(%r)' % (cls.__name__, u, op, operand, type(r).__name__, list(r), cls.__name__, exp))
        if list(recv) != u or operand != before:
            bad.append('%s(%r) %s %r changed an operand: %r, %r' % (cls.__name__, u, op, before, list(recv), operand))
    return dict(fails=bool(bad), detail='; '.join(bad[:3]) or 'ulist(%r) %s %r agrees with the ordered-set oracle' % (u, op, xs))


def replay_ulist_init(call):
    """ulist.__init__: the model fixes len(xs) <= 3 and the cells xs[i]; the list is rebuilt (one python object per abstract value, plus every list of
    length <= 3 over two symbols) and handed to ulist / a subclass with and without unique = True: DEDUP oracle, items kept, argument unchanged"""
    from pyg_base import ulist

    class MyU(ulist):
        pass
    variant = call['extra'][0]
    nx = int(call.get('len_xs') or 0)
    cands = [[str(call.get('xs%d' % i)) for i in range(nx)]] if 0 <= nx <= 3 else []
    cands += [list(t) for n in range(4) for t in itertools.product('pq', repeat=n)]
    bad = []
    for xs in cands:
        for cls in (ulist, MyU):
            arg = list(xs)
            try:
                if variant.endswith('no_argument'):
                    r, exp = (cls(unique=True) if variant.startswith('unique') else cls()), []
                elif variant.startswith('unique'):
                    r, exp = cls(arg, unique=True), list(xs)
                else:
                    r, exp = cls(arg), _dedup(xs)
            except Exception as e:      # noqa
                bad.append('%s(%r) [%s] raised %r' % (cls.__name__, xs, variant, e))
                continue
            if list(r) != exp or type(r) is not cls:
                bad.append('%s(%r) [%s] = %s(%r), expected %r' % (cls.__name__, xs, variant, type(r).__name__, list(r), exp))
            if arg != xs:
                bad.append('%s(%r) [%s] changed its argument to %r' % (cls.__name__, xs, variant, arg))
    return dict(fails=bool(bad), detail='; '.join(bad[:3]) or 'ulist constructor [%s] agrees with the oracle on %d lists' % (variant, len(cands)))


# ----------------------------------------------------------------------------------------------- dictattr
def _classes(name):
    from pyg_base import dictattr, Dict
    base = dict(dictattr=dictattr, Dict=Dict)[name]
    sub = type('My' + name, (base,), {})
    return [base, sub]


def _same(r, exp, cls):
    return type(r) is cls and dict.__eq__(r, exp) and list(dict.keys(r)) == list(exp.keys())


_UP = lambda k: 'F(%s)' % k      # noqa


def _relabel_args(variant, keys):
    """positional arguments of one call shape of relabel and the label they give a key that is not explicitly relabelled (oracle from the docstring)"""
    if variant == 'suffix':
        return ('_s',), (lambda k: k + '_s')
    if variant == 'prefix':
        return ('p_',), (lambda k: 'p_' + k)
    if variant == 'other_string':
        return ('plain',), (lambda k: k)
    if variant == 'callable':
        return (_UP,), _UP
    if variant == 'dict':
        m = {'K1': 'A1', 'zz': 'unused'}
        return (m,), (lambda k: m.get(k, k))
    if variant == 'names':
        names = tuple('N%d' % j for j in range(2))
        return names, ((lambda k: names[keys.index(k)]) if len(keys) == 2 else (lambda k: k))
    return (), (lambda k: k)


def replay_relabel(call):
    """the module-level relabel(keys, *args, **relabels): key lists over K0, K1 and a filler in every order, explicit relabels for some of them"""
    from pyg_base import relabel
    variant = call['extra'][0]
    bad, tried = [], 0
    for n in range(0, 4):
        for keys in itertools.permutations(['K0', 'K1', 'f'], n):
            keys = list(keys)
            for sel in ({}, {'K0': 'R0'}, {'K0': 'R0', 'zz': 'never'}, {'f': 'K9', 'K1': 'R1'}):
                pos, base = _relabel_args(variant, keys)
                pos_before = copy.deepcopy([p for p in pos if not callable(p)])
                tried += 1
                try:
                    r = relabel(list(keys), *pos, **sel)
                except Exception as e:      # noqa
                    bad.append('relabel(%r, *%r, **%r) raised %r' % (keys, pos, sel, e))
                    continue
                built = {k: base(k) for k in keys if base(k) != k or variant in ('suffix', 'prefix', 'callable') or (variant == 'names' and len(keys) == 2)}
                if variant == 'dict':
                    built = dict(pos[0])
                exp = {**built, **sel}
                if type(r) is not dict or r != exp or list(r) != list(exp):
                    bad.append('relabel(%r, *%r, **%r) = %r, expected %r' % (keys, pos, sel, r, exp))
                if [p for p in pos if not callable(p)] != pos_before:
                    bad.append('relabel(%r, *%r, **%r) changed a positional argument' % (keys, pos, sel))
    return dict(fails=bool(bad), detail='; '.join(bad[:3]) or 'relabel [%s]: %d rebuilt calls agree with the oracle' % (variant, tried))


def replay_dictattr(call):
    clsname, op = call['extra'][0], call['extra'][1]
    tri = lambda v: [True, False] if v is None else [bool(v)]   # noqa
    bad = []
    tried = 0
    for k0_in, k1_in, k0_first, filler_pos in itertools.product(tri(call.get('K0_in_d')), tri(call.get('K1_in_d')), tri(call.get('K0_before_K1')), (0, 1, 2, None)):
        keys = (['K0'] if k0_in else []) + (['K1'] if k1_in else [])
        if not k0_first:
            keys = keys[::-1]
        if filler_pos is not None:
            keys.insert(min(filler_pos, len(keys)), 'f')
        vals = {k: 'v' + k for k in keys}
        sels = []
        if op.endswith('.key'):
            sels = ['K0', 'K1', 'f', 'absent']
        elif op.startswith('add') or op.startswith('or.'):
            sels = [dict(o) for o in ({}, {'K0': 'o0'}, {'n': 'on', 'K1': 'o1'}, {'n': 'on', 'm': 'om', 'K0': 'o0'}, {'m': 'om', 'n': 'on'})]
        elif op.startswith('relabel'):
            sels = [{}, {'K0': 'R0'}, {'K0': 'R0', 'K1': 'R1', 'zz': 'never'}, {'f': 'K9'}]
        else:
            pool = ['K0', 'K1', 'f', 'absent']
            sels = [list(c) for n in range(0, 4) for c in itertools.permutations(pool, n)] + [['K0', 'K0'], ['K1', 'K0', 'K1']]
        for cls in _classes(clsname):
            for sel in sels:
                tried += 1
                d = cls(dict(vals))
                msg = None
                try:
                    if op.startswith('sub'):
                        r = d - sel
                        sl = sel if isinstance(sel, list) else [sel]
                        exp = {k: vals[k] for k in keys if k not in sl}
                        if not _same(r, exp, cls) or list(r.keys()) != list(d.keys() - sel) or r is d:
                            msg = 'd - %r = %s(%r), expected %r' % (sel, type(r).__name__, dict(r), exp)
                    elif op.startswith('and'):
                        r = d & sel
                        sl = sel if isinstance(sel, list) else [sel]
                        exp = {k: vals[k] for k in keys if k in sl}
                        if not _same(r, exp, cls) or r is d:
                            msg = 'd & %r = %s(%r), expected %r' % (sel, type(r).__name__, dict(r), exp)
                    elif op.startswith('add') or op.startswith('or.'):
                        other = dict(sel) if op.endswith('dict') else cls(dict(sel))
                        r = (d + other) if op.startswith('add') else (d | other)
                        exp = {**vals, **sel}
                        if not _same(r, exp, cls) or r is d or dict(other) != sel:
                            msg = 'd + %r = %s(%r), expected %r' % (sel, type(r).__name__, dict(r), exp)
                    elif op == 'getitem.key' or op == 'getattr.key':
                        exc = KeyError if op == 'getitem.key' else AttributeError
                        try:
                            r = d[sel] if op == 'getitem.key' else getattr(d, sel)
                            if sel not in vals or r is not vals[sel]:
                                msg = '%s %r returned %r' % (op, sel, r)
                        except exc:
                            if sel in vals:
                                msg = '%s %r raised although the key is present' % (op, sel)
                    elif op == 'setattr.key':
                        e = d.copy()
                        setattr(e, sel, 'new')
                        exp = {**vals, sel: 'new'}
                        if not _same(e, exp, cls):
                            msg = 'e = d.copy(); e.%s = "new" gives %s(%r), expected %r' % (sel, type(e).__name__, dict(e), exp)
                    elif op == 'delattr.key':
                        e = d.copy()
                        try:
                            delattr(e, sel)
                            exp = {k: vals[k] for k in keys if k != sel}
                            if sel not in vals or not _same(e, exp, cls):
                                msg = 'e = d.copy(); del e.%s gives %s(%r), expected %r' % (sel, type(e).__name__, dict(e), exp)
                        except AttributeError:
                            if sel in vals:
                                msg = 'del e.%s raised AttributeError although the key is present' % sel
                    elif op == 'getitem.tuple':
                        try:
                            r = d[tuple(sel)]
                            if not all(k in vals for k in sel) or not isinstance(r, list) or len(r) != len(sel) or any(x is not vals[k] for x, k in zip(r, sel)):
                                msg = 'd[%r] = %r' % (tuple(sel), r)
                        except KeyError:
                            if all(k in vals for k in sel):
                                msg = 'd[%r] raised KeyError although every key is present' % (tuple(sel),)
                    elif op == 'getitem.list':
                        try:
                            r = d[list(sel)]
                            exp = {k: vals[k] for k in sel if k in vals}
                            if not all(k in vals for k in sel) or not _same(r, exp, cls):
                                msg = 'd[%r] = %s(%r), expected %r' % (sel, type(r).__name__, dict(r), exp)
                        except KeyError:
                            if all(k in vals for k in sel):
                                msg = 'd[%r] raised KeyError although every key is present' % (sel,)
                    elif op.startswith('relabel'):
                        variant = op.split('.', 1)[1] if '.' in op else 'none'
                        pos, base = _relabel_args(variant, keys)
                        r = d.relabel(*pos, **sel)
                        exp = {sel.get(k, base(k)): vals[k] for k in keys}
                        if not _same(r, exp, cls) or r is d:
                            msg = 'd.relabel(*%r, **%r) = %s(%r), expected %r' % (pos, sel, type(r).__name__, dict(r), exp)
                except Exception as e:      # noqa
                    msg = '%s with %r raised %r' % (op, sel, e)
                if msg is None and not (dict.__eq__(d, vals) and list(dict.keys(d)) == keys and type(d) is cls):
                    msg = '%s with %r changed the receiver to %r' % (op, sel, dict(d))
                if msg:
                    bad.append('d = %s(%r): %s' % (cls.__name__, vals, msg))
    return dict(fails=bool(bad), detail='; '.join(bad[:3]) or '%d rebuilt inputs for %s.%s agree with the oracle' % (tried, clsname, op))


# ----------------------------------------------------------------------------------------------- Dict.__call__
_FN = {}


def _fn(name, args):
    key = (name, tuple(args))
    if key not in _FN:
        _FN[key] = eval('lambda %s: (%r, %s)' % (', '.join(args), name, ''.join(a + ', ' for a in args)))
    return _FN[key]


def replay_call(call):
    from pyg_base import Dict
    tri = lambda v: [True, False] if v is None else [bool(v)]   # noqa
    bad, tried = [], 0
    for k_cal, d_cal, kd, dk, third, selfref in itertools.product(tri(call.get('K0_callable')), tri(call.get('D0_callable')), tri(call.get('K0_needs_D0')),
                                                                  tri(call.get('D0_needs_K0')), (None, [], ['K0'], ['D0']), (False, True)):
        # selfref: K0's function names K0 itself (an update of the existing item; evaluated when it is the last one left)
        args = {'K0': (['D0'] if kd else []) + (['K0'] if selfref else []) + ['x'], 'D0': (['K0'] if dk else []) + ['y']}
        spec = {}
        spec['K0'] = ('f', args['K0']) if k_cal else ('v', 'plainK')
        spec['D0'] = ('f', args['D0']) if d_cal else ('v', 'plainD')
        if third is not None:
            spec['T0'] = ('f', third + ['x'])
        for order in itertools.permutations(sorted(spec)):
            for cls in (Dict, type('MyDict', (Dict,), {})):
                tried += 1
                base = dict(x='X', y='Y', K0='oldK')
                d = cls(dict(base))
                kw = {k: (_fn(k, spec[k][1]) if spec[k][0] == 'f' else spec[k][1]) for k in order}
                fns = {k: spec[k][1] for k in spec if spec[k][0] == 'f'}
                # oracle: repeated rounds; a function is ready when none of its *other* callable arguments is pending
                env = dict(base)
                env.update({k: spec[k][1] for k in spec if spec[k][0] == 'v'})
                pending, cyc = dict(fns), False
                while pending:
                    ready = [k for k in pending if not any(a in pending and (a != k or len(pending) > 1) for a in pending[k])]
                    if not ready:
                        cyc = True
                        break
                    new = {k: (k,) + tuple(env[a] for a in pending[k]) for k in ready}
                    env.update(new)
                    for k in ready:
                        del pending[k]
                txt = '%s(%r)(%s)' % (cls.__name__, base, ', '.join('%s=%s' % (k, 'lambda %s' % ','.join(spec[k][1]) if spec[k][0] == 'f' else repr(spec[k][1])) for k in order))
                try:
                    r = d(**kw)
                    if cyc:
                        bad.append('%s returned %r although the definitions are circular' % (txt, dict(r)))
                    elif type(r) is not cls or dict(r) != env:
                        bad.append('%s = %s(%r), dependency order gives %r' % (txt, type(r).__name__, dict(r), env))
                except ValueError as e:
                    if not cyc:
                        bad.append('%s raised %r although the graph is acyclic' % (txt, e))
                except Exception as e:      # noqa
                    bad.append('%s raised %r' % (txt, e))
                if dict(d) != base:
                    bad.append('%s changed the receiver to %r' % (txt, dict(d)))
    return dict(fails=bool(bad), detail='; '.join(bad[:3]) or '%d rebuilt keyword sets agree with dependency-order evaluation' % tried)


def replay_apply(call):
    """Dict.apply: the model says whether the witness key K0 is an item of the mapping and / or a default; the mapping over K0 plus a filler is
    rebuilt for Dict and a subclass and a function naming both is applied: an item wins over a default of the same name, a default is used
    where the mapping has no such item, the receiver is unchanged"""
    from pyg_base import Dict

    class MyDict(Dict):
        pass
    bad, tried = [], 0
    f = lambda K0, filler=None, other='unset': (K0, filler, other)      # noqa
    for cls in (Dict, MyDict):
        for in_d, in_def in ((True, True), (True, False), (False, True)):
            base = dict(filler='vf')
            if in_d:
                base['K0'] = 'vK0'
            defaults = dict(other='dflt')
            if in_def:
                defaults['K0'] = 'default_K0'
            d = cls(base)
            want = ('vK0' if in_d else 'default_K0', 'vf', 'dflt')
            txt = '%s(%r).apply(f, **%r)' % (cls.__name__, base, defaults)
            tried += 1
            try:
                r = d.apply(f, **defaults)
            except Exception as e:      # noqa
                bad.append('%s raised %r' % (txt, e))
                continue
            if r != want:
                bad.append('%s returned %r, expected f(%s)' % (txt, r, ', '.join(map(repr, want))))
            if dict(d) != base:
                bad.append('%s changed the receiver to %r' % (txt, dict(d)))
    return dict(fails=bool(bad), detail='; '.join(bad[:3]) or '%d rebuilt applications agree' % tried)


def replay(call):
    kind = call.get('kind')
    if kind == 'apply':
        return replay_apply(call)
    if kind == 'ulist':
        return replay_ulist(call)
    if kind == 'ulist_init':
        return replay_ulist_init(call)
    if kind == 'relabel':
        return replay_relabel(call)
    if kind == 'dictattr':
        return replay_dictattr(call)
    if kind == 'call':
        return replay_call(call)
    return dict(fails=None, detail='no replay for kind %r' % kind)
