"""C10 bounded stand-in: drange(t0, t1, bump) on the real code against 'start at t0, apply the bump while inside the interval'.
Oracles: timedelta arithmetic (ints, timedeltas, d/w/h/n/s), month arithmetic for m/q/y from a day <= 28, a day-by-day weekday listing
for b, and - as the property itself states - iterated dt_bump for compound period strings.  Every drange call runs in a forked child with
a hard timeout (a zero or mixed-sign period can make rrule / the dt_bump loop spin)."""
import datetime, random, re, calendar as _calendar
from rac.common import Collector, call_with_timeout

D = datetime.datetime
TD = datetime.timedelta
DAY = TD(days=1)
K_D6 = 'C10:negative-single-period:empty'          # known defect D6: negative single period other than 'b' returns []
UNITS = 'dwmqyhnsb'
UNIT_TD = dict(d=DAY, w=7 * DAY, h=TD(hours=1), n=TD(minutes=1), s=TD(seconds=1))
TOKEN = re.compile(r'^([-+]?[0-9]+)([dbwmqyhns])')
COMPOUNDS = ['1m1d', '1w2d', '1y1m', '2d12h', '1h30n', '1n30s', '1q1w', '3m2w1d', '1b1d', '2w3b',
             '-1m-1d', '-1w-2d', '-2d-12h', '-1y-1m', '-1h-30n', '-1q-1w', '-1b-1d', '+1m+1d', '1M1D']


# ------------------------------------------------------------------------------------------------------------- bump encoding
def bump_of(spec):
    if 'int' in spec:
        return int(spec['int'])
    if 'td' in spec:
        d, s, us = spec['td']
        return TD(days=d, seconds=s, microseconds=us)
    return spec['str']


def td_spec(td):
    return dict(td=[td.days, td.seconds, td.microseconds])


def parse_tokens(s):
    s = s.lower()
    out = []
    m = TOKEN.match(s)
    while m:
        out.append((int(m.group(1)), m.group(2)))
        s = s[m.end():]
        m = TOKEN.match(s)
    return out, s


# ------------------------------------------------------------------------------------------------------------- oracles
def month_add(t, k):
    """k months later, same day of month (day <= 28 exists in every month)"""
    tot = t.year * 12 + (t.month - 1) + k
    y, m0 = divmod(tot, 12)
    return D(y, m0 + 1, t.day, t.hour, t.minute, t.second, t.microsecond)


def iterate(t0, t1, step, limit=200000):
    res, t = [], t0
    if t1 >= t0:
        while t <= t1 and len(res) < limit:
            res.append(t)
            t = step(t)
    else:
        while t >= t1 and len(res) < limit:
            res.append(t)
            t = step(t)
    return res


def weekdays_between(t0, t1, k):
    lo, hi = min(t0, t1), max(t0, t1)
    days = [lo + i * DAY for i in range((hi - lo).days + 1)]
    days = [t for t in days if t.weekday() < 5]
    if k < 0:
        days = days[::-1]
    return days[::abs(k)]


def direction(spec):
    """+1 / -1: where the bump points"""
    if 'int' in spec:
        return 1 if spec['int'] > 0 else -1
    if 'td' in spec:
        return 1 if bump_of(spec) > TD(0) else -1
    toks, _ = parse_tokens(spec['str'])
    return 1 if toks[0][0] > 0 else -1


def expected(t0, t1, spec):
    from pyg_base import dt_bump
    if 'int' in spec:
        n = spec['int']
        return iterate(t0, t1, lambda t: t + n * DAY)
    if 'td' in spec:
        td = bump_of(spec)
        return iterate(t0, t1, lambda t: t + td)
    toks, rest = parse_tokens(spec['str'])
    if len(toks) == 1:
        n, u = toks[0]
        if u == 'b':
            return weekdays_between(t0, t1, n)
        if u in UNIT_TD:
            return iterate(t0, t1, lambda t: t + n * UNIT_TD[u])
        k = n * dict(m=1, q=3, y=12)[u]
        return iterate(t0, t1, lambda t: month_add(t, k))

    def step(t):                                  # the list obtained by iterating dt_bump, one part at a time
        for n, u in toks:
            t = dt_bump(t, '%d%s' % (n, u))
        return t
    return iterate(t0, t1, step)


# ------------------------------------------------------------------------------------------------------------- evaluation in a child
def _eval_batch(cases):
    from pyg_base import drange
    out = []
    for t0, t1, spec in cases:
        try:
            out.append(('ok', drange(t0, t1, bump_of(spec))))
        except BaseException as e:      # noqa
            out.append(('raise', type(e).__name__, isinstance(e, ValueError), str(e)[:200]))
    return out


def evaluate(cases, batch=150, timeout=120.0):
    """drange on every case; batches in a forked child, falling back to one child per case when a batch does not come back"""
    import pyg_base         # noqa  import once here so that the forked children do not each pay for it
    results = []
    for i in range(0, len(cases), batch):
        chunk = [(k['t0'], k['t1'], k['bump']) for k in cases[i:i + batch]]
        st, val = call_with_timeout(_eval_batch, (chunk,), timeout=timeout)
        if st == 'ok':
            results.extend(val)
            continue
        for one in chunk:
            st1, val1 = call_with_timeout(_eval_batch, ([one],), timeout=30.0)
            results.append(val1[0] if st1 == 'ok' else ('hang',))
    return results


# ------------------------------------------------------------------------------------------------------------- judging one case
def unit_of(spec):
    if 'str' not in spec:
        return None
    toks, _ = parse_tokens(spec['str'])
    return toks[0][1] if len(toks) == 1 else 'compound'


def kind_of(spec):
    if 'int' in spec:
        return 'int'
    if 'td' in spec:
        return 'timedelta'
    u = unit_of(spec)
    return 'compound' if u == 'compound' else 'single:%s' % u


def is_negative_single_non_b(spec):
    if 'str' not in spec:
        return False
    toks, _ = parse_tokens(spec['str'])
    return len(toks) == 1 and toks[0][0] < 0 and toks[0][1] != 'b'


def call_of(case):
    return dict(kind='drange', t0=case['t0'].isoformat(), t1=case['t1'].isoformat(), bump=case['bump'], expect=case['expect'])


def judge(c, case, res):
    t0, t1, spec, expect = case['t0'], case['t1'], case['bump'], case['expect']
    call = call_of(case)
    shown = 'drange(%s, %s, %r)' % (t0, t1, bump_of(spec))
    kind = kind_of(spec)
    if res[0] == 'hang':
        return c.check(False, 'C10:%s:hang' % kind.split(':')[0], shown + ' did not return within 30 s', call)
    if expect == 'ValueError':
        if res[0] == 'raise':
            return c.check(res[2], 'C10:wrong-direction:other-exception', shown + ' raised %s(%s), expected ValueError' % (res[1], res[3]), call)
        sub = ':negative-single-period' if is_negative_single_non_b(spec) else ''
        return c.check(False, 'C10:wrong-direction:no-ValueError' + sub, shown + ' points away from t1 but returned %d dates %s' % (len(res[1]), res[1][:3]), call)
    if res[0] == 'raise':
        return c.check(False, 'C10:%s:raises' % kind, shown + ' raised %s(%s)' % (res[1], res[3]), call)
    got = res[1]
    if expect == 'same':
        return c.check(got == [t0], 'C10:same-endpoints', shown + ' = %s, expected [t0]' % got[:3], call)
    exp = expected(t0, t1, spec)
    if got == exp:
        return True
    if got == [] and is_negative_single_non_b(spec) and t0 > t1:
        return c.check(False, K_D6, shown + ' = [], expected %d dates %s..' % (len(exp), exp[:3]), call)
    return c.check(False, 'C10:%s:value' % kind, shown + ' has %d dates %s..%s, expected %d dates %s..%s' % (len(got), got[:3], got[-1:], len(exp), exp[:3], exp[-1:]), call)


# ------------------------------------------------------------------------------------------------------------- enumeration
def start_days(rng, n_random):
    days = [D(2024, 2, 20) + k * DAY for k in range(14)]                      # every weekday twice, 29 Feb 2024 inside
    days += [D(1999, 12, 31), D(2000, 1, 1), D(1901, 3, 1), D(2100, 2, 28), D(2285, 12, 28), D(2023, 1, 28), D(2023, 6, 15)]
    lo, hi = D(1901, 1, 1).toordinal(), D(2285, 1, 1).toordinal()
    days += [D.fromordinal(rng.randrange(lo, hi)) for _ in range(n_random)]
    return days


SPANS = dict(d=[1, 5, 30, 400, 1500], w=[7, 20, 100, 800], m=[27, 31, 100, 800, 2000], q=[91, 400, 2000], y=[365, 366, 1500, 4000],
             h=[1, 5, 30, 200], n=[1, 59, 500], s=[1, 59, 400], b=[1, 2, 3, 6, 7, 13, 30, 100, 800])
NS = [1, 2, 3, 5, -1, -2, -3, -5]
TODS = [TD(0), TD(hours=10, minutes=30, seconds=15)]


def add_case(cases, t0, t1, spec, expect='value', group=None):
    cases.append(dict(t0=t0, t1=t1, bump=spec, expect=expect, group=group))


def make_cases(rng, quick):
    cases = []
    # a negative minute / second period pointing away from a t1 that is less than a day ahead passes drange's own direction test and makes
    # rrule grind for 1-7 s before it gives up with a ValueError: keep that input class, but only a few of them
    slow_budget = dict(n=6, s=3) if quick else dict(n=60, s=40)
    starts = start_days(rng, 10 if quick else 150)
    for si, day in enumerate(starts):
        long_ok = si % 8 == 3
        # ---- ints, and the int / timedelta(n) / 'nd' triple
        for n in [1, 2, 3, 7, 30, -1, -2, -3, -7, -30]:
            spans = rng.sample([1, 2, 6, 7, 29, 100, 366], 3) + ([1461] if long_ok else [])
            for span in spans:
                tod = rng.choice(TODS)
                t0 = day + tod
                t1 = t0 + (span if n > 0 else -span) * DAY
                g = ('triple', len(cases))
                add_case(cases, t0, t1, dict(int=n), group=g)
                add_case(cases, t0, t1, td_spec(n * DAY), group=g)
                add_case(cases, t0, t1, dict(str='%dd' % n), group=g)
                if rng.random() < 0.3:
                    add_case(cases, t0, t1, dict(int=-n), 'ValueError')
                    add_case(cases, t0, t1, td_spec(-n * DAY), 'ValueError')
                    add_case(cases, t0, t1, dict(str='%dd' % -n), 'ValueError')
        # ---- timedeltas incl. intraday and microseconds
        for td in [TD(hours=7), TD(minutes=90), TD(seconds=45), TD(days=1, hours=12), TD(hours=1, microseconds=1), TD(microseconds=250000),
                   -TD(hours=7), -TD(minutes=90), -TD(days=2), -TD(seconds=45, microseconds=5)]:
            k = rng.choice([0, 1, 3, 40, 300])
            frac = rng.choice([0, 0.5, 0.999])
            t0 = day + TD(hours=rng.randrange(24), minutes=rng.randrange(60), seconds=rng.randrange(60), microseconds=rng.choice([0, 1, 999999]))
            t1 = t0 + td * k + (td * frac if k else TD(0))
            add_case(cases, t0, t1, td_spec(td), 'same' if t0 == t1 else 'value')
            if t0 != t1 and rng.random() < 0.3:
                add_case(cases, t0, t1, td_spec(-td), 'ValueError')
        # ---- single period strings: every unit letter and sign
        for u in UNITS:
            for n in NS:
                spans = rng.sample(SPANS[u], 2)
                for span in spans:
                    if span >= 1500 and not long_ok and u in 'dbw':
                        span = 60
                    sgn = 1 if n > 0 else -1
                    if u in 'mqy':
                        t0 = day.replace(day=min(day.day, 28))
                        t1 = t0 + sgn * span * DAY
                    elif u == 'b':
                        t0 = day + rng.choice([TD(0), TD(hours=12)])
                        t1 = t0 + sgn * span * DAY
                    elif u in 'dw':
                        t0 = day + rng.choice(TODS)
                        t1 = t0 + sgn * (span * DAY + rng.choice([TD(0), TD(hours=5), TD(hours=23, minutes=59)]))
                    else:
                        t0 = day + TD(hours=rng.randrange(24), minutes=rng.randrange(60), seconds=rng.randrange(60))
                        t1 = t0 + sgn * (span * UNIT_TD[u] + rng.choice([TD(0), UNIT_TD[u] / 2]))
                    txt = '%d%s' % (n, u)
                    r = rng.random()
                    txt = txt.upper() if r < 0.1 else ('+' + txt if r < 0.2 and n > 0 else txt)
                    add_case(cases, t0, t1, dict(str=txt))
                    if rng.random() < 0.25:
                        slow = u in 'ns' and n > 0 and (t1 - t0) < DAY
                        if not slow or slow_budget[u] > 0:
                            add_case(cases, t0, t1, dict(str='%d%s' % (-n, u)), 'ValueError')
                            if slow:
                                slow_budget[u] -= 1
                    if rng.random() < 0.1:
                        add_case(cases, t0, t0, dict(str=txt), 'same')
        # ---- compound period strings (all parts of one sign)
        for tenor in (COMPOUNDS if (not quick or si % 3 == 0) else rng.sample(COMPOUNDS, 5)):
            toks, _ = parse_tokens(tenor)
            sgn = 1 if toks[0][0] > 0 else -1
            big = any(u in 'mqy' for _, u in toks)
            small = all(u in 'hns' for _, u in toks)
            span = rng.choice([40, 400, 1500]) * DAY if big else (rng.choice([2, 30, 200]) * TD(hours=1) if small else rng.choice([3, 40, 300]) * DAY)
            t0 = day.replace(day=min(day.day, 28)) if big else day + (TD(hours=rng.randrange(24), minutes=rng.randrange(60)) if small else TD(0))
            t1 = t0 + sgn * span
            add_case(cases, t0, t1, dict(str=tenor))
            if rng.random() < 0.3:
                add_case(cases, t1, t0, dict(str=tenor), 'ValueError')
        # ---- t0 == t1
        for spec in (dict(int=rng.choice([1, -1, 5])), td_spec(rng.choice([TD(hours=3), -TD(days=1)])), dict(str=rng.choice(['1b', '-1b', '1m', '-1w', '1m1d', '-1h-30n']))):
            t0 = day + rng.choice(TODS)
            add_case(cases, t0, t0, spec, 'same')
    return cases


def describe(quick):
    return ('start days: 14 consecutive days from 2024-02-20, 7 fixed month/century edges, %d seeded days of 1901-2285; per start: ints n in {+-1,2,3,7,30} x 3 spans of '
            '{1,2,6,7,29,100,366} days (4 years for every 8th start) each together with timedelta(n) and "nd" (identical lists); 10 timedeltas (7h, 90min, 45s, 36h, '
            '1h+1us, 250ms, negative ones) with microsecond endpoints and 0-300 steps; single period strings: every unit letter d w m q y h n s b x n in {+-1,2,3,5} x 2 '
            'spans (a day to ~11 years for y, whole days apart for b, day<=28 at midnight for m/q/y, whole-second times of day), some upper case / "+" spellings; %d compound '
            'strings with parts of one sign; t0 == t1 for every kind; the opposite-sign bump for ~30%% of the cases (must raise ValueError). '
            'A case is (t0, t1, bump); non-trivial when t0 != t1.' % (10 if quick else 150, len(COMPOUNDS)))


def run(tier, seed):
    rng = random.Random(seed)
    quick = tier == 'quick'
    c = Collector('C10', rule=describe(quick), exhaustive=False,
                  scope='%d start days, spans 0 .. 11 years both directions, bumps: ints, timedeltas, 9 unit letters x 8 multipliers, %d compound strings' % (31 if quick else 171, len(COMPOUNDS)))
    cases = make_cases(rng, quick)
    if quick:
        results = evaluate(cases)
    else:
        import multiprocessing as mp
        from concurrent.futures import ProcessPoolExecutor
        parts = [cases[i::16] for i in range(16)]
        with ProcessPoolExecutor(16, mp_context=mp.get_context('fork')) as pool:      # non-daemonic workers: each forks its own guarded children
            outs = list(pool.map(evaluate, parts))
        results = [None] * len(cases)
        for i, out in enumerate(outs):
            results[i::16] = out
    groups = {}
    for case, res in zip(cases, results):
        judge(c, case, res)
        ident = (case['t0'], case['t1'], repr(bump_of(case['bump'])), case['expect'])
        c.case(ident, nontrivial=case['t0'] != case['t1'],
               sample=dict(t0=case['t0'].isoformat(), t1=case['t1'].isoformat(), bump=repr(bump_of(case['bump'])), expect=case['expect']) if c.evaluations % 997 == 0 else None)
        if case['group']:
            groups.setdefault(case['group'], []).append((case, res))
    # integer n, timedelta(n) and 'nd' give identical lists
    for g, members in groups.items():
        (ci, ri), (ct, rt), (cs, rs) = members
        call = call_of(cs)
        if ri[0] != 'ok' or rt[0] != 'ok' or rs[0] != 'ok':
            continue                                            # already reported by judge
        c.check(ri[1] == rt[1], 'C10:nd-int-timedelta:identical', 'drange(%s,%s,%r) differs from the same call with timedelta(days=%r)' % (ci['t0'], ci['t1'], ci['bump']['int'], ci['bump']['int']), call_of(ct))
        if rs[1] == [] and is_negative_single_non_b(cs['bump']) and ri[1] != []:
            continue                                            # D6, reported under K_D6 by judge
        c.check(ri[1] == rs[1], 'C10:nd-int-timedelta:identical', 'drange(%s,%s,%r) has %d dates but with %r it has %d' % (ci['t0'], ci['t1'], ci['bump']['int'], len(ri[1]), cs['bump']['str'], len(rs[1])), call)
    return c.result()


def replay(call):
    if call.get('kind') != 'drange':
        return dict(fails=None, detail='no replay for kind %r' % call.get('kind'))
    case = dict(t0=D.fromisoformat(call['t0']), t1=D.fromisoformat(call['t1']), bump=call['bump'], expect=call.get('expect', 'value'), group=None)
    res = evaluate([case], batch=1, timeout=10.0)[0]
    c = Collector('C10', 'replay')
    judge(c, case, res)
    v = list(c.violations.values())
    return dict(fails=bool(v), detail=v[0]['what'] if v else 'drange agrees with the iterated bump for this input')
