"""Replay of solver counterexamples for the C14 obligations on the real eq: the model's handles become Python objects (equal
handles one object, so NaN objects of different identity stay different) and eq is compared with an oracle written from the
property statement (NaN-aware ==, type-strict containers)."""
import math
from rac.C07_ded import Builder, Unbuildable


def _isnan(v):
    return isinstance(v, float) and math.isnan(v)


def ORACLE(x, y):
    cx, cy = isinstance(x, (list, tuple)), isinstance(y, (list, tuple))
    if cx or cy:
        return cx and cy and type(x) is type(y) and len(x) == len(y) and all(ORACLE(a, b) for a, b in zip(x, y))
    if _isnan(x) or _isnan(y):
        return _isnan(x) and _isnan(y)
    return bool(x == y)


def replay(call):
    from pyg_base._eq import eq
    b = Builder(call)
    try:
        x, y = b.get('x'), b.get('y')
        z = b.get('z') if 'z_tag' in call else None
    except Unbuildable as e:
        return dict(fails=None, detail='model not concretisable: %s' % e)
    have_z = 'z_tag' in call
    probs = []
    try:
        r1, r2 = eq(x, y), eq(y, x)
        for (p, q, r) in ((x, y, r1), (y, x, r2)):
            if not isinstance(r, bool):
                probs.append('eq(%r,%r) returned %r, not a bool' % (p, q, r))
            if bool(r) != ORACLE(p, q):
                probs.append('eq(%r,%r) = %r, specification says %r' % (p, q, r, ORACLE(p, q)))
        if bool(r1) != bool(r2):
            probs.append('not symmetric: eq(%r,%r) = %r, eq(%r,%r) = %r' % (x, y, r1, y, x, r2))
        for v in (x, y):
            if not eq(v, v):
                probs.append('not reflexive on %r' % (v,))
        if have_z:
            r3, r4 = eq(y, z), eq(x, z)
            if r1 and r3 and not r4:
                probs.append('not transitive: x=%r y=%r z=%r' % (x, y, z))
    except Exception as e:      # noqa
        return dict(fails=True, detail='eq raised %r on x=%r y=%r%s' % (e, x, y, (' z=%r' % (z,)) if have_z else ''))
    return dict(fails=bool(probs), detail='; '.join(probs) if probs else 'eq agrees with the specification on x=%r y=%r' % (x, y))
