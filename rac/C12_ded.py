"""Replay for the deductive C12 obligations.  Counterexamples of these obligations are interpretations of uninterpreted pandas operations and
cannot be concretised; what is replayed is the clause: each obligation family maps to a fixed battery of discriminating native inputs (method
lists in which a later step must see the earlier step's result, NaN runs longer than the limit on 1-d arrays, frames whose columns end on
different rows under ffill_na / ffill_0, all-NaN and leading-NaN rows for fnna / nona) evaluated on the real code against the explicit-loop
oracle of the bounded stand-in (rac/C12.py); the frame family re-checks that the argument is unchanged."""
import warnings

from rac import C12 as B

KNOWN = set()          # none of the bounded module's input-class keys is a listed finding any more (all fixed): every key counts
N = 'nan'
VEC = [[N, 1.0, N, N, N, 2.0, N, 3.0, N, N], [N, N, 1.0, N, 2.0, N, N, N, N, N], [1.0, N, N, N, 2.0, N, N, N, N, 3.0], [N] * 6, [1.0, 2.0, 3.0], [1.0, 2.0, N, N]]
FRAMES = [[[1.0, N, 2.0, N, N, N, N], [N, 3.0, N, N, 4.0, N, N]], [[N, N, 1.0, N], [N, N, N, 2.0]], [[N, 1.0, N], [N, N, N]]]


def _jobs(jobs):
    bad = []
    for job in jobs:
        bad += ['%s: %s' % (k, w) for k, w in B.run_job(job) if k not in KNOWN]
    return bad


def limited(m):
    """a limit is stated (and enumerated by the bounded stand-in) for the forward / backward fills only"""
    return all(x in B.LIMITED for x in (m if isinstance(m, list) else [m]))


def battery(methods, limits=(None, 1, 2), frames=True):
    jobs = [dict(cols=[v], frame=False, method=m, limit=l) for v in VEC for m in methods for l in limits if l is None or limited(m)]
    if frames:
        jobs += [dict(cols=f, frame=True, method=m, limit=l) for f in FRAMES for m in methods for l in limits if l is None or limited(m)]
    return jobs


def _replay(call):
    warnings.filterwarnings('ignore')
    kind = call.get('kind')
    singles = ['ffill', 'bfill', 0.0, -1.5, 'ffill_na', 'ffill_0', 'fnna', 'nona']
    lists = [['ffill', 0.0], ['ffill', 'bfill'], ['bfill', 0.0], [0.0, 'ffill'], ['ffill', 'nona'], ['fnna', 'ffill'], ['bfill', 'ffill']]
    if kind == 'prelude':
        bad = _jobs(battery(['ffill', 'bfill', 0.0, 'ffill_na'], limits=(None, 1, 2, 3)))
    elif kind == 'step':
        bad = _jobs(battery(singles) + battery(lists, limits=(None, 1), frames=False))
    elif kind == 'loop':
        bad = _jobs(battery(lists, limits=(None, 1)) + battery(singles, limits=(None,)))
    elif kind == 'nona':
        bad = _jobs([dict(cols=[v], frame=False, method=mm, limit=None) for v in VEC for mm in ('nona()', 'nona')]
                    + [dict(cols=f, frame=True, method=mm, limit=None) for f in FRAMES for mm in ('nona()', 'nona')])
        import numpy as np, pandas as pd
        from pyg_base import nona
        s = pd.Series([np.nan, 1., np.nan, 2., 3., np.nan], pd.date_range('2020-01-01', periods=6))
        if list(nona(s, edge=1).index) != list(s.index[:5]) or list(nona(s, edge=-1).index) != list(s.index[1:]):
            bad.append('nona(series, edge = 1 / -1) does not trim exactly the trailing / leading NaN')
        fr = pd.DataFrame(dict(a=[1., np.nan, np.nan], b=[np.nan, np.nan, 2.]), s.index[:3])
        if list(nona(fr).index) != [s.index[0], s.index[2]]:
            bad.append('nona(frame) must drop exactly the rows that are NaN in every column, kept %s' % list(nona(fr).index))
    elif kind == 'frame':
        bad = [b for b in _jobs(battery(singles + lists, limits=(None, 1))) if 'input-modified' in b]
    else:
        return dict(fails=None, detail='no native battery for %r' % kind)
    return dict(fails=bool(bad), detail=('; '.join(bad))[:600] if bad else 'the clause holds on the real code for the whole battery of this obligation family')


def replay(call):
    from rac.ded_cache import cached
    return cached(__name__, call, lambda: _replay(call), uses=(), deps=(__file__, B.__file__))
