"""Replay of solver counterexamples for the C18 obligations on the real decorators (runs under /venv/bin/python).

The model of a failed obligation fixes the *case* (key cached or not, hashable or not, f raises or not, repeat / return_value,
how the first argument is passed, whether the witness keyword is declared).  Each case is rebuilt with a real counting function
and the real decorator and compared with an oracle written from the property statement; free parts of the model are enumerated
over a small neighbourhood.  `fails` is True only if the real code disagrees with the oracle."""
import itertools


class Boom(Exception):
    pass


def tri(v):
    return [True, False] if v is None else [bool(v)]


def counting(raises, result=lambda a, k: ('f', a, tuple(sorted(k.items())))):
    calls = []

    def f(*a, **k):
        calls.append((a, dict(k)))
        if raises:
            raise Boom('boom')
        return result(a, k)
    return f, calls


def replay_cache(call):
    from pyg_base._cache import cache_func
    bad, tried = [], 0
    for has_cache, key_cached, hashable, f_raises in itertools.product(tri(call.get('has_cache')), tri(call.get('key_cached')), tri(call.get('hashable')), tri(call.get('f_raises'))):
        if key_cached and not (has_cache and hashable):
            continue
        for a, k in (((1, 'x'), dict(p=2)), ((), {}), (([1, 2],), dict(q=(3,)))):
            if not hashable:
                a = a + ({1, 2},)           # a set stays unhashable after _prehash
            tried += 1
            f, calls = counting(f_raises)
            c = cache_func(f)
            if has_cache:
                c.cache = {'other': 'kept'}
                if key_cached:
                    c.cache[c._key(*a, **k)] = 'stored'
            before = dict(c.cache) if has_cache else {}
            txt = 'cache(f)(*%r, **%r) [has_cache=%s key_cached=%s f_raises=%s]' % (a, k, has_cache, key_cached, f_raises)
            for n_call in (1, 2):
                n0 = len(calls)
                try:
                    r = c(*a, **k)
                    raised = False
                except Boom:
                    raised = True
                except Exception as e:      # noqa
                    bad.append('%s raised %r' % (txt, e))
                    break
                done = len(calls) - n0
                cached_now = hashable and (key_cached or (n_call == 2 and not f_raises))
                if cached_now:
                    exp = 'stored' if key_cached else ('f', a, tuple(sorted(k.items())))
                    if raised or r != exp or done != 0:
                        bad.append('%s call %d: cached key, got %r after %d evaluations (raised=%s), expected %r without evaluation' % (txt, n_call, None if raised else r, done, raised, exp))
                elif f_raises:
                    if not raised or done not in (1, 2):
                        bad.append('%s call %d: f raises, raised=%s after %d evaluations' % (txt, n_call, raised, done))
                else:
                    if raised or r != ('f', a, tuple(sorted(k.items()))) or done != 1:
                        bad.append('%s call %d: got %r after %d evaluations' % (txt, n_call, None if raised else r, done))
                    if hashable:
                        exp_cache = dict(before); exp_cache[c._key(*a, **k)] = r
                        if dict(c.cache) != exp_cache:
                            bad.append('%s call %d: cache is %r, expected %r' % (txt, n_call, dict(c.cache), exp_cache))
                if not hashable and dict(getattr(c, 'cache', {})) != before:
                    bad.append('%s call %d: unhashable call changed the cache to %r' % (txt, n_call, dict(c.cache)))
            # a different combination of arguments is a different key: evaluated on its own
            if hashable and not f_raises and not key_cached:
                for a2, k2 in ((a, dict(k, extra=1)), (a + ('more',), k)):
                    n0 = len(calls)
                    r2 = c(*a2, **k2)
                    if len(calls) - n0 != 1 or r2 != ('f', a2, tuple(sorted(k2.items()))):
                        bad.append('%s then (*%r, **%r): %d evaluations, result %r' % (txt, a2, k2, len(calls) - n0, r2))
    # the stored result may be anything - None, a falsy value, NaN: a hit is decided by the key, not by the value
    for name, val in (('None', None), ('0', 0), ('empty list', []), ('False', False), ('nan', float('nan'))):
        f, calls = counting(False, result=lambda a, k, val=val: val)
        c = cache_func(f)
        tried += 1
        r1 = c(1, p=2)
        r2 = c(1, p=2)
        if len(calls) != 1 or r2 is not r1:
            bad.append('cache(f) with f returning %s: two equal calls evaluated f %d time(s); results %r / %r' % (name, len(calls), r1, r2))
    return dict(fails=bool(bad), detail='; '.join(bad[:3]) or '%d rebuilt cache cases agree with the oracle' % tried)


def replay_try_value(call):
    from pyg_base._decorators import try_value
    import pyg_base._decorators as D
    bad, tried = [], 0
    rep = call.get('repeat')
    reps = [0, 1, 2] if rep is None else [max(-1, min(3, int(rep)))]
    for repeat, rv, verbose, f_raises in itertools.product(reps, tri(call.get('return_value')), tri(call.get('verbose')), tri(call.get('f_raises'))):
        for fallback in (None, 0, 'fb', [1]):
            tried += 1
            f, calls = counting(f_raises)
            w = try_value(f, repeat=repeat, sleep=0, return_value=rv, value=fallback, verbose=verbose)
            txt = 'try_value(f, repeat=%s, return_value=%s, value=%r)(1, p=2) [f_raises=%s]' % (repeat, rv, fallback, f_raises)
            try:
                r = w(1, p=2)
                raised = False
            except Boom:
                raised = True
            except Exception as e:      # noqa
                bad.append('%s raised %r' % (txt, e))
                continue
            attempts = max(repeat, 0) + 1
            if not f_raises:
                if raised or r != ('f', (1,), (('p', 2),)) or len(calls) != 1:
                    bad.append('%s: got %r after %d evaluations' % (txt, None if raised else r, len(calls)))
            elif rv:
                if raised or r != fallback or len(calls) != attempts:
                    bad.append('%s: got %r (raised=%s) after %d evaluations, expected the fallback after %d' % (txt, None if raised else r, raised, len(calls), attempts))
            else:
                if not raised or len(calls) != attempts:
                    bad.append('%s: raised=%s after %d evaluations, expected the exception after %d' % (txt, raised, len(calls), attempts))
    # the family
    import math
    fam = dict(try_zero=0, try_true=True, try_false=False, try_list=[], try_none=None)
    for name, fb in fam.items():
        f, calls = counting(True)
        r = getattr(D, name)(f)(1)
        if r != fb or type(r) is not type(fb) or len(calls) != 1:
            bad.append('%s(f)(1) = %r after %d evaluations for a raising f, expected %r after 1' % (name, r, len(calls), fb))
        f, calls = counting(False)
        r = getattr(D, name)(f)(1)
        if r != ('f', (1,), ()) or len(calls) != 1:
            bad.append('%s(f)(1) = %r for a returning f' % (name, r))
    f, calls = counting(True)
    r = D.try_nan(f)(1)
    if not (isinstance(r, float) and math.isnan(r)):
        bad.append('try_nan(f)(1) = %r for a raising f' % (r,))
    return dict(fails=bool(bad), detail='; '.join(bad[:3]) or '%d rebuilt try_value cases and the try_* family agree with the oracle' % tried)


def replay_try_back(call):
    from pyg_base._decorators import try_back
    bad, tried = [], 0
    na = call.get('n_args')
    nas = [0, 1, 2] if na is None else [max(0, min(3, int(na)))]
    for n_args, by_kw, f_raises in itertools.product(nas, tri(call.get('first_param_passed_by_keyword')), tri(call.get('f_raises'))):
        for n_params in (0, 1, 2):
            tried += 1
            calls = []
            src = 'lambda %s*a, **k: _rec(a, k)' % ''.join('p%d=None, ' % i for i in range(n_params))

            def _rec(a, k):
                calls.append(1)
                if f_raises:
                    raise Boom('boom')
                return 'value'
            f = eval(src, dict(_rec=_rec))
            args = tuple('A%d' % i for i in range(n_args))
            kwargs = dict(z='Z')
            if by_kw and n_params > 0 and n_args == 0:
                kwargs['p0'] = 'K0'
            txt = 'try_back(%s)(*%r, **%r) [f_raises=%s]' % (src.split(':')[0], args, kwargs, f_raises)
            has_first = n_args > 0 or 'p0' in kwargs
            try:
                r = try_back(f)(*args, **kwargs)
                raised = False
            except (IndexError, KeyError):
                raised = True
            except Exception as e:      # noqa
                bad.append('%s raised %r' % (txt, e))
                continue
            if not f_raises:
                if raised or r != 'value':
                    bad.append('%s: got %r (raised=%s), expected f\'s value' % (txt, None if raised else r, raised))
            elif has_first:
                exp = args[0] if n_args > 0 else kwargs['p0']
                if raised or r != exp:
                    bad.append('%s: got %r (raised=%s), expected the first argument %r' % (txt, None if raised else r, raised, exp))
            elif not raised:
                bad.append('%s: returned %r although there is no first argument' % (txt, r))
            if len(calls) != 1:
                bad.append('%s: f evaluated %d times' % (txt, len(calls)))
    return dict(fails=bool(bad), detail='; '.join(bad[:3]) or '%d rebuilt try_back cases agree with the oracle' % tried)


def replay_kwargs_support(call):
    from pyg_base._decorators import kwargs_support
    varkw_case = 'varkw' in (call.get('extra') or [])
    bad, tried = [], 0
    for varkw in ([True] if varkw_case else [False]):
        for passed, declared in itertools.product(tri(call.get('X0_passed')), tri(call.get('X0_declared'))):
            tried += 1
            got = []
            if varkw:
                f = lambda a, b=0, **kw: got.append((a, b, dict(kw))) or 'value'            # noqa
            else:
                f = lambda a, b=0: got.append((a, b, {})) or 'value'                        # noqa
            kw = {}
            if passed:
                kw['b' if declared else 'undeclared'] = 'X'
            txt = 'kwargs_support(lambda a, b=0%s)(1, **%r)' % (', **kw' if varkw else '', kw)
            try:
                r = kwargs_support(f)(1, **kw)
            except Exception as e:      # noqa
                bad.append('%s raised %r' % (txt, e))
                continue
            if varkw:
                exp = (1, kw.get('b', 0), {k: v for k, v in kw.items() if k != 'b'})        # transparency: f sees every keyword
            else:
                exp = (1, kw.get('b', 0), {})                                                # exactly the undeclared ones are ignored
            if r != 'value' or got != [exp]:
                bad.append('%s: f received %r, expected %r' % (txt, got, exp))
    return dict(fails=bool(bad), detail='; '.join(bad[:3]) or '%d rebuilt kwargs_support cases agree with the oracle' % tried)


def replay_wrapper(call):
    from pyg_base._decorators import try_value, try_back, kwargs_support
    from pyg_base._cache import cache_func
    bad, tried = [], 0
    f = lambda a, b=1: (a, b)       # noqa
    Ws = [try_value, try_back, kwargs_support, cache_func]
    from pyg_base._decorators import wrapper

    class and_add(wrapper):            # a wrapper without an __init__ of its own: wrapper.__init__ sees exactly the keywords given
        def wrapped(self, *args, **kwargs):
            return self.function(*args, **kwargs) + self.add
    x = and_add(and_add(f, add=3, x=1), add=4)
    if x.function is not f or x._kwargs != dict(add=4, x=1):
        bad.append('and_add(and_add(f, add=3, x=1), add=4) = %r, expected function f with parameters add=4, x=1' % (x,))
    for W in Ws:
        tried += 1
        if W(W(f)).function is not f or W(W(f)) != W(f):
            bad.append('%s(%s(f)) wraps %r' % (W.__name__, W.__name__, W(W(f)).function))
        try:
            if list(W(f).fullargspec.args) != ['a', 'b'] or 'function' in W(W(f))._kwargs:
                bad.append('%s(f).fullargspec.args = %r, parameters %r' % (W.__name__, W(f).fullargspec.args, W(W(f))._kwargs))
        except Exception as e:      # noqa
            bad.append('%s(f).fullargspec raised %r' % (W.__name__, e))
        for V_ in Ws:
            if V_ is W:
                continue
            tried += 1
            v = V_(W(f))
            held = v.function
            x = W(v)
            inner = x.function
            if type(inner) is not V_ or inner.function is not f:
                bad.append('%s(%s(%s(f))) = %r' % (W.__name__, V_.__name__, W.__name__, x))
            if v.function is not held or type(held) is not W or held.function is not f:
                bad.append('%s(v) with v = %s(%s(f)) changed its argument v to %r' % (W.__name__, V_.__name__, W.__name__, v))
    return dict(fails=bool(bad), detail='; '.join(bad[:3]) or '%d rebuilt re-wrapping cases agree with the oracle' % tried)


def replay(call):
    kind = call.get('kind')
    fn = dict(cache=replay_cache, try_value=replay_try_value, try_back=replay_try_back, kwargs_support=replay_kwargs_support, wrapper=replay_wrapper).get(kind)
    if fn is None:
        return dict(fails=None, detail='no replay for kind %r' % kind)
    return fn(call)
