"""Replay of failed deductive obligations of C01 on the real code.  Frame obligations: the method is called on sample tables and the
receiver (and operands) are compared, cell by cell and column object by column object, before and after the call."""
import copy


def _snap(d):
    return {k: list(v) for k, v in dict(d).items()}


CALLS = {
    'if_none': [lambda d: d.if_none(a=0), lambda d: d.if_none(0, b=lambda a: a), lambda d: d.if_none(c=5)],
    'do': [lambda d: d.do(str, 'a'), lambda d: d.do([str, len], 'b')],
    'sort': [lambda d: d.sort('a'), lambda d: d.sort(lambda b: -b)],
    'inc': [lambda d: d.inc(b=2), lambda d: d.inc(lambda b: b > 1)],
    'exc': [lambda d: d.exc(b=2), lambda d: d.exc(lambda b: b > 1)],
    'get': [lambda d: d.get('a'), lambda d: d.get('zz', 0)],
    'apply': [lambda d: d.apply(lambda b: b + 1)],
    '__add__': [lambda d: d + d, lambda d: d + dict(a=9, b=9)],
    'concat': [lambda d: d.concat(d, d)],
    '__getitem__': [lambda d: d[0], lambda d: d[:1], lambda d: d[[True, False, True]], lambda d: d[['a']], lambda d: d[[0, 2]]],
    '__iter__': [lambda d: list(d)],
    '__len__': [lambda d: len(d)],
    'relabel': [lambda d: d.relabel(a='x')],
    '__call__': [lambda d: d(c=lambda b: b * 2)],
}


def replay(call):
    from pyg_base import dictable
    if call.get('kind') != 'frame':
        return dict(fails=None, detail='no replay for kind %r' % call.get('kind'))
    parts = call['name'].split('.')
    meth = parts[1] if parts[0] in ('dictable', 'Dict', 'dictattr') and len(parts) > 1 else None
    if meth not in CALLS:
        return dict(fails=None, detail='no native frame probe for %s' % call['name'])
    for k, f in enumerate(CALLS[meth]):
        d = dictable(a=[1, None, 3], b=[1, 2, 3])
        before, cols = _snap(d), {c: id(v) for c, v in dict(d).items()}
        try:
            r = f(d)
        except Exception as e:      # noqa
            continue
        after = _snap(d)
        if after != before or {c: id(v) for c, v in dict(d).items()} != cols:
            return dict(fails=True, detail='dictable(a=[1,None,3], b=[1,2,3]).%s (probe #%d) changed its receiver from %s to %s%s' % (
                meth, k, before, after, '; the result is the receiver itself' if r is d else ''))
    return dict(fails=False, detail='%d native probes of %s left the receiver unchanged' % (len(CALLS[meth]), meth))
