"""Replay of failed deductive obligations of C01 on the real code.  Frame obligations: the method is called on sample tables and the
receiver (and operands) are compared, cell by cell and column object by column object, before and after the call.  Rows + headers
constructor and integer-list selection: fixed native batteries of the clause family (all small shapes), oracle = the list of rows."""
import copy
import itertools


def _snap(d):
    return {k: list(v) for k, v in dict(d).items()}


CALLS = {
    'if_none': [lambda d: d.if_none(a=0), lambda d: d.if_none(0, b=lambda a: a), lambda d: d.if_none(c=5)],
    'do': [lambda d: d.do(str, 'a'), lambda d: d.do([str, len], 'b')],
    'sort': [lambda d: d.sort('a'), lambda d: d.sort(lambda b: -b)],
    'inc': [lambda d: d.inc(b=2), lambda d: d.inc(lambda b: b > 1)],
    'exc': [lambda d: d.exc(b=2), lambda d: d.exc(lambda b: b > 1)],
    'get': [lambda d: d.get('a'), lambda d: d.get('zz', 0)],
    'apply': [lambda d: d.apply(lambda b: b + 1)],
    '__add__': [lambda d: d + d, lambda d: d + dict(a=9, b=9)],
    'concat': [lambda d: d.concat(d, d)],
    '__getitem__': [lambda d: d[0], lambda d: d[:1], lambda d: d[[True, False, True]], lambda d: d[['a']], lambda d: d[[0, 2]]],
    '__iter__': [lambda d: list(d)],
    '__len__': [lambda d: len(d)],
    'relabel': [lambda d: d.relabel(a='x')],
    '__call__': [lambda d: d(c=lambda b: b * 2)],
}


def _cols(d):
    return {k: list(v) for k, v in dict(d).items()}


def rows_headers_battery():
    """dictable(rows, names) for n = 0..3 rows of m = 0..3 cells, names as a list / as dict_keys: exactly the named columns, column p lists row[i][p]"""
    from pyg_base import dictable
    names_all = ['a', 'b', 'c']
    count = 0
    for n in range(4):
        for m in range(4):
            rows = [tuple(10 * i + p if (i + p) % 3 else None for p in range(m)) for i in range(n)]
            names = names_all[:m]
            for how, cols in (('list', list(names)), ('dict_keys', dict.fromkeys(names).keys())):
                count += 1
                what = 'dictable(%r, %s %r)' % (rows, how, names)
                try:
                    d = dictable([tuple(r) for r in rows], cols)
                except Exception as e:      # noqa
                    return dict(fails=True, detail='%s raised %s: %s' % (what, type(e).__name__, str(e)[:120]))
                got = _cols(d)
                want = {names[p]: [rows[i][p] for i in range(n)] for p in range(m)}
                if got != want or list(got) != list(want):
                    return dict(fails=True, detail='%s has the columns %r, expected %r (column p lists row[i][p])' % (what, got, want))
    return dict(fails=False, detail='%d native constructions from rows + headers agree with the list of rows' % count)


def getitem_ints_battery():
    """d[list of ints] on tables with 0..3 rows and 0..2 columns, index lists of length 1..3 over -4..4: IndexError iff some index is outside
    -len(d) .. len(d)-1, else all columns, row j = row item[j] (negative from the end), receiver unchanged"""
    from pyg_base import dictable
    count = 0
    for ncols in (0, 1, 2):
        for n in range(4):
            if ncols == 0 and n > 0:
                continue
            base = {c: [10 * i + k if (i + k) % 3 else None for i in range(n)] for k, c in enumerate('ab'[:ncols])}
            for L in (1, 2, 3):
                pool = range(-4, 5) if L < 3 else (-n - 1, -1, 0, n - 1, n)
                for item in itertools.product(pool, repeat=L):
                    item = list(item)
                    count += 1
                    d = dictable(**{c: list(v) for c, v in base.items()}) if ncols else dictable()
                    before, ids = _cols(d), {c: id(v) for c, v in dict(d).items()}
                    what = 'dictable(%r)[%r]' % (base, item)
                    ok_idx = all(-n <= i < n for i in item)
                    try:
                        r = d[item]
                    except IndexError:
                        if ok_idx:
                            return dict(fails=True, detail='%s raised IndexError although every index is within -%d .. %d' % (what, n, n - 1))
                        r = None
                    except Exception as e:      # noqa
                        return dict(fails=True, detail='%s raised %s: %s' % (what, type(e).__name__, str(e)[:120]))
                    else:
                        if not ok_idx:
                            return dict(fails=True, detail='%s returned %r although an index is outside -%d .. %d (IndexError expected)' % (what, _cols(r), n, n - 1))
                        want = {c: [v[i] for i in item] for c, v in base.items()}
                        if _cols(r) != want or list(_cols(r)) != list(want) or len(r) != len(item):
                            return dict(fails=True, detail='%s is %r, expected %r (row j = row item[j] of the receiver)' % (what, _cols(r), want))
                    if _cols(d) != before or {c: id(v) for c, v in dict(d).items()} != ids:
                        return dict(fails=True, detail='%s changed its receiver from %r to %r' % (what, before, _cols(d)))
    return dict(fails=False, detail='%d native integer-list selections agree with the list of rows' % count)


def record_battery():
    """dictable(one record) over cells None / scalar / lists of length 0..3, two or three keys: ValueError iff two cells have lengths other than 1 that
    differ; else the keys as columns, all of the common length, a cell of that length as it is, a cell of length 1 repeated"""
    from pyg_base import dictable, Dict
    cells = [None, 5, [], [1], [1, 2], [7, 8], [1, None, 3]]
    count = 0
    for nk in (1, 2, 3):
        for combo in itertools.product(cells, repeat=nk):
            for make in (dict, Dict):
                rec = make(zip('abc', [list(c) if isinstance(c, list) else c for c in combo]))
                count += 1
                what = 'dictable(%s(%r))' % (make.__name__, dict(rec))
                col = lambda c: list(c) if isinstance(c, list) else [c]
                lens_ = {len(col(c)) for c in combo} - {1}
                try:
                    d = dictable(rec)
                except ValueError:
                    if len(lens_) <= 1:
                        return dict(fails=True, detail='%s raised ValueError although the list cells have one length' % what)
                    continue
                except Exception as e:      # noqa
                    return dict(fails=True, detail='%s raised %s: %s' % (what, type(e).__name__, str(e)[:120]))
                if len(lens_) > 1:
                    return dict(fails=True, detail='%s returned %r although two list cells differ in length (ValueError expected)' % (what, _cols(d)))
                n = list(lens_)[0] if lens_ else 1
                want = {k: (col(c) if len(col(c)) == n else col(c) * n) for k, c in zip('abc', combo)}
                if _cols(d) != want or len(d) != n:
                    return dict(fails=True, detail='%s has the columns %r, expected %r' % (what, _cols(d), want))
    return dict(fails=False, detail='%d native constructions from one record agree with the broadcast model' % count)


def replay(call):
    from pyg_base import dictable
    if call.get('kind') == 'record':
        return record_battery()
    if call.get('kind') == 'rows_headers':
        return rows_headers_battery()
    if call.get('kind') == 'getitem_ints':
        return getitem_ints_battery()
    if call.get('kind') != 'frame':
        return dict(fails=None, detail='no replay for kind %r' % call.get('kind'))
    parts = call['name'].split('.')
    meth = parts[1] if parts[0] in ('dictable', 'Dict', 'dictattr') and len(parts) > 1 else None
    if meth not in CALLS:
        return dict(fails=None, detail='no native frame probe for %s' % call['name'])
    for k, f in enumerate(CALLS[meth]):
        d = dictable(a=[1, None, 3], b=[1, 2, 3])
        before, cols = _snap(d), {c: id(v) for c, v in dict(d).items()}
        try:
            r = f(d)
        except Exception as e:      # noqa
            continue
        after = _snap(d)
        if after != before or {c: id(v) for c, v in dict(d).items()} != cols:
            return dict(fails=True, detail='dictable(a=[1,None,3], b=[1,2,3]).%s (probe #%d) changed its receiver from %s to %s%s' % (
                meth, k, before, after, '; the result is the receiver itself' if r is d else ''))
    return dict(fails=False, detail='%d native probes of %s left the receiver unchanged' % (len(CALLS[meth]), meth))
