"""Replay of failed deductive obligations of C11 on the real code: fixed native batteries per clause family (all small shapes), the oracle being the
plain list-of-records reading of the statement.  Other kinds are handed to the bounded module's replay."""
import itertools


def _cols(d):
    return {k: list(v) for k, v in dict(d).items()}


def _as_col(cell):
    return list(cell) if isinstance(cell, list) else [cell]


def unlist_oracle(columns, n):
    """columns: name -> list of n cells (None, scalars, lists).  Returns 'ValueError' or the expected columns of unlist()"""
    out = {k: [] for k in columns}
    for r in range(n):
        cells = {k: _as_col(columns[k][r]) for k in columns}
        lens_ = {len(c) for c in cells.values()} - {1}
        if len(lens_) > 1:
            return 'ValueError'
        nr = list(lens_)[0] if lens_ else 1
        for k, c in cells.items():
            out[k] += c if len(c) == nr else c * nr
    return out


def unlist_battery():
    """d.unlist() on tables with 0..3 rows and one or two columns whose cells are None, a scalar or a list of 0..3 items: ValueError iff a row has two list
    cells of different lengths other than 1, else the rows expanded block by block (list cells item by item, other cells repeated)"""
    from pyg_base import dictable
    cells = [None, 5, [], [1], [1, 2], [7, 8], [1, None, 3]]
    count = 0
    for ncols in (1, 2):
        for n in range(4):
            pool = cells if n < 3 else cells[1:6]
            for combo in itertools.product(pool, repeat=n * ncols):
                columns = {c: [list(x) if isinstance(x, list) else x for x in combo[k * n:(k + 1) * n]] for k, c in enumerate('ab'[:ncols])}
                count += 1
                what = 'dictable(%r).unlist()' % (columns,)
                try:
                    d = dictable(**{c: list(v) for c, v in columns.items()})
                except Exception:       # noqa
                    continue
                if len(d) != n:
                    continue
                want = unlist_oracle(columns, n) if n else columns
                try:
                    r = d.unlist()
                except ValueError:
                    if want != 'ValueError':
                        return dict(fails=True, detail='%s raised ValueError although no row has list cells of different lengths' % what)
                    continue
                except Exception as e:      # noqa
                    return dict(fails=True, detail='%s raised %s: %s' % (what, type(e).__name__, str(e)[:120]))
                if want == 'ValueError':
                    return dict(fails=True, detail='%s returned %r although a row has list cells of different lengths (ValueError expected)' % (what, _cols(r)))
                if _cols(r) != want:
                    return dict(fails=True, detail='%s is %r, expected %r (rows expanded block by block)' % (what, _cols(r), want))
                if n == 0 and r is not d:
                    return dict(fails=True, detail='%s on a table without rows is not the table itself' % what)
    return dict(fails=False, detail='%d native unlist calls agree with the block-by-block expansion' % count)


def replay(call):
    if call.get('kind') == 'unlist':
        return unlist_battery()
    from rac import C11
    return C11.replay(call)
