"""C18 bounded stand-in: decorators are transparent (same result, same signature, no double wrapping), getcallargs agrees
with inspect.getcallargs, cache evaluates once per distinct argument combination, try_* return the fallback exactly when f
raises, kwargs_support ignores exactly the undeclared keywords.

Functions are generated from their signature shape (n positional parameters a,b,c,d; nd trailing defaults; *args; **kw) and echo
everything they were bound to; argument values are distinct opaque strings.  The reference for "what f returns" is a direct call
of the undecorated f, the reference for binding is the standard library's inspect.getcallargs."""
import inspect, itertools, random, reprlib
from rac.common import Collector

NAMES = ['a', 'b', 'c', 'd']
K_D8 = 'C18:kwargs_support:varkw-drops-undeclared'
K_PD2NP = 'C18:transparent:pd2np:first-parameter-not-passed'
_BOOM = [False]


def _boom():
    if _BOOM[0]:
        raise ZeroDivisionError('boom')
    return 0


_FN = {}


def make_f(n, nd, va, vk, raising=False):
    key = (n, nd, va, vk, raising)
    if key not in _FN:
        params = [NAMES[i] + ('="D%s"' % NAMES[i] if i >= n - nd else '') for i in range(n)]
        if va:
            params.append('*args')
        if vk:
            params.append('**kw')
        body = NAMES[:n] + (['args'] if va else []) + (['tuple(sorted(kw.items()))'] if vk else [])
        src = 'lambda %s: [%s%s]' % (', '.join(params), '_boom(), ' if raising else '"f", ', ', '.join(body))
        _FN[key] = (eval(src, dict(_boom=_boom)), src)
    return _FN[key]


def shapes():
    for n in range(0, 5):
        for nd in range(0, n + 1):
            for va in (0, 1):
                for vk in (0, 1):
                    yield n, nd, va, vk


def valid_calls(n, nd, va, vk):
    """every way of splitting a valid argument set between positional and keyword passing:
    p positional values (up to 2 beyond the named parameters when *args exists), the remaining required parameters by keyword,
    every subset of the remaining optional ones by keyword, and 0..2 undeclared keywords when **kw exists"""
    f, _ = make_f(n, nd, va, vk)
    for p in range(0, n + (3 if va else 1)):
        rest = NAMES[min(p, n):n]
        req = [x for x in rest if NAMES.index(x) < n - nd]
        opt = [x for x in rest if x not in req]
        for r in range(len(opt) + 1):
            for sub in itertools.combinations(opt, r):
                # undeclared keywords (into **kw): plain names, and names spelled like the function's own *args / **kw parameters
                for extra in (((), ('z',), ('y', 'z'), ('args',), ('kw', 'z')) if vk else ((),)):
                    kwnames = list(req) + list(sub) + list(extra)
                    for order in ((kwnames, kwnames[::-1]) if len(kwnames) > 1 else (kwnames,)):
                        pos = tuple('p%d' % i for i in range(p))
                        kw = {k: 'k_' + k for k in order}
                        try:
                            inspect.getcallargs(f, *pos, **kw)
                        except TypeError:
                            continue
                        yield p, list(order)


def decorators():
    from pyg_base import try_none, try_zero, try_back, kwargs_support, loop
    from pyg_base._cache import cache_func
    from pyg_base._loop import pd2np
    return dict(try_none=try_none, try_zero=try_zero, try_back=try_back, kwargs_support=kwargs_support, cache=cache_func, loops=loop(list, tuple, dict), pd2np=pd2np)


SPEC_FIELDS = ['args', 'varargs', 'varkw', 'defaults', 'kwonlyargs', 'kwonlydefaults']


def spec_of(x):
    from pyg_base import getargspec
    s = getargspec(x)
    get = (lambda k: s[k]) if isinstance(s, dict) else (lambda k: getattr(s, k))
    return {k: (get(k) or None) if k in ('kwonlydefaults',) else get(k) for k in SPEC_FIELDS}


def _args(p, kwnames):
    return tuple('p%d' % i for i in range(p)), {k: 'k_' + k for k in kwnames}


def check_binding(c, shape, p, kwnames):
    from pyg_base import getcallargs, call_with_callargs
    f, src = make_f(*shape)
    pos, kw = _args(p, kwnames)
    call = dict(kind='binding', shape=list(shape), p=p, kwnames=kwnames)
    txt = 'f = %s; call (*%r, **%r)' % (src, pos, kw)
    exp = inspect.getcallargs(f, *pos, **kw)
    try:
        got = getcallargs(f, *pos, **kw)
        c.check(got == exp, 'C18:getcallargs', '%s: getcallargs = %r, inspect.getcallargs = %r' % (txt, got, exp), call)
        r = call_with_callargs(f, got)
        c.check(r == f(*pos, **kw), 'C18:call_with_callargs', '%s: call_with_callargs(f, getcallargs(...)) = %r, f(...) = %r' % (txt, r, f(*pos, **kw)), call)
    except Exception as e:      # noqa
        c.check(False, 'C18:getcallargs:raises', '%s: raised %r' % (txt, e), call)


def _first_passed(shape, p, kwnames):
    n = shape[0]
    return p > 0 or (n > 0 and NAMES[0] in kwnames)


def check_transparent(c, wname, shape, p, kwnames):
    W = decorators()[wname]
    n, nd, va, vk = shape
    f, src = make_f(*shape)
    pos, kw = _args(p, kwnames)
    call = dict(kind='transparent', W=wname, shape=list(shape), p=p, kwnames=kwnames)
    txt = 'f = %s; %s(f)(*%r, **%r)' % (src, wname, pos, kw)
    exp = f(*pos, **kw)
    key = 'C18:transparent:%s' % wname
    if wname == 'kwargs_support' and vk and any(k not in NAMES[:n] for k in kwnames):
        key = K_D8               # f declares **kw and the call passes a keyword that f does not name
    if wname == 'pd2np' and not _first_passed(shape, p, kwnames):
        key = K_PD2NP            # the first parameter is left to its default / f has no named parameter / only **kw are passed
    try:
        w = W(f)
        got = w(*pos, **dict(kw))
        c.check(got == exp, key, '%s = %r, f(...) = %r' % (txt, got, exp), call)
        if wname == 'cache':
            c.check(w(*pos, **dict(kw)) == exp, key, '%s second call differs from f(...) = %r' % (txt, exp), call)
    except Exception as e:      # noqa
        c.check(False, key if key in (K_D8, K_PD2NP) else key + ':raises', '%s raised %r, f(...) = %r' % (txt, e, exp), call)


def check_fallback(c, wname, shape, p, kwnames):
    """try_* wrappers return their fallback exactly when f raises (the non-raising side is check_transparent: f never returns None / 0)"""
    import pyg_base as pb
    W = decorators()[wname] if wname in decorators() else getattr(pb, wname)
    g, src = make_f(*shape, raising=True)
    pos, kw = _args(p, kwnames)
    call = dict(kind='fallback', W=wname, shape=list(shape), p=p, kwnames=kwnames)
    if wname == 'try_back':
        if not _first_passed(shape, p, kwnames):
            return                    # the fallback of try_back is the first argument of the call: undefined when none is passed
        exp = pos[0] if p > 0 else kw[NAMES[0]]
    else:
        exp = dict(try_none=None, try_zero=0, try_nan=float('nan'), try_true=True, try_false=False, try_list=[])[wname]
    txt = 'f = %s raising ZeroDivisionError; %s(f)(*%r, **%r)' % (src, wname, pos, kw)
    _BOOM[0] = True
    try:
        got = W(g)(*pos, **dict(kw))
        c.check(got is exp or (exp is not None and _same_fallback(got, exp)), 'C18:try:fallback:%s' % wname, '%s = %r, expected the fallback %r' % (txt, got, exp), call)
    except Exception as e:      # noqa
        c.check(False, 'C18:try:fallback:%s' % wname, '%s raised %r instead of returning the fallback %r' % (txt, e, exp), call)
    finally:
        _BOOM[0] = False


def check_kwargs_support_extra(c, shape, p, kwnames, extras):
    """f without **kw: kwargs_support(f) ignores exactly the keywords f does not declare"""
    from pyg_base import kwargs_support
    f, src = make_f(*shape)
    pos, kw = _args(p, kwnames)
    call = dict(kind='ks_extra', shape=list(shape), p=p, kwnames=kwnames, extras=extras)
    exp = f(*pos, **kw)
    kw2 = dict(kw)
    kw2.update({k: 'x_' + k for k in extras})
    txt = 'f = %s; kwargs_support(f)(*%r, **%r)' % (src, pos, kw2)
    try:
        got = kwargs_support(f)(*pos, **kw2)
        c.check(got == exp, 'C18:kwargs_support:ignores-undeclared', '%s = %r, expected f(*%r, **%r) = %r' % (txt, got, pos, kw, exp), call)
    except Exception as e:      # noqa
        c.check(False, 'C18:kwargs_support:ignores-undeclared', '%s raised %r' % (txt, e), call)


def check_argspec(c, wname, shape):
    W = decorators()[wname]
    f, src = make_f(*shape)
    call = dict(kind='argspec', W=wname, shape=list(shape))
    try:
        exp, got = spec_of(f), spec_of(W(f))
        c.check(got == exp, 'C18:argspec:%s' % wname, 'f = %s; getargspec(%s(f)) = %r, f has %r' % (src, wname, got, exp), call)
    except Exception as e:      # noqa
        c.check(False, 'C18:argspec:%s' % wname, 'f = %s; getargspec(%s(f)) raised %r' % (src, wname, e), call)


def normal_form(stack):
    """outermost first. an inner occurrence of a decorator that also occurs further out is dropped"""
    out = []
    for w in stack:
        if w not in out:
            out.append(w)
    return out


def wrap(stack, f):
    D = decorators()
    for w in reversed(stack):
        f = D[w](f)
    return f


def check_stack(c, stack, shape, p, kwnames):
    f, src = make_f(*shape)
    call = dict(kind='stack', stack=list(stack), shape=list(shape), p=p, kwnames=kwnames)
    nf = normal_form(stack)
    txt = 'f = %s; %s' % (src, '('.join(stack) + '(f' + ')' * len(stack))
    try:
        lhs, rhs = wrap(stack, f), wrap(nf, f)
        c.check(lhs == rhs, 'C18:double-wrap', '%s is not equal to %s' % (txt, '('.join(nf) + '(f' + ')' * len(nf)), call)
        c.check(spec_of(lhs) == spec_of(f), 'C18:argspec:stack', '%s reports %r, f has %r' % (txt, spec_of(lhs), spec_of(f)), call)
        pos, kw = _args(p, kwnames)
        try:
            e = ('ok', rhs(*pos, **dict(kw)))
        except Exception as ex:      # noqa
            e = ('raise', type(ex).__name__)
        try:
            g = ('ok', lhs(*pos, **dict(kw)))
        except Exception as ex:      # noqa
            g = ('raise', type(ex).__name__)
        c.check(g == e, 'C18:double-wrap:behaviour', '%s(*%r, **%r) -> %r but wrapping once -> %r' % (txt, pos, kw, g, e), call)
        # a decorator that *extends* the signature (argspec_add; perdictable adds expiry / data) stacked on top and inspected:
        # the wrapped function underneath still reports f's specification
        import pyg_base as _pb
        before = spec_of(lhs)
        ext = _pb.argspec_add(_pb.getargspec(lhs), zz_extra=None)
        c.check('zz_extra' in list(ext.args) and spec_of(lhs) == before == spec_of(f), 'C18:argspec:stack:after-argspec_add',
                '%s reports %r after argspec_add(getargspec(.), zz_extra=None), f has %r' % (txt, spec_of(lhs), spec_of(f)), call)
        top = _pb.perdictable(lhs, on='key')
        _pb.getargs(top)
        c.check(spec_of(lhs) == before == spec_of(f), 'C18:argspec:stack:after-extending-decorator',
                '%s reports %r after perdictable(.) was stacked on it and inspected, f has %r' % (txt, spec_of(lhs), spec_of(f)), call)
    except Exception as e:      # noqa
        c.check(False, 'C18:double-wrap:raises', '%s raised %r' % (txt, e), call)


# ----------------------------------------------------------------------------------------------- cache histories
def _j2arg(j):
    """JSON -> argument value: ['L', ...] list, ['T', ...] tuple, ['S', ...] set, ['D', [[k, v], ...]] dict, anything else itself"""
    if isinstance(j, list):
        tag, rest = j[0], j[1:]
        if tag == 'L':
            return [_j2arg(i) for i in rest]
        if tag == 'T':
            return tuple(_j2arg(i) for i in rest)
        if tag == 'S':
            return set(_j2arg(i) for i in rest)
        if tag == 'D':
            return {k: _j2arg(v) for k, v in rest[0]}
    return j


CACHE_CALLS = [([1], {}),
               ([1, 1], {}),
               ([1], {'b': 1}),
               ([['L', 1, 2]], {}),
               ([['T', 1, 2]], {}),
               ([1], {'x': ['D', [['k', ['L', 1]]]]}),
               ([1], {'x': ['D', [['k', ['L', 2]]]]}),
               ([['S', 1, 2]], {}),
               ([1, 2, 3], {'z': 4}),
               ([['D', [['k', 1]]]], {}),
               ([['T', ['T', 'k', 1]]], {}),
               (['s'], {'x': ['L', ['L', 1], ['D', [['q', None]]]]})]
TWINS = {3: 4, 4: 3, 9: 10, 10: 9}      # list vs tuple of the same elements; dict vs tuple of its items
SET_CALLS = {7}


def hash_twins():
    """pairs of values that are NOT == but have equal hash() on this interpreter: -1 / -2 (hash(-1) is -2 in CPython), x / x + P for the
    hash modulus P (ints are hashed mod P), inf / sys.hash_info.inf.  Pairs that do not collide here are dropped.  Values that are == to
    each other (1, 1.0, True) are deliberately absent: those legitimately share a dictionary key."""
    import sys
    P = sys.hash_info.modulus
    cands = [(-1, -2), (0, P), (5, 5 + P), (float('inf'), sys.hash_info.inf), (-2, -1.0 - P)]
    return [(x, y) for x, y in cands if x != y and hash(x) == hash(y)]


def hash_calls():
    """the call universe for hash-equal arguments: every twin pair in every argument position of g(a, b=1, *args, **kw) - positional,
    by keyword, as the default-carrying parameter, in *args, in **kw, inside a tuple / list / dict argument; twin calls are adjacent
    (2i, 2i+1).  JSON form as in CACHE_CALLS."""
    out = []
    x, y = -1, -2
    for mk in (lambda v: ([v], {}), lambda v: ([], {'a': v}), lambda v: ([1, v], {}), lambda v: ([1], {'b': v}), lambda v: ([1, 2, v], {}),
               lambda v: ([1], {'z': v}), lambda v: ([['T', 0, v]], {}), lambda v: ([['L', v]], {}), lambda v: ([1], {'x': ['D', [['k', v]]]}),
               lambda v: ([v, v], {})):
        out += [mk(x), mk(y)]
    for x, y in hash_twins()[1:]:
        out += [([x], {}), ([y], {}), ([1], {'b': x}), ([1], {'b': y})]
    return out


HASH_CALLS = hash_calls()
UNIVERSES = dict(main=CACHE_CALLS, hash=HASH_CALLS)


def check_cache_history(c, seq, universe='main'):
    """seq: indexes into CACHE_CALLS (universe 'main') or HASH_CALLS (universe 'hash'). f is pure and counts its evaluations."""
    if universe == 'hash':
        return check_cache_history_hash(c, seq)
    from pyg_base._cache import cache_func
    calls = []

    def g(a, b=1, *args, **kw):
        calls.append(1)
        return ['g', a, b, args, kw]
    cg = cache_func(g)
    seen = []
    call = dict(kind='cache', seq=list(seq))
    for step, i in enumerate(seq):
        pos, kw = [_j2arg(a) for a in CACHE_CALLS[i][0]], {k: _j2arg(v) for k, v in CACHE_CALLS[i][1].items()}
        combo = (tuple(pos), kw)
        first = not any(combo == s for s in seen)           # distinct "as passed": compared with ==, so [1, 2] and (1, 2) are different arguments
        seen.append(combo)
        cls = ':set-argument' if i in SET_CALLS else ':container-kind-twin' if TWINS.get(i) in seq[:step] else ''
        txt = 'cached g(a, b=1, *args, **kw), calls %r, at call #%d = g(*%r, **%r)' % ([CACHE_CALLS[j] for j in seq[:step + 1]], step, pos, kw)
        before = len(calls)
        try:
            r = cg(*pos, **kw)
        except Exception as e:      # noqa
            c.check(False, 'C18:cache:raises' + cls, '%s raised %r' % (txt, e), call)
            return
        c.check(len(calls) - before == (1 if first else 0), 'C18:cache:count' + cls,
                '%s: g evaluated %d time(s), expected %d (%s combination)' % (txt, len(calls) - before, 1 if first else 0, 'new' if first else 'repeated'), call)
        exp = ['g', pos[0], pos[1] if len(pos) > 1 else kw.get('b', 1), tuple(pos[2:]), {k: v for k, v in kw.items() if k != 'b'}]
        c.check(r == exp, 'C18:cache:value' + cls, '%s returned %r, g returns %r' % (txt, r, exp), call)


RESULT_KINDS = {'None': None, 'zero': 0, 'empty-string': '', 'empty-list': [], 'False': False, 'nan': float('nan'), 'tuple': (1, 2)}


def check_cache_results(c, rkind, seq):
    """a cached function whose result is None / falsy / NaN: seq is a history over the arguments {1, 2}; the function is evaluated once per
    distinct argument and the first result (the very object) is returned thereafter, whatever the result is"""
    from pyg_base._cache import cache_func
    calls, made = [], {}

    def g(a):
        calls.append(a)
        r = RESULT_KINDS[rkind]
        made.setdefault(a, r if not isinstance(r, list) else list(r))
        return made[a]
    cg = cache_func(g)
    call = dict(kind='cache_results', result=rkind, seq=list(seq))
    seen = set()
    for step, a in enumerate(seq):
        before = len(calls)
        txt = 'cached g returning %s, calls g(%s), at call #%d' % (rkind, '), g('.join(map(str, seq[:step + 1])), step)
        try:
            r = cg(a)
        except Exception as e:      # noqa
            c.check(False, 'C18:cache:raises:result-' + rkind, '%s raised %r' % (txt, e), call)
            return
        c.check(len(calls) - before == (0 if a in seen else 1), 'C18:cache:count:falsy-or-None-result',
                '%s: g evaluated %d time(s), expected %d' % (txt, len(calls) - before, 0 if a in seen else 1), call)
        c.check(a in made and r is made[a], 'C18:cache:value:falsy-or-None-result',
                '%s returned %r, %s' % (txt, r, 'the first result was %r' % (made[a],) if a in made else 'although g was never evaluated for this argument'), call)
        seen.add(a)


def _hkey(j):
    """a call of HASH_CALLS (JSON form) with every leaf replaced by its hash: equal for calls that differ only by hash-equal values"""
    if isinstance(j, (list, tuple)):
        return tuple(_hkey(i) for i in j)
    if isinstance(j, dict):
        return tuple(sorted((k, _hkey(v)) for k, v in j.items()))
    return j if isinstance(j, str) else hash(j)


def check_cache_history_hash(c, seq):
    """as check_cache_history over HASH_CALLS: a combination is new unless an == combination was passed before; a call that differs from
    an earlier one of the history only by hash-equal values belongs to the input class 'hash-equal-arguments'"""
    from pyg_base._cache import cache_func
    calls = []

    def g(a, b=1, *args, **kw):
        calls.append(1)
        return ['g', a, b, args, kw]
    cg = cache_func(g)
    seen = []
    call = dict(kind='cache', seq=list(seq), universe='hash')
    for step, i in enumerate(seq):
        pos, kw = [_j2arg(a) for a in HASH_CALLS[i][0]], {k: _j2arg(v) for k, v in HASH_CALLS[i][1].items()}
        combo = (tuple(pos), kw)
        first = not any(combo == s for s in seen)
        seen.append(combo)
        cls = ':hash-equal-arguments' if any(HASH_CALLS[j] != HASH_CALLS[i] and _hkey(HASH_CALLS[j]) == _hkey(HASH_CALLS[i]) for j in seq[:step]) else ''
        txt = 'cached g(a, b=1, *args, **kw), calls %r, at call #%d = g(*%r, **%r)' % ([HASH_CALLS[j] for j in seq[:step + 1]], step, pos, kw)
        before = len(calls)
        try:
            r = cg(*pos, **kw)
        except Exception as e:      # noqa
            c.check(False, 'C18:cache:raises' + cls, '%s raised %r' % (txt, e), call)
            return
        c.check(len(calls) - before == (1 if first else 0), 'C18:cache:count' + cls,
                '%s: g evaluated %d time(s), expected %d (%s combination)' % (txt, len(calls) - before, 1 if first else 0, 'new' if first else 'repeated'), call)
        ref = (lambda a, b=1, *args, **kw: ['g', a, b, args, kw])(*pos, **kw)
        c.check(r == ref, 'C18:cache:value' + cls, '%s returned %r, g returns %r' % (txt, r, ref), call)


# ----------------------------------------------------------------------------------------------- try_* over call sequences, mutable fallbacks
def _fallbacks():
    """name -> (factory of the decorator, the configured fallback as a fresh value, top-level mutation applied by the caller)"""
    import pyg_base as pb
    nan = float('nan')
    return dict(try_list=(lambda: pb.try_list, lambda: [], lambda r: r.extend(['added by the caller', 1])),
                value_list=(lambda: pb.try_value(value=[1, 2]), lambda: [1, 2], lambda r: r.append(3)),
                value_list_clear=(lambda: pb.try_value(value=[1, 2]), lambda: [1, 2], lambda r: r.clear()),
                value_dict=(lambda: pb.try_value(value={'status': 'missing'}), lambda: {'status': 'missing'}, lambda r: r.update(status='patched', extra=1)),
                value_set=(lambda: pb.try_value(value={1, 2}), lambda: {1, 2}, lambda r: r.add(3)),
                try_nan=(lambda: pb.try_nan, lambda: nan, None), try_true=(lambda: pb.try_true, lambda: True, None), try_false=(lambda: pb.try_false, lambda: False, None),
                try_zero=(lambda: pb.try_zero, lambda: 0, None), try_none=(lambda: pb.try_none, lambda: None, None),
                value_str=(lambda: pb.try_value(value='fallback'), lambda: 'fallback', None), value_tuple=(lambda: pb.try_value(value=(1, [2])), lambda: (1, [2]), None))


def _same_fallback(got, exp):
    if isinstance(exp, float) and exp != exp:
        return isinstance(got, float) and got != got
    return type(got) is type(exp) and got == exp


STEPS = ['ok', 'fail', 'fail+mutate', 'fail-other-f', 'fail-other-f+mutate']


def check_try_sequence(c, wname, seq):
    """seq: a history of calls on wrappers built from ONE decorator instance: 'ok' f succeeds, 'fail' f raises, '+mutate' the caller then
    changes the value it was handed in place (top level), 'other-f' the call goes to a second function wrapped by the same decorator.
    Every failing call must return a value equal to the configured fallback, every succeeding call f's value."""
    mk, fresh, mutate = _fallbacks()[wname]
    call = dict(kind='try_seq', W=wname, seq=list(seq))
    W = mk()
    first = lambda a, b=0: a[b]                  # noqa  raises on a non-subscriptable a
    other = lambda a, b=0: a / b                 # noqa  raises ZeroDivisionError / TypeError
    try:
        w1, w2 = W(first), W(other)
    except Exception as e:      # noqa
        return c.check(False, 'C18:try:sequence:raises', '%s: wrapping raised %r' % (wname, e), call)
    cls = ':mutable-fallback' if mutate is not None else ''
    done = []
    for step, what in enumerate(seq):
        done.append(what)
        txt = '%s, call history %r' % (wname, done)
        try:
            if what == 'ok':
                got = w1('xyz', step % 3)
                c.check(got == 'xyz'[step % 3], 'C18:try:sequence:transparent' + cls, '%s: the succeeding call returned %r, f returns %r' % (txt, got, 'xyz'[step % 3]), call)
                continue
            got = (w2(step, 0) if 'other-f' in what else w1(5, b=step))
        except Exception as e:      # noqa
            return c.check(False, 'C18:try:sequence:raises' + cls, '%s raised %r' % (txt, e), call)
        if not c.check(_same_fallback(got, fresh()), 'C18:try:sequence:fallback' + cls, '%s: the failing call returned %s, the configured fallback is %r' % (txt, reprlib.repr(got), fresh()), call):
            return False
        if 'mutate' in what and mutate is not None:
            mutate(got)
    return True


# ----------------------------------------------------------------------------------------------- driver
def _sampler(limit=2):
    """-> take(category, sample, when=True): the sample for the first `limit` cases of a category that satisfy `when`, else None"""
    counts = {}

    def take(cat, d, when=True):
        if when and counts.get(cat, 0) < limit:
            counts[cat] = counts.get(cat, 0) + 1
            return d
        return None
    return take


SIBLING_SHAPES = ['a, b=d', 'a=d', 'a, b=d, *args', 'a, b=d, **kw', 'a, *args, b=d', 'a, b=1, c=d']


def make_siblings(sig, k=3):
    """k functions made by ONE def inside a factory: the same code object, different default values and a different closure each"""
    names = [x.strip().split('=')[0].lstrip('*') for x in sig.split(',')]
    src = 'def factory(d, tag):\n    def f(%s):\n        return [tag, %s]\n    return f\n' % (sig, ', '.join(names))
    ns = {}
    exec(src, ns)
    return [ns['factory']('D%d' % i, 'f%d' % i) for i in range(k)], src


def check_siblings(c, wname, sig):
    """functions sharing a code object are different functions: argument specification, binding and every wrapper follow the function at hand,
    not the first sibling seen (anything remembered per code object / per source line is wrong for them)"""
    from pyg_base import getcallargs, getargspec
    fs, src = make_siblings(sig)
    call = dict(kind='siblings', W=wname, sig=sig)
    W = decorators()[wname] if wname != 'none' else (lambda f: f)
    key = 'C18:siblings:%s' % wname
    for i, f in enumerate(fs):
        txt = 'sibling %d of `def f(%s)` made by one factory (d = "D%d")' % (i, sig, i)
        try:
            exp_spec = inspect.getfullargspec(f)
            got = spec_of(f)
            c.check(got == {k: getattr(exp_spec, k) for k in SPEC_FIELDS}, 'C18:siblings:getargspec', '%s: getargspec gives %r, inspect %r' % (txt, got, exp_spec), call)
            exp = inspect.getcallargs(f, 'p')
            got = getcallargs(f, 'p')
            c.check(got == exp, 'C18:siblings:getcallargs', '%s: getcallargs(f, "p") = %r, inspect.getcallargs %r' % (txt, got, exp), call)
            w = W(f)
            c.check(w('p') == f('p'), key, '%s: %s(f)("p") = %r, f("p") = %r' % (txt, wname, w('p'), f('p')), call)
            if wname != 'none':
                ws = spec_of(w)
                c.check(ws['args'] == list(exp_spec.args) and ws['defaults'] == exp_spec.defaults, key + ':argspec', '%s: %s(f) reports %r, f has %r' % (txt, wname, ws, exp_spec), call)
        except Exception as e:      # noqa
            c.check(False, key + ':raises', '%s raised %r' % (txt, e), call)


def run(tier, seed):
    rng = random.Random(seed)
    quick = tier == 'quick'
    wnames = list(decorators())
    c = Collector('C18', rule='every signature shape (0-4 positional parameters x 0..n trailing defaults x *args x **kw = 60 functions echoing their bound arguments); every valid call: p positional '
                  'values (up to 2 into *args), remaining required parameters by keyword, every subset of the remaining optional ones by keyword (two keyword orders), 0-2 undeclared keywords (also ones spelled like the *args / **kw parameters) '
                  'into **kw; per call: getcallargs vs inspect.getcallargs, call_with_callargs round trip, W(f)(call) == f(call) for W in try_none, try_zero, try_back, kwargs_support, cache, '
                  'loop(list,tuple,dict), pd2np (argument values are opaque strings: non-container, non-pandas), fallback of try_* on a raising twin of f, kwargs_support with 1-2 extra '
                  'keywords on functions without **kw; per shape: getargspec(W(f)) vs f, every stack of <= 3 decorators against its normal form (inner duplicates removed) by ==, argspec '
                  'and behaviour; cache: every call history of length <= %d over 12 argument combinations (hashable, list/tuple twins, dict, nested, set, *args/**kw); every history of '
                  'length 2 (and 3: %s) over %d combinations built from values that are not == but hash-equal on this interpreter (-1/-2, x/x+hash modulus, inf/hash_info.inf) in '
                  'every argument position (positional, keyword, default-carrying, *args, **kw, inside tuple/list/dict). try_*: the fallback of try_none/zero/nan/true/false/list/back '
                  'on every call of a raising twin; every call history of length <= %d over {f succeeds, f raises, f raises and the caller mutates the returned value in place, '
                  'the same on a second function wrapped by the same decorator} for mutable fallbacks (try_list, value=[..], {..}, set) and {succeeds, raises} for immutable ones. '
                  'Cached functions returning None / 0 / "" / [] / False / NaN / a tuple: every call history of length <= 4 over two arguments (one evaluation per argument, the first result object thereafter). '
                  'Sibling functions (three functions made by one def in a factory - one code object, different defaults and closures - over 6 signatures): getargspec, getcallargs and every wrapper '
                  'follow the function at hand. A case is non-trivial when the call passes at least one argument; distinct by (shape, call, decorator)'
                  % (3 if quick else 4, 'those holding a twin pair' if quick else 'all', len(HASH_CALLS), 4 if quick else 5),
                  exhaustive=True, scope='60 signature shapes x all positional/keyword splits x 7 decorators; all stacks <= 3; all cache histories <= %d over 12 calls; hash-equal argument histories <= 2 (3 with a twin pair%s) over %d calls; try_* call histories <= %d' % (3 if quick else 4, '' if quick else ' or without', len(HASH_CALLS), 4 if quick else 5))
    take = _sampler(3)
    for sig in SIBLING_SHAPES:
        for w in ['none'] + wnames:
            check_siblings(c, w, sig)
            c.case(('siblings', w, sig), nontrivial=True, sample=take('siblings', dict(decorator=w, signature=sig), w == 'cache'))
    for shape in shapes():
        calls = list(valid_calls(*shape))
        n, nd, va, vk = shape
        for p, kwnames in calls:
            check_binding(c, shape, p, kwnames)
            c.case(('bind', shape, p, tuple(kwnames)), nontrivial=p + len(kwnames) > 0, sample=take('bind', dict(f=make_f(*shape)[1], positional=p, keywords=kwnames), n == 3 and p == 1 and len(kwnames) > 1))
            for w in wnames:
                check_transparent(c, w, shape, p, kwnames)
                c.case(('transparent', w, shape, p, tuple(kwnames)), nontrivial=p + len(kwnames) > 0)
            for w in ('try_none', 'try_zero', 'try_back', 'try_nan', 'try_true', 'try_false', 'try_list'):
                check_fallback(c, w, shape, p, kwnames)
                c.case(('fallback', w, shape, p, tuple(kwnames)), nontrivial=True)
            if not vk:
                for extras in (['z'], ['y', 'zz']):
                    check_kwargs_support_extra(c, shape, p, kwnames, extras)
                    c.case(('ks', shape, p, tuple(kwnames), tuple(extras)), nontrivial=True)
        for w in wnames:
            check_argspec(c, w, shape)
            c.case(('argspec', w, shape), nontrivial=n + va + vk > 0)
        # stacks of <= 3 decorators; the call used for the behavioural comparison passes the first parameter positionally when there is one
        good = [x for x in calls if x[0] > 0] or calls
        for k in (1, 2, 3):
            for stack in itertools.product(wnames, repeat=k):
                p, kwnames = good[(len(stack) + wnames.index(stack[0])) % len(good)]
                check_stack(c, stack, shape, p, kwnames)
                c.case(('stack', stack, shape), nontrivial=len(set(stack)) < len(stack), sample=take('stack', dict(f=make_f(*shape)[1], stack=list(stack)), n == 2 and k == 3 and stack[0] == stack[2] != stack[1]))
    for k in range(1, (3 if quick else 4) + 1):
        for seq in itertools.product(range(len(CACHE_CALLS)), repeat=k):
            check_cache_history(c, seq)
            c.case(('cache', seq), nontrivial=len(set(seq)) < len(seq) or any(TWINS.get(i) in seq for i in seq), sample=take('cache', dict(history=[CACHE_CALLS[i] for i in seq]), len(seq) == 3 and seq[0] == 5 and seq[2] == 5))
    # cached functions whose result is None / falsy / NaN: every history of length <= 4 over two arguments
    for rkind in RESULT_KINDS:
        for k in (2, 3, 4):
            for seq in itertools.product((1, 2), repeat=k):
                check_cache_results(c, rkind, seq)
                c.case(('cache-results', rkind, seq), nontrivial=len(set(seq)) < len(seq), sample=take('cache-results', dict(result=rkind, history=list(seq)), rkind == 'None' and seq == (1, 1)))
    # cache histories over hash-equal but unequal arguments (every pair and, seeded in the quick tier, triples)
    nh = len(HASH_CALLS)
    for seq in itertools.product(range(nh), repeat=2):
        check_cache_history(c, seq, 'hash')
        c.case(('cache-hash', seq), nontrivial=True, sample=take('cache-hash', dict(history=[HASH_CALLS[i] for i in seq]), seq == (0, 1)))
    triples = list(itertools.product(range(nh), repeat=3))
    for seq in (triples if not quick else [t for t in triples if (t[0] ^ 1) == t[1] or (t[1] ^ 1) == t[2] or (t[0] ^ 1) == t[2]]):
        check_cache_history(c, seq, 'hash')
        c.case(('cache-hash', seq), nontrivial=True)
    # try_*: every call history of length <= 4 (quick) / 5 over {ok, fail, fail then the caller mutates what it got, the same on a second function}
    for wname, (_, _, mutate) in _fallbacks().items():
        steps = STEPS if mutate is not None else ['ok', 'fail', 'fail-other-f']
        for k in [2, 1, 3, 4] + ([] if quick else [5]):
            # the shortest self-contained witness of a shared fallback goes first (try_list is ONE module-level decorator instance: once a
            # history has damaged its fallback every later history sees it, and the first recorded call should replay on its own)
            for seq in sorted(itertools.product(steps, repeat=k), key=lambda q: q != ('fail+mutate', 'fail')) if k == 2 else itertools.product(steps, repeat=k):
                check_try_sequence(c, wname, seq)
                c.case(('try_seq', wname, seq), nontrivial=any(x != 'ok' for x in seq), sample=take('try_seq', dict(decorator=wname, history=list(seq)), wname == 'try_list' and seq == ('fail+mutate', 'fail')))
    return c.result()


def replay(call):
    c = Collector('C18', 'replay')
    kind = call.get('kind')
    shape = tuple(call['shape']) if 'shape' in call else None
    if kind == 'binding':
        check_binding(c, shape, call['p'], call['kwnames'])
    elif kind == 'transparent':
        check_transparent(c, call['W'], shape, call['p'], call['kwnames'])
    elif kind == 'fallback':
        check_fallback(c, call['W'], shape, call['p'], call['kwnames'])
    elif kind == 'ks_extra':
        check_kwargs_support_extra(c, shape, call['p'], call['kwnames'], call['extras'])
    elif kind == 'argspec':
        check_argspec(c, call['W'], shape)
    elif kind == 'stack':
        check_stack(c, call['stack'], shape, call['p'], call['kwnames'])
    elif kind == 'cache':
        check_cache_history(c, call['seq'], call.get('universe') or 'main')
    elif kind == 'try_seq':
        check_try_sequence(c, call['W'], call['seq'])
    elif kind == 'cache_results':
        check_cache_results(c, call['result'], call['seq'])
    elif kind == 'siblings':
        check_siblings(c, call['W'], call['sig'])
    else:
        return dict(fails=None, detail='no replay for kind %r' % kind)
    v = list(c.violations.values())
    return dict(fails=bool(v), detail=v[0]['what'] if v else 'all clauses hold on the real code for this input')
