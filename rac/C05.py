"""C05 bounded stand-in: the clauses of the property evaluated natively on real Calendar objects built from seeded random
configurations.  The oracle counts day by day over a plain set of holidays and a weekend set; it never looks at the calendar's tables."""
import datetime, random, itertools, calendar as _calendar
from rac.common import Collector

D = datetime.datetime
DAY = datetime.timedelta(days=1)
WEEKENDS = ([5, 6], [4, 5], [6], [])
ADJS = 'fpm'
DENSITIES = (0.0, 0.03, 0.12, 0.3)
ANCHORS = [D(1900, 1, 1), D(1999, 10, 20), D(2019, 11, 11), D(2023, 12, 5), D(2099, 9, 1)]
_fresh = itertools.count()


class Model:
    """oracle: weekend set + holiday set, everything by counting days"""
    def __init__(self, weekend, holidays, t0, t1, adj):
        self.we, self.H, self.t0, self.t1, self.adj = set(weekend), set(holidays), t0, t1, adj
        self.bd = [t0 + i * DAY for i in range((t1 - t0).days + 1) if self.isb(t0 + i * DAY)]
        self.idx = {t: i for i, t in enumerate(self.bd)}

    def isb(self, t):
        return t.weekday() not in self.we and t not in self.H

    def f(self, t):
        while not self.isb(t):
            t += DAY
        return t

    def p(self, t):
        while not self.isb(t):
            t -= DAY
        return t

    def adjust(self, t, adj=None):
        adj = adj or self.adj
        if adj == 'f':
            return self.f(t)
        if adj == 'p':
            return self.p(t)
        f = self.f(t)
        return f if (f.year, f.month) == (t.year, t.month) else self.p(t)

    def inside(self, t):
        """both neighbours of t exist inside the calendar's range"""
        return len(self.bd) > 0 and self.bd[0] <= t <= self.bd[-1]

    def add(self, t, n):
        """n-th business day counted from adjust(t), day by day; None when that leaves the calendar's range"""
        e = self.adjust(t)
        step = DAY if n > 0 else -DAY
        k = abs(n)
        while k:
            e += step
            if e < self.t0 or e > self.t1:
                return None
            if self.isb(e):
                k -= 1
        return e


def make_holidays(rng, t0, t1, density):
    """independent days with the given density plus multi-day runs laid across month ends and across weekends"""
    span = (t1 - t0).days
    H = set()
    for i in range(span + 1):
        if rng.random() < density:
            H.add(t0 + i * DAY)
    if density > 0:
        t = D(t0.year, t0.month, 1)
        while t < t1:
            last = D(t.year, t.month, _calendar.monthrange(t.year, t.month)[1])
            if rng.random() < 0.5:                                   # a run that straddles (or ends exactly at) the month end
                start = last - rng.randrange(0, 6) * DAY
                for k in range(rng.randrange(2, 10)):
                    H.add(start + k * DAY)
            if rng.random() < 0.3:                                   # Thursday..Tuesday style run across a weekend
                start = t + rng.randrange(0, 20) * DAY
                for k in range(rng.randrange(2, 7)):
                    H.add(start + k * DAY)
            t = last + DAY
    return sorted(h for h in H if t0 <= h <= t1)


def new_key(tag):
    return 'rac-C05-%s-%d' % (tag, next(_fresh))


def build(weekend, holidays, t0, t1, adj, tag='cfg'):
    from pyg_base import Calendar
    return Calendar(new_key(tag), holidays=list(holidays), weekend=list(weekend), t0=t0, t1=t1, adj=adj)


def cfg_call(mo, **kw):
    d = dict(kind='cal', weekend=sorted(mo.we), holidays=[h.toordinal() for h in sorted(mo.H)], t0=mo.t0.isoformat(), t1=mo.t1.isoformat(), adj=mo.adj)
    d.update(kw)
    return d


def check_day(c, cal, mo, t):
    """is_bday and adjust f/p/m for one day inside the range"""
    call = cfg_call(mo, what='day', t=t.toordinal())
    ok = True
    try:
        ok &= c.check(bool(cal.is_bday(t)) == mo.isb(t), 'C05:is_bday', 'is_bday(%s) = %s, weekend %s, holiday %s' % (t, cal.is_bday(t), t.weekday() in mo.we, t in mo.H), call)
        for a in ADJS:
            r = cal.adjust(t, a)
            ok &= c.check(r == mo.adjust(t, a), 'C05:adjust:%s' % a, 'adjust(%s,%r) = %s, counting gives %s' % (t, a, r, mo.adjust(t, a)), call)
        r = cal.adjust(t)
        ok &= c.check(r == mo.adjust(t), 'C05:adjust:default', 'adjust(%s) = %s with adj=%r, counting gives %s' % (t, r, mo.adj, mo.adjust(t)), call)
    except Exception as e:      # noqa
        ok = c.check(False, 'C05:day:raises', 'is_bday/adjust(%s) raised %r' % (t, e), call)
    return ok


def check_add(c, cal, mo, t, n):
    """add / bdays / inverse / step-vs-table for one (t, n) whose results stay inside the range; returns False if skipped"""
    e = mo.add(t, n)
    if e is None:
        return None
    call = cfg_call(mo, what='add', t=t.toordinal(), n=n)
    try:
        r = cal.add(t, n)
        ok = c.check(r == e, 'C05:add:value', 'add(%s,%d) = %s, counting %d business days from adjust(t)=%s gives %s' % (t, n, r, n, mo.adjust(t), e), call)
        b = cal.bdays(t, r)
        ok &= c.check(b == n, 'C05:bdays', 'bdays(%s, add(t,%d)=%s) = %s' % (t, n, r, b), call)
        if mo.isb(t):
            back = cal.add(r, -n)
            ok &= c.check(back == t, 'C05:add:inverse', 'add(add(%s,%d),%d) = %s for a business day t' % (t, n, -n, back), call)
        if abs(n) == 2:
            s = n // 2
            two = cal.add(cal.add(t, s), s)
            ok &= c.check(two == r, 'C05:add:step-vs-table', 'add(%s,%d) = %s but add(add(t,%d),%d) = %s' % (t, n, r, s, s, two), call)
        return ok
    except Exception as ex:      # noqa
        return c.check(False, 'C05:add:raises', 'add/bdays(%s,%d) raised %r' % (t, n, ex), call)


def check_drange(c, cal, mo, a, b):
    call = cfg_call(mo, what='drange', a=a.toordinal(), b=b.toordinal())
    fa, fb = mo.adjust(a), mo.adjust(b)
    exp = [x for x in mo.bd if fa <= x <= fb]
    try:
        got = cal.drange(a, b, '1b')
    except Exception as e:      # noqa
        return c.check(False, 'C05:drange:raises', 'Calendar.drange(%s,%s,"1b") raised %r' % (a, b, e), call)
    return c.check(got == exp, 'C05:drange:1b', 'Calendar.drange(%s,%s,"1b") has %d days %s.., counting gives %d days %s..' % (a, b, len(got), got[:3], len(exp), exp[:3]), call)


def check_registry(c, rng, mo):
    """calendar(key, holidays...) then calendar(key) is that calendar; registering the key again replaces the holidays"""
    from pyg_base import calendar
    key = new_key('reg')
    H1 = sorted(mo.H)
    H2 = sorted(set(rng.sample(H1, len(H1) // 2)) | {mo.t0 + rng.randrange((mo.t1 - mo.t0).days + 1) * DAY for _ in range(5)})
    call = cfg_call(mo, what='registry', h2=[h.toordinal() for h in H2])
    try:
        calendar(key, holidays=list(H1), weekend=sorted(mo.we), t0=mo.t0, t1=mo.t1)
        got1 = calendar(key)
        m1 = Model(mo.we, H1, mo.t0, mo.t1, 'm')
        days = [mo.t0 + i * DAY for i in range((mo.t1 - mo.t0).days + 1)]
        ok = c.check(all(bool(got1.is_bday(t)) == m1.isb(t) for t in days), 'C05:registry:first', 'calendar(key) after registration does not reflect its holidays', call)
        mid = m1.bd[len(m1.bd) // 2]
        got1.add(mid, 5)                       # populate the tables of the first registration
        calendar(key, holidays=list(H2), weekend=sorted(mo.we), t0=mo.t0, t1=mo.t1)
        got2 = calendar(key)
        m2 = Model(mo.we, H2, mo.t0, mo.t1, 'm')
        bad = [t for t in days if bool(got2.is_bday(t)) != m2.isb(t)]
        ok &= c.check(not bad, 'C05:registry:last', 'calendar(key) after a second registration: is_bday wrong on %s' % bad[:3], call)
        for t in rng.sample(days[60:-60], 10):
            for n in (5, -5, 1):
                e = m2.add(t, n)
                if e is not None and m2.inside(t):
                    r = got2.add(t, n)
                    ok &= c.check(r == e, 'C05:registry:last', 'after re-registration add(%s,%d) = %s, counting over the last holidays gives %s' % (t, n, r, e), call)
        return ok
    except Exception as e:      # noqa
        return c.check(False, 'C05:registry:raises', 'registry round raised %r' % e, call)


# ----------------------------------------------------------------------------------------------- registry histories
# "a calendar fetched by key reflects the holidays it was last registered with": a registration is a call of calendar(key, ...) that
# passes at least one of holidays / weekend / t0 / t1 (anything other than None counts as passed - an EMPTY holiday list or an empty
# weekend is a registration with no holidays / no weekend, not a plain fetch); calendar(key) alone is a fetch.
TMIN, TMAX = D(1900, 1, 1), D(2300, 1, 1)
HOL_FORMS = ['none', 'empty-list', 'empty-tuple', 'H1', 'H2']
WE_FORMS = ['none', 'empty-list', 'mon-scalar', 'sun', 'sat-sun', 'fri-sat']
RANGE_FORMS = ['none', 'given']
_WE = {'empty-list': [], 'mon-scalar': 0, 'sun': [6], 'sat-sun': [5, 6], 'fri-sat': [4, 5]}


def reg_window(base):
    """the 42 days on which a fetched calendar is compared with the model, and two different non-empty holiday sets inside them"""
    w0 = base + 100 * DAY
    days = [w0 + i * DAY for i in range(42)]
    H1 = [days[i] for i in (1, 2, 8, 9, 10, 17, 25, 33)]       # every weekday occurs in H1 or H2 and in neither
    H2 = [days[i] for i in (3, 9, 11, 12, 20, 27, 28, 36)]
    return days, H1, H2


def reg_args(form, base):
    """form = (holidays form, weekend form, range form) -> (kwargs for calendar(), model (weekend set, holiday set, t0, t1) or None for a fetch)"""
    hf, wf, rf = form
    days, H1, H2 = reg_window(base)
    kw = {}
    if hf != 'none':
        kw['holidays'] = {'empty-list': [], 'empty-tuple': (), 'H1': list(H1), 'H2': list(H2)}[hf]
    if wf != 'none':
        kw['weekend'] = list(_WE[wf]) if isinstance(_WE[wf], list) else _WE[wf]
    if rf == 'given':
        kw['t0'], kw['t1'] = base, base + 300 * DAY
    if not kw:
        return kw, None
    we = [5, 6] if wf == 'none' else ([_WE[wf]] if not isinstance(_WE[wf], list) else _WE[wf])
    hol = {'none': [], 'empty-list': [], 'empty-tuple': [], 'H1': H1, 'H2': H2}[hf]
    return kw, (set(we), set(hol), kw.get('t0', TMIN), kw.get('t1', TMAX))


def reg_class(form):
    """input class of a registration for the violation key: falsy-but-not-None arguments get their own class"""
    hf, wf, rf = form
    if hf in ('empty-list', 'empty-tuple'):
        return ':empty-holidays'
    if wf in ('empty-list', 'mon-scalar'):
        return ':falsy-weekend'
    return ''


def check_registry_history(c, base, forms, via_object=False):
    """forms: a sequence of registration forms applied to ONE key; after each step calendar(key) must reflect the last registration.
    via_object: the first registration hands a Calendar object to calendar() (registered under the object's key)"""
    from pyg_base import calendar, Calendar
    key = new_key('hist')
    days, H1, H2 = reg_window(base)
    call = dict(kind='reghist', base=base.toordinal(), forms=[list(f) for f in forms], via_object=bool(via_object))
    model = None
    ok = True
    try:
        for step, form in enumerate(forms):
            kw, mo = reg_args(tuple(form), base)
            txt = 'key registered by %s; step %d calendar(key%s)' % (
                [reg_args(tuple(f), base)[0] and sorted(reg_args(tuple(f), base)[0]) or 'fetch' for f in forms[:step]], step,
                ''.join(', %s=%s' % (k, ('[%d days]' % len(v)) if k == 'holidays' and len(v) else v) for k, v in kw.items()))
            if step == 0 and via_object and mo is not None:
                got = calendar(Calendar(key, **kw))
            else:
                got = calendar(key, **kw)
            if mo is not None:
                model = mo
            elif model is None:
                model = ({5, 6}, set(), TMIN, TMAX)              # a fetch of an unknown key creates the default calendar
            we, hol, t0, t1 = model
            cls = reg_class(tuple(form)) if mo is not None else ''
            for which, cal in (('returned', got), ('fetched', calendar(key))):
                bad = [t for t in days if bool(cal.is_bday(t)) != (t.weekday() not in we and t not in hol)]
                ok &= c.check(not bad, 'C05:registry:last' + cls, '%s: the %s calendar has is_bday wrong on %s (weekend %s, holidays %s; last registered with weekend %s, %d holidays)'
                              % (txt, which, [str(b)[:10] for b in bad[:3]], list(cal.weekend), [str(h)[:10] for h in list(cal.holidays)[:3]], sorted(we), len(hol)), call)
            if not ok:
                return False                 # later steps of this history only repeat the consequence
            cal = calendar(key)
            isb = lambda t: t.weekday() not in we and t not in hol       # noqa
            if len(we) < 7:
                for t in (days[5], days[18], days[30]):
                    e = t
                    while not isb(e):
                        e += DAY
                    n = 4 if (t1 - t0).days < 1000 else 1                   # the table path only on short calendars (building 400 years of table per step is slow)
                    k = n
                    while k:
                        e += DAY
                        k -= isb(e)
                    r = cal.adjust(t, 'f')
                    r = cal.add(r, n)
                    ok &= c.check(r == e, 'C05:registry:last' + cls, '%s: add(adjust(%s,"f"),%d) = %s, counting over the last registration gives %s' % (txt, str(t)[:10], n, r, e), call)
        return ok
    except Exception as e:      # noqa
        return c.check(False, 'C05:registry:raises', 'registry history %s raised %r' % (forms, e), call)


def registry_histories(quick):
    """every ordered pair (previous registration, next step) of argument forms (quick tier: six representative previous registrations
    against every next step) - holidays in {not passed, [], (), H1, H2} x weekend in
    {not passed, [], 0 (Monday as a scalar), [6], [5,6], [4,5]} x range in {not passed, given}; the next step may be a plain fetch -
    then three-step histories registration, falsy re-registration, registration"""
    forms = [(h, w, r) for h in HOL_FORMS for w in WE_FORMS for r in RANGE_FORMS]
    regs = [f for f in forms if f != ('none', 'none', 'none')]
    first = regs if not quick else [('H1', 'sun', 'given'), ('H1', 'none', 'none'), ('none', 'fri-sat', 'given'), ('H2', 'sat-sun', 'none'),
                                    ('empty-list', 'empty-list', 'given'), ('H2', 'mon-scalar', 'none')]
    for a in first:
        for b in forms:
            yield [a, b]
    falsy = [f for f in regs if reg_class(f)]
    full = [('H1', 'sun', 'given'), ('H2', 'none', 'none'), ('H1', 'fri-sat', 'none')]
    for a in full:
        for b in falsy:
            for d in (full + [('none', 'none', 'none')] if not quick else [full[(full.index(a) + 1) % 3], ('none', 'none', 'none')]):
                yield [a, b, d]
                if not quick:
                    yield [a, b, b, d]


def configurations(rng, count):
    """every weekend x adj x density combination once per 48, holiday sets and ranges seeded"""
    combos = [(we, adj, dens) for we in WEEKENDS for adj in ADJS for dens in DENSITIES]
    out = []
    for i in range(count):
        we, adj, dens = combos[i % len(combos)]
        if i % 11 == 10:
            t1 = D(2300, 1, 1)                      # a calendar that ends at TMAX
            t0 = t1 - rng.randrange(330, 420) * DAY
        else:
            t0 = ANCHORS[i % len(ANCHORS)] + rng.randrange(0, 40) * DAY if i % len(ANCHORS) else ANCHORS[0]
            t1 = t0 + rng.randrange(330, 420) * DAY
        out.append((we, make_holidays(rng, t0, t1, dens), t0, t1, adj))
    return out


def run(tier, seed):
    rng = random.Random(seed)
    quick = tier == 'quick'
    n_cfg = 48 if quick else 480
    n_extra = 6 if quick else 14
    c = Collector('C05',
                  rule='%d seeded calendar configurations: weekend in {Sat-Sun, Fri-Sat, Sun, none} x adj in {f,p,m} x holiday density in {0, 3%%, 12%%, 30%%} '
                       '(plus 2-9 day runs across month ends and across weekends), ranges of 330-420 days anchored at 1900-01-01 (TMIN), 1999, 2019, 2023, 2099 '
                       'and ending at 2300-01-01 (TMAX), a fresh key each; per configuration every day between the first and last business day for '
                       'is_bday/adjust f,p,m; for add/bdays/inverse/step-vs-table every such day x n in [-3,3] plus %d seeded n of [-40,40] (results kept inside '
                       'the range); 12 Calendar.drange(a,b,"1b") spans; one registry round (register, fetch, re-register, fetch). Registry histories on one key: '
                       '%s (registration, next step) over the argument forms of calendar(key, ...) - holidays in {not passed, [], (), H1, H2} x weekend in '
                       '{not passed, [], 0, [6], [5,6], [4,5]} x t0/t1 in {not passed, given}, the next step possibly a plain fetch - plus three-step histories through a '
                       'falsy re-registration, the first registration also through a Calendar object; after every step the returned and the fetched calendar are compared '
                       'with the last registration on 42 days (is_bday, add). Oracle counts day by day. '
                       'A case is (configuration, day, n); non-trivial when n != 0 or the day is not a business day.'
                       % (n_cfg, n_extra, 'six representative registrations x every next step as ordered pairs' if quick else 'every ordered pair'),
                  exhaustive=False, scope='%d configurations x ~370 days x n in [-40,40] (sampled beyond |n|<=3)' % n_cfg)
    jobs = [(seed, ci, n_extra, cfg) for ci, cfg in enumerate(configurations(rng, n_cfg))]
    if quick:
        parts = map(run_config, jobs)
    else:
        import multiprocessing as mp
        pool = mp.get_context('fork').Pool(16)
        parts = pool.imap(run_config, jobs)
    distinct = 0
    for part in parts:
        c.evaluations += part['evaluations']
        distinct += part['distinct_nontrivial']
        c.samples.extend(part['samples'] if len(c.samples) < 8 else [])
        for v in part['violations']:
            if v['key'] in c.violations:
                c.violations[v['key']]['count'] += v['count']
            else:
                c.violations[v['key']] = v
    if not quick:
        pool.close()
        pool.join()
    # registry histories: the argument forms of calendar(key, ...) (passed / not passed / passed but falsy) in every order, one fresh key each
    for base in ([D(2019, 11, 11)] if quick else [D(2019, 11, 11), D(1900, 1, 1), D(2298, 12, 1)]):
        for forms in registry_histories(quick):
            for via_object in ((False, True) if forms[0][2] == 'given' and len(forms) == 2 and forms[1][0] in ('none', 'H1', 'H2') and forms[1][1] in ('none', 'sun', 'sat-sun', 'fri-sat') else (False,)):
                check_registry_history(c, base, forms, via_object)
                c.case(('reghist', base.toordinal(), repr(forms), via_object))
                distinct += 1
    c.samples.append(dict(registry_history=[['H1', 'sun', 'given'], ['empty-list', 'none', 'none']], meaning='calendar(key, holidays=H1, weekend=[6], t0=, t1=) then calendar(key, holidays=[]) then fetch'))
    res = c.result()
    res['distinct_nontrivial'] = distinct          # cases of different configurations are distinct by construction
    return res


def run_config(job):
    """all cases of one configuration, with its own seeded generator (so the result does not depend on scheduling)"""
    seed, ci, n_extra, (we, hol, t0, t1, adj) = job
    rng = random.Random(seed * 100003 + ci)
    c = Collector('C05', 'part', max_samples=1)
    ns_all = list(range(-40, 41))
    mo = Model(we, hol, t0, t1, adj)
    if len(mo.bd) >= 20:
        cal = build(we, hol, t0, t1, adj)
        c.samples.append(dict(weekend=we, adj=adj, t0=t0.isoformat(), t1=t1.isoformat(), holidays=len(hol), business_days=len(mo.bd)))
        t = mo.bd[0]
        while t <= mo.bd[-1]:
            check_day(c, cal, mo, t)
            c.case((ci, t.toordinal(), 'day'), nontrivial=not mo.isb(t))
            for n in [-3, -2, -1, 0, 1, 2, 3] + rng.sample(ns_all, n_extra):
                if check_add(c, cal, mo, t, n) is not None:
                    c.case((ci, t.toordinal(), n), nontrivial=n != 0 or not mo.isb(t))
            t += DAY
        for _ in range(12):
            i = rng.randrange(0, len(mo.bd) - 1)
            a = mo.bd[i] + rng.randrange(0, 4) * DAY
            b = a + rng.randrange(0, 90) * DAY
            if a <= mo.bd[-1] and b <= mo.bd[-1]:
                check_drange(c, cal, mo, a, b)
                c.case((ci, a.toordinal(), b.toordinal(), 'drange'), nontrivial=b > a)
        if len(hol) >= 4 and len(mo.bd) > 200:
            check_registry(c, rng, mo)
            c.case((ci, 'registry'))
    return c.result()


def replay(call):
    if call.get('kind') == 'reghist':
        c = Collector('C05', 'replay')
        check_registry_history(c, D.fromordinal(int(call['base'])), [tuple(f) for f in call['forms']], bool(call.get('via_object')))
        v = list(c.violations.values())
        return dict(fails=bool(v), detail=v[0]['what'] if v else 'after every step calendar(key) reflects the last registration')
    if call.get('kind') != 'cal':
        return dict(fails=None, detail='no replay for kind %r' % call.get('kind'))
    hol = [D.fromordinal(int(o)) for o in call['holidays']]
    t0, t1 = D.fromisoformat(call['t0']), D.fromisoformat(call['t1'])
    mo = Model(call['weekend'], hol, t0, t1, call['adj'])
    c = Collector('C05', 'replay')
    what = call.get('what')
    if what == 'registry':
        rng = random.Random(0)
        from pyg_base import calendar
        key = new_key('replay')
        H2 = [D.fromordinal(int(o)) for o in call['h2']]
        calendar(key, holidays=list(hol), weekend=sorted(mo.we), t0=t0, t1=t1)
        first = calendar(key)
        first.add(mo.bd[len(mo.bd) // 2], 5)
        calendar(key, holidays=list(H2), weekend=sorted(mo.we), t0=t0, t1=t1)
        got = calendar(key)
        m2 = Model(mo.we, H2, t0, t1, 'm')
        days = [t0 + i * DAY for i in range((t1 - t0).days + 1)]
        bad = [t for t in days if bool(got.is_bday(t)) != m2.isb(t)]
        c.check(not bad, 'registry', 'calendar(key) after a second registration: is_bday wrong on %s' % bad[:3])
        for t in days[60:-60]:
            e = m2.add(t, 5)
            if e is not None and m2.inside(t):
                c.check(got.add(t, 5) == e, 'registry', 'after re-registration add(%s,5) = %s, expected %s' % (t, got.add(t, 5), e))
    else:
        cal = build(mo.we, hol, t0, t1, call['adj'], tag='replay')
        if what == 'day':
            check_day(c, cal, mo, D.fromordinal(int(call['t'])))
        elif what == 'add':
            check_add(c, cal, mo, D.fromordinal(int(call['t'])), int(call['n']))
        elif what == 'drange':
            check_drange(c, cal, mo, D.fromordinal(int(call['a'])), D.fromordinal(int(call['b'])))
    v = list(c.violations.values())
    return dict(fails=bool(v), detail=v[0]['what'] if v else 'all clauses hold on the real code for this calendar and input')
