"""C15 bounded stand-in: tree flatten/rebuild are inverse, tree_update is a non-destructive deep merge, table_to_tree and
tree_to_table are inverse.  Trees are plain nested dicts over string keys (JSON-able as they are), leaves None/int/str/list.
Oracles are direct recursions over dicts written from the property statement."""
import copy, functools, itertools, random
from rac.common import Collector

LEAF = '*'
K_MUT = 'C15:tree_update:mutates-left-operand'          # also reached through Dict.__add__ and items_to_tree(items, tree)
K_MUT_TBL = 'C15:table_to_tree:mutates-left-operand'


# ----------------------------------------------------------------------------------------------- enumeration
def _compositions(n, k):
    if k == 1:
        yield (n,)
        return
    for i in range(1, n - k + 2):
        for r in _compositions(n - i, k - 1):
            yield (i,) + r


@functools.lru_cache(None)
def forests(n, depth, alphabet):
    """all trees with exactly n nodes (a node = one dict entry, branch or leaf), at most `depth` levels, sibling keys drawn as
    sorted combinations of `alphabet`, every branch non-empty; as tuples of (key, LEAF | sub-forest)"""
    if n == 0:
        return [()]
    if depth == 0:
        return []
    out = []
    for k in range(1, min(n, len(alphabet)) + 1):
        for keys in itertools.combinations(alphabet, k):
            for comp in _compositions(n, k):
                opts = [([LEAF] if m == 1 else list(forests(m - 1, depth - 1, alphabet))) for m in comp]
                for choice in itertools.product(*opts):
                    out.append(tuple(zip(keys, choice)))
    return out


def to_tree(forest, leaves, reverse=False):
    """dict from a forest; leaves is an iterator of leaf values; reverse -> siblings inserted in reverse key order"""
    res = {}
    for key, child in (reversed(forest) if reverse else forest):
        res[key] = next(leaves) if child == LEAF else to_tree(child, leaves, reverse)
    return res


def leaf_cycle(pool, start):
    i = start
    while True:
        v = pool[i % len(pool)]
        yield list(v) if isinstance(v, list) else v
        i += 1


T_POOL = [1, 'x', [1, 2], None, 0, 'y']
U_POOL = [None, 9, 'x', [3], 'z', 0]


# ----------------------------------------------------------------------------------------------- oracles
def is_branch(v):
    return isinstance(v, dict)


def flatten(t):
    """paths + leaf in dict order"""
    out = []
    for k, v in t.items():
        if is_branch(v):
            out.extend([(k,) + i for i in flatten(v)])
        else:
            out.append((k, v))
    return out


def merge(t, u, ignore=()):
    """u's leaves override, branches on both sides are merged, everything else of t is kept;
    a leaf of u whose value is in `ignore` does not overwrite an existing entry"""
    r = dict(t)
    for k, v in u.items():
        if is_branch(v):
            r[k] = merge(t[k] if k in t and is_branch(t[k]) else {}, v, ignore)
        elif k in t and any(v is i or (type(v) == type(i) and v == i) for i in ignore):
            pass
        else:
            r[k] = v
    return r


def to_Dict(t):
    from pyg_base import Dict
    return Dict({k: to_Dict(v) if is_branch(v) else v for k, v in t.items()})


def same_rows(a, b):
    """multiset equality of two lists of dicts using =="""
    b = list(b)
    if len(a) != len(b):
        return False
    for r in a:
        for i, s in enumerate(b):
            if r == s:
                del b[i]
                break
        else:
            return False
    return True


# ----------------------------------------------------------------------------------------------- checks
def check_single(c, t):
    from pyg_base import tree_items, tree_keys, tree_values, items_to_tree, tree_getitem, tree_get, tree_update
    t0 = copy.deepcopy(t)
    call = dict(kind='single', t=t0)
    try:
        items = tree_items(t)
        exp = flatten(t0)
        c.check(items == exp, 'C15:tree_items:value', 'tree_items(%r) = %r, expected %r' % (t0, items, exp), call)
        back = items_to_tree(items)
        c.check(back == t0, 'C15:roundtrip:items_to_tree', 'items_to_tree(tree_items(t)) = %r for t = %r' % (back, t0), call)
        c.check(tree_keys(t) == [i[:-1] for i in items], 'C15:tree_keys:projection', 'tree_keys(%r) = %r but tree_items = %r' % (t0, tree_keys(t), items), call)
        c.check(tree_values(t) == [i[-1] for i in items], 'C15:tree_values:projection', 'tree_values(%r) = %r but tree_items = %r' % (t0, tree_values(t), items), call)
        for i in exp:
            path, leaf = i[:-1], i[-1]
            for p in (path, list(path), '.'.join(path)):
                got = tree_getitem(t, p)
                c.check(got is leaf or got == leaf, 'C15:tree_getitem:leaf', 'tree_getitem(%r, %r) = %r, expected %r' % (t0, p, got, leaf), call)
            got = tree_get(t, path)
            c.check(got is leaf or got == leaf, 'C15:tree_get:leaf', 'tree_get(%r, %r) = %r, expected %r' % (t0, path, got, leaf), call)
        r = tree_update(t, t)
        c.check(r == t0, 'C15:tree_update:self', 'tree_update(t, t) = %r for t = %r' % (r, t0), call)
        c.check(t == t0, K_MUT, 'tree_update(t, t) changed t from %r to %r' % (t0, t), call)
        r = tree_update(t, {})
        c.check(r == t0, 'C15:tree_update:empty', 'tree_update(t, {}) = %r for t = %r' % (r, t0), call)
        c.check(t == t0, K_MUT, 'single-tree operations changed t from %r to %r' % (t0, t), call)
    except Exception as e:      # noqa
        c.check(False, 'C15:single:raises', 'flatten/rebuild of %r raised %r' % (t0, e), call)


def check_update(c, t, u, ignore=None):
    from pyg_base import tree_update, items_to_tree, tree_items
    t0, u0 = copy.deepcopy(t), copy.deepcopy(u)
    call = dict(kind='update', t=t0, u=u0, ignore=ignore)
    exp = merge(t0, u0, ignore or ())
    kw = {} if ignore is None else dict(ignore=list(ignore))
    sfx = '' if ignore is None else ':ignore'
    try:
        r = tree_update(t, u, **kw)
        c.check(r == exp, 'C15:tree_update:value' + sfx, 'tree_update(%r, %r%s) = %r, the recursive merge is %r' % (t0, u0, ', ignore=%r' % ignore if ignore else '', r, exp), call)
        c.check(t == t0, K_MUT, 'tree_update(t, %r) changed t from %r to %r' % (u0, t0, t), call)
        c.check(u == u0, 'C15:tree_update:mutates-right-operand', 'tree_update(%r, u) changed u from %r to %r' % (t0, u0, u), call)
        if ignore is None:
            # Dict + dict, on Dict trees
            T = to_Dict(copy.deepcopy(t0))
            T0 = copy.deepcopy(T)
            u2 = copy.deepcopy(u0)
            r = T + u2
            c.check(r == exp, 'C15:Dict.__add__:value', 'Dict(%r) + %r = %r, the recursive merge is %r' % (t0, u0, r, exp), call)
            c.check(T == T0 and u2 == u0, K_MUT, 'Dict(t) + %r changed t from %r to %r' % (u0, T0, T), call)
            # items_to_tree(items, tree): the same thing in two steps
            t2 = copy.deepcopy(t0)
            r = items_to_tree(tree_items(u0), t2)
            c.check(r == exp, 'C15:items_to_tree:onto-tree', 'items_to_tree(tree_items(%r), %r) = %r, expected %r' % (u0, t0, r, exp), call)
            c.check(t2 == t0, K_MUT, 'items_to_tree(items of %r, t) changed t from %r to %r' % (u0, t0, t2), call)
    except Exception as e:      # noqa
        c.check(False, 'C15:tree_update:raises', 'tree_update(%r, %r, ignore=%r) raised %r' % (t0, u0, ignore, e), call)


def pattern_parts(pattern):
    parts = pattern.split('/')
    wild = [p[1:] for p in parts if p.startswith('%')]
    return parts, wild


def expected_tree(pattern, rows, start=None):
    parts, _ = pattern_parts(pattern)
    tree = copy.deepcopy(start) if start is not None else {}
    for row in rows:
        item = [row[p[1:]] if p.startswith('%') else p for p in parts]
        node = tree
        for k in item[:-2]:
            if not is_branch(node.get(k)):
                node[k] = {}
            node = node[k]
        node[item[-2]] = item[-1]
    return tree


def check_table(c, pattern, rows, split=None, as_dictable=False):
    """rows have unique paths. split=k: the first k rows build a base tree, the others are added to it"""
    from pyg_base import tree_to_table, table_to_tree, dictable
    rows0 = copy.deepcopy(rows)
    call = dict(kind='table', pattern=pattern, rows=rows0, split=split, as_dictable=as_dictable)
    exp = expected_tree(pattern, rows0)
    try:
        table = dictable(rows) if as_dictable else rows
        tree = table_to_tree(None, pattern, table)
        c.check(tree == exp, 'C15:table_to_tree:value', 'table_to_tree(None, %r, %r) = %r, expected %r' % (pattern, rows0, tree, exp), call)
        back = tree_to_table(tree, pattern)
        c.check(same_rows(back, rows0), 'C15:table_roundtrip:rows', 'tree_to_table(table_to_tree(None, %r, rows), same pattern) = %r for rows = %r' % (pattern, back, rows0), call)
        tbl = tree_to_table(copy.deepcopy(exp), pattern)
        c.check(same_rows(tbl, rows0), 'C15:tree_to_table:value', 'tree_to_table(%r, %r) = %r, expected the rows %r' % (exp, pattern, tbl, rows0), call)
        again = table_to_tree(None, pattern, tbl)
        c.check(again == exp, 'C15:table_roundtrip:tree', 'table_to_tree(None, %r, tree_to_table(t, same pattern)) = %r for t = %r' % (pattern, again, exp), call)
        if len(rows0) and not any(isinstance(v, list) for r in rows0 for v in r.values()):
            d = dictable(copy.deepcopy(exp), pattern)
            c.check(same_rows([dict(r) for r in d], rows0), 'C15:dictable(tree,pattern):rows', 'dictable(%r, %r) has rows %r, expected %r' % (exp, pattern, [dict(r) for r in d], rows0), call)
        if split is not None:
            base = expected_tree(pattern, rows0[:split])
            base0 = copy.deepcopy(base)
            r = table_to_tree(base, pattern, copy.deepcopy(rows0[split:]), base=dict)
            c.check(r == exp, 'C15:table_to_tree:onto-tree', 'table_to_tree(%r, %r, %r) = %r, expected %r' % (base0, pattern, rows0[split:], r, exp), call)
            c.check(base == base0, K_MUT_TBL, 'table_to_tree(t, %r, %r) changed t from %r to %r' % (pattern, rows0[split:], base0, base), call)
        c.check(rows == rows0, 'C15:table_to_tree:mutates-rows', 'rows changed from %r to %r' % (rows0, rows), call)
    except Exception as e:      # noqa
        c.check(False, 'C15:table:raises', 'pattern %r rows %r raised %r' % (pattern, rows0, e), call)


PATTERNS = ['p/%a', '%a/p', 'p/q/%a',
            '%a/%b', 'p/%a/%b', '%a/p/%b', '%a/%b/p',
            '%a/%b/%c', '%a/p/%b/%c', 'p/%a/q/%b/%c', '%a/%b/%c/p',
            '%a/%b/%c/%d', '%a/%b/p/%c/%d', 'p/%a/%b/%c/q/%d']


def table_cases(rng, quick):
    """for every pattern: every non-empty subset (<= 4 rows in the quick tier, <= 6 otherwise) of the grid of key paths over {x,y} (3 symbols for <= 2
    key columns), leaves cycling through the leaf pool, rows in grid order and once shuffled"""
    for pattern in PATTERNS:
        parts, wild = pattern_parts(pattern)
        leaf_is_wild = parts[-1].startswith('%')
        keycols = wild[:-1] if leaf_is_wild else wild
        symbols = 'xyz' if len(keycols) <= 2 else 'xy'
        grid = list(itertools.product(symbols, repeat=len(keycols)))
        top = 4 if quick else 6
        for k in range(1, min(top, len(grid)) + 1):
            subsets = list(itertools.combinations(grid, k))
            if quick and len(subsets) > 40:
                subsets = rng.sample(subsets, 40)
            for s, sub in enumerate(subsets):
                leaves = leaf_cycle(T_POOL, s + k)
                rows = []
                for path in sub:
                    row = dict(zip(keycols, path))
                    if leaf_is_wild:
                        row[wild[-1]] = next(leaves)
                    rows.append(row)
                yield pattern, rows, (k // 2 if k > 1 else None)
                if k > 2 and s % 3 == 0:
                    rows2 = copy.deepcopy(rows)
                    rng.shuffle(rows2)
                    yield pattern, rows2, k - 1


def _sampler(limit=2):
    """-> take(category, sample, when=True): the sample for the first `limit` cases of a category that satisfy `when`, else None"""
    counts = {}

    def take(cat, d, when=True):
        if when and counts.get(cat, 0) < limit:
            counts[cat] = counts.get(cat, 0) + 1
            return d
        return None
    return take


def run(tier, seed):
    rng = random.Random(seed)
    quick = tier == 'quick'
    ABC = 'abc'
    singles = [f for n in range(0, 7) for f in forests(n, 4, ABC)]
    small = [f for n in range(0, 5) for f in forests(n, 4, ABC)]
    small_ab = [f for n in range(0, 5) for f in forests(n, 4, 'ab')]
    c = Collector('C15', rule='single trees: every tree with <= 6 nodes (dict entries), depth <= 4, sibling keys = sorted subsets of {a,b,c}, non-empty branches (%d trees), leaves cycling '
                  'through None/int/str/list, siblings inserted in sorted or reverse order; pairs (t, u): %s; each pair with ignore in {absent, [None], [None, "x"]}, through tree_update, '
                  'Dict + dict and items_to_tree(items, tree); tables: 14 patterns with 1-4 wildcards and interleaved constants, every non-empty subset of <= %d rows of the grid of key paths '
                  '(rows with unique paths), built from None and onto a tree holding part of the rows. A case is non-trivial when the tree is not empty (pairs: when both are non-empty); '
                  'distinct by the input itself' % (len(singles), ('all pairs of trees with <= 4 nodes over keys {a,b} (%d x %d) plus %d seeded pairs of the %d trees over {a,b,c}'
                                                             % (len(small_ab), len(small_ab), 15000, len(small))) if quick else
                                                    'all pairs of the %d trees with <= 4 nodes over keys {a,b,c}' % len(small), 4 if quick else 6),
                  exhaustive=not quick, scope='trees <= 6 nodes depth <= 4 over 3 keys (single-tree laws); pairs of trees <= 4 nodes each over %s; table patterns 1-4 wildcards, <= %d rows'
                  % ('2 keys (all) and 3 keys (sampled)' if quick else '3 keys (all)', 4 if quick else 6))
    take = _sampler(3)
    for i, f in enumerate(singles):
        t = to_tree(f, leaf_cycle(T_POOL, i), reverse=bool(i % 2))
        check_single(c, t)
        c.case(('single', i), nontrivial=len(f) > 0, sample=take('single', dict(t=t), i % 997 == 500))

    def pair(ft, fu, i, j):
        for ign in (None, [None], [None, 'x']):
            t = to_tree(ft, leaf_cycle(T_POOL, i), reverse=bool(i % 2))
            u = to_tree(fu, leaf_cycle(U_POOL, j), reverse=bool(j % 3 == 1))
            check_update(c, t, u, ign)
        c.case(('pair', ft, fu), nontrivial=len(ft) > 0 and len(fu) > 0, sample=take('pair', dict(t=t, u=u), len(ft) > 1 and len(fu) > 1 and (i + j) % 13 == 5))
    if quick:
        for i, ft in enumerate(small_ab):
            for j, fu in enumerate(small_ab):
                pair(ft, fu, i, j)
        for _ in range(15000):
            i, j = rng.randrange(len(small)), rng.randrange(len(small))
            pair(small[i], small[j], i, j)
    else:
        for i, ft in enumerate(small):
            for j, fu in enumerate(small):
                pair(ft, fu, i, j)
    for n, (pattern, rows, split) in enumerate(table_cases(rng, quick)):
        check_table(c, pattern, rows, split, as_dictable=(n % 4 == 3 and not any(isinstance(v, list) for r in rows for v in r.values())))
        c.case(('table', pattern, repr(rows)), nontrivial=True, sample=take('table', dict(pattern=pattern, rows=rows), len(rows) > 1 and n % 53 == 7))
    return c.result()


def replay(call):
    c = Collector('C15', 'replay')
    kind = call.get('kind')
    if kind == 'single':
        check_single(c, call['t'])
    elif kind == 'update':
        check_update(c, call['t'], call['u'], call.get('ignore'))
    elif kind == 'table':
        check_table(c, call['pattern'], call['rows'], call.get('split'), call.get('as_dictable', False))
    else:
        return dict(fails=None, detail='no replay for kind %r' % kind)
    v = list(c.violations.values())
    return dict(fails=bool(v), detail=v[0]['what'] if v else 'all clauses hold on the real code for this input')
