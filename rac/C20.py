"""C20 bounded stand-in: perdictable evaluates f once per row of the keyed join of its inputs; join with defaults.

A case is a JSON-able description: `on` (1 or 2 key columns), 1..4 inputs each a scalar or a table {key -> value} over a subset
of 4 keys, the subset of inputs with defaults, and for the previously computed keys an expiry state in {past, future, None}
(absent keys are simply not in the data / expiry tables).  f is a counting stub.  The oracle is a set intersection / union over the
key sets followed by a sort.

Which inputs are outer-joined (the statement: "an input named in `defaults`"; perdictable's docstring: "if a default is provided for
a parameter"): perdictable(f, on, defaults=None) takes the wrapped function's own default arguments as the defaults, an explicit
dict - the empty one included - names exactly its keys.  `fdefaults` in a case gives the counting stub default arguments, `omit`
leaves such a parameter out of the call altogether (f then sees its default), `opts` are further perdictable keywords that must not
change any clause of the statement (renames={} / if_none / output_is_input / include_inputs, for a stub that takes no `data`), and
`vcols` names the value column of a table input `data`, an arbitrary single name, or one of two columns picked by renames=.
No NaN keys (D1: dictable.join does not terminate on distinct NaN keys); still, every chunk of cases runs
in a forked child with a hard timeout."""
import datetime, itertools, random, warnings
from rac.common import Collector, call_with_timeout

warnings.filterwarnings('ignore')
PAST, FUTURE = datetime.datetime(2000, 1, 1), datetime.datetime(2200, 1, 1)
KEYS1 = ['k1', 'k2', 'k3', 'k4']
KEYS2 = [['x', 'p'], ['x', 'q'], ['y', 'p'], ['y', 'q']]
NAMES = ['a', 'b', 'c', 'd']


def keyspace(on):
    return KEYS1 if len(on) == 1 else KEYS2


def kt(k):
    return tuple(k) if isinstance(k, list) else (k,)


def make_table(on, name, rows, col=None, order='on'):
    """rows: [[key, value], ...] in the given order; order: how the table stores its columns - key columns in the order of `on`,
    reversed ('rev'), or with the value column first ('vfirst').  The join must not depend on it."""
    from pyg_base import dictable
    keycols = {c: [kt(k)[i] for k, _ in rows] for i, c in enumerate(on)}
    val = {col or name: [v for _, v in rows]}
    if order == 'rev':
        cols = dict(list(reversed(list(keycols.items()))) + list(val.items()))
    elif order == 'vfirst':
        cols = dict(list(val.items()) + list(reversed(list(keycols.items()))))
    else:
        cols = dict(list(keycols.items()) + list(val.items()))
    return dictable(**cols)


def is_table(v):
    return isinstance(v, list) and len(v) in (2, 3) and v[0] == 'T'


def is_scalar_spec(v):
    return isinstance(v, list) and len(v) == 3 and v[0] == 'S'


def build_scalar(v):
    """a non-table input that is itself a container or a callable: ['S', kind, payload] -> tuple / list / range / function / None.
    It is one value, broadcast to every row like any other scalar, whatever its length"""
    if not is_scalar_spec(v):
        return v
    kind, x = v[1], v[2]
    return dict(tuple=lambda: tuple(x), list=lambda: list(x), range=lambda: range(x), func=lambda: dict(len=len, str=str)[x], none=lambda: None)[kind]()


def build_scalars(inputs):
    return {n: build_scalar(v) for n, v in inputs.items()}


def expected_join(on, inputs, defaults):
    """-> sorted list of (key tuple, {name: value})"""
    tables = {n: {kt(k): v for k, v in spec[1]} for n, spec in inputs.items() if is_table(spec)}
    nd = [n for n in tables if n not in defaults]
    wd = [n for n in tables if n in defaults]
    if not tables:
        return None
    if nd:
        K = set.intersection(*[set(tables[n]) for n in nd])
    else:
        K = set.union(*[set(tables[n]) for n in wd])
    out = []
    for k in sorted(K):
        row = {}
        for n, spec in inputs.items():
            row[n] = (tables[n][k] if k in tables[n] else defaults[n]) if n in tables else spec
        out.append((k, row))
    return out


def stub(names, log, fdefaults=None):
    """counting stub over the parameters `names`; those in fdefaults get that default argument (they come last in the signature)"""
    fdefaults = fdefaults or {}
    sig = [n for n in names if n not in fdefaults] + ['%s=%r' % (n, fdefaults[n]) for n in names if n in fdefaults]
    src = 'lambda %s: (log.append((%s)), "|".join(str(v) for v in (%s)))[1]' % (', '.join(sig), ''.join(n + ', ' for n in names), ''.join(n + ', ' for n in names))
    return eval(src, dict(log=log))


def vcol_of(case, n):
    """-> (name of the value column of table input n, name of a decoy column or None)"""
    v = (case.get('vcols') or {}).get(n)
    if v is None:
        return n, None
    if isinstance(v, list):
        return v[0], v[1]
    return v, None


def _quiet():
    import logging
    logging.disable(logging.CRITICAL)


def check_case(c, case):
    from pyg_base import perdictable, join, is_dictable, dictable
    _quiet()
    on, cache = case['on'], case.get('cache') or []
    fdefaults, omit, opts = case.get('fdefaults') or {}, case.get('omit') or [], dict(case.get('opts') or {})
    names = list(case['inputs'])                                                 # the parameters of f
    inputs = build_scalars({n: v for n, v in case['inputs'].items() if n not in omit})   # what the call passes
    given = case.get('defaults')
    jdefaults = dict(given or {})                                                # join(inputs, on, defaults): no function in sight
    defaults = dict(fdefaults) if given is None else dict(given)                 # perdictable: None -> the function's own defaults
    alpha = ':on-order-not-alphabetical' if list(on) != sorted(on) else ''
    fd = ':fn-defaults' if fdefaults else ''
    txt = 'on=%r inputs=%r defaults=%r previously computed=%r' % (on, inputs, given, cache)
    if fdefaults or omit or opts or case.get('vcols'):
        txt += ' f defaults=%r omitted=%r options=%r value columns=%r' % (fdefaults, omit, opts, case.get('vcols'))
    renames = {n: vcol_of(case, n)[0] for n in inputs if vcol_of(case, n)[1]}
    if renames:
        opts['renames'] = renames

    def table(n, spec):
        col, decoy = vcol_of(case, n)
        t = make_table(on, n, spec[1], col=col, order=spec[2] if len(spec) > 2 else 'on')
        if decoy:
            t[decoy] = ['decoy'] * len(t)
        return t

    def args():
        return {n: table(n, spec) if is_table(spec) else spec for n, spec in inputs.items()}
    exp = expected_join(on, inputs, jdefaults)
    # ---- join(inputs, on, defaults)
    try:
        jkw = dict(defaults=None if given is None else dict(given))
        if 'renames' in opts:
            jkw['renames'] = opts['renames']
        j = join(args(), on=list(on) if len(on) > 1 else on[0], **jkw)
        if not inputs:
            pass                                                                 # every parameter left to its default argument: nothing to join
        elif exp is None:
            rows = [dict(r) for r in j]
            c.check(len(rows) == 1 and rows[0] == dict(inputs), 'C20:join:scalars', 'join of scalars %s gives rows %r' % (txt, rows), case)
        else:
            rows = [dict(r) for r in j]
            want = [dict(zip(on, k), **row) for k, row in exp]
            c.check(len(rows) == len(want) and all(r in rows for r in want) and all(r in want for r in rows), 'C20:join:rows', 'join %s has rows %r, expected %r' % (txt, rows, want), case)
            got_keys = [tuple(r[col] for col in on) for r in rows]
            c.check(sorted(got_keys) != [k for k, _ in exp] or got_keys == [k for k, _ in exp], 'C20:sorted' + alpha, 'join %s has keys in order %r, expected sorted by %r: %r' % (txt, got_keys, on, [k for k, _ in exp]), case)
    except Exception as e:      # noqa
        c.check(False, 'C20:join:raises', 'join %s raised %r' % (txt, e), case)
    # ---- perdictable(f, on, defaults)(**inputs, data, expiry)
    log = []
    f = stub(names, log, fdefaults)
    kw = dict(on=list(on) if len(on) > 1 else on[0], **opts)
    if given is not None:
        kw['defaults'] = dict(given)
    p = perdictable(f, **kw)
    exp = expected_join(on, inputs, defaults)
    full = lambda row: dict({n: fdefaults[n] for n in omit}, **row)              # noqa: the arguments f sees
    call = args()
    state = {kt(k): s for k, s in cache}
    if cache:
        call['data'] = make_table(on, 'data', [[k, 'old_' + '_'.join(kt(k))] for k, _ in cache])
        call['expiry'] = make_table(on, 'expiry', [[k, dict(past=PAST, future=FUTURE, none=None)[s]] for k, s in cache])
    try:
        r = p(**call)
    except Exception as e:      # noqa
        c.check(False, 'C20:raises' + fd, 'perdictable(f, on=%r%s)(...) %s raised %r' % (on, ', defaults=%r' % given if 'defaults' in kw else '', txt, e), case)
        return
    if exp is None:
        want = '|'.join(str(full(inputs)[n]) for n in names)
        c.check(r == want, 'C20:scalars' + fd, 'all inputs scalar %s: returned %r, f(...) = %r' % (txt, r, want), case)
        c.check(len(log) == 1, 'C20:calls' + fd, 'all inputs scalar %s: f called %d times' % (txt, len(log)), case)
        return
    if len(exp) == 0:
        c.check(r is None or (is_dictable(r) and len(r) == 0), 'C20:rows:empty-join' + fd, 'no key is present in every table %s: returned %r' % (txt, r), case)
        c.check(len(log) == 0, 'C20:calls' + fd, 'no key is present in every table %s: f called %d times' % (txt, len(log)), case)
        return
    if not c.check(is_dictable(r), 'C20:rows:value' + fd, '%s returned %r, expected a table' % (txt, r), case):
        return
    rows = [dict(x) for x in r]
    got = {tuple(x[col] for col in on): x.get('data') for x in rows}
    want, calls = {}, []
    for k, row in exp:
        if state.get(k) == 'past':
            want[k] = 'old_' + '_'.join(k)
        else:
            want[k] = '|'.join(str(full(row)[n]) for n in names)
            calls.append(tuple(full(row)[n] for n in names))
    c.check(got == want and len(rows) == len(want), 'C20:rows:value' + fd, '%s returned %r, expected %r' % (txt, got, want), case)
    got_keys = [tuple(x[col] for col in on) for x in rows]
    c.check(sorted(got_keys) != sorted(want) or got_keys == sorted(want), 'C20:sorted' + alpha, '%s returned keys in order %r, expected sorted by %r: %r' % (txt, got_keys, on, sorted(want)), case)
    c.check(sorted(log, key=repr) == sorted(calls, key=repr), 'C20:calls' + fd, '%s: f was called with %r, expected exactly once for each of %r' % (txt, sorted(log, key=repr), sorted(calls, key=repr)), case)


def run_chunk(cases):
    c = Collector('C20', 'chunk')
    for case in cases:
        check_case(c, case)
        exp = expected_join(case['on'], build_scalars({n: v for n, v in case['inputs'].items() if n not in (case.get('omit') or [])}),
                            (case.get('fdefaults') or {}) if case.get('defaults') is None else case['defaults'])
        c.case(repr(case), nontrivial=bool(exp), sample=None)
    return dict(evaluations=c.evaluations, distinct=list(c.distinct), violations=c.violations)


# ----------------------------------------------------------------------------------------------- enumeration
def table_spec(rng, on, name, subset):
    ks = [keyspace(on)[i] for i in subset]
    rng.shuffle(ks)
    order = rng.choice(['on', 'on', 'rev', 'vfirst'])
    return ['T', [[k, '%s%s' % (name, ''.join(kt(k))[-2:])] for k in ks], order]


def all_subsets():
    return [tuple(i for i in range(4) if m >> i & 1) for m in range(16)]


def cases_for(rng, on, combo, quick):
    """combo: per input None (scalar) or a subset of key indexes. yields cases over every defaults subset and expiry assignments"""
    names = NAMES[:len(combo)]
    inputs = {n: (n.upper() if s is None else table_spec(rng, on, n, s)) for n, s in zip(names, combo)}
    for r in range(len(names) + 1):
        for dsub in itertools.combinations(names, r):
            defaults = {n: 'def' + n.upper() for n in dsub}
            base = dict(on=list(on), inputs=inputs, defaults=defaults if (dsub or rng.random() < .5) else None)
            yield dict(base, cache=[])
            exp = expected_join(on, inputs, defaults)
            if not exp:
                continue
            K = [list(k) if len(k) > 1 else k[0] for k, _ in exp]
            states = ['absent', 'past', 'future', 'none']
            assigns = list(itertools.product(states, repeat=len(K)))[1:]
            if len(assigns) > (2 if quick else 8):
                assigns = rng.sample(assigns, 2 if quick else 8)
            for a in assigns:
                cache = [[k, s] for k, s in zip(K, a) if s != 'absent']
                rng.shuffle(cache)
                yield dict(base, cache=cache)


def all_cases(rng, quick):
    subs = [None] + all_subsets()
    ons = [['key'], ['j', 'k'], ['k', 'j']]
    for on in ons:
        one = on == ['key']
        for n in (1, 2):                                         # every combination of 1 and 2 inputs
            for combo in itertools.product(subs, repeat=n):
                if quick and not one and n == 2 and rng.random() < .85:
                    continue
                yield from cases_for(rng, on, combo, quick)
        for n, count in ((3, 50 if quick else 1500), (4, 30 if quick else 1500)):
            for _ in range(count if one else count // 3):
                combo = tuple(None if rng.random() < .25 else rng.choice(all_subsets()[1:] if rng.random() < .85 else all_subsets()) for _ in range(n))
                for case in cases_for(rng, on, combo, True):
                    if rng.random() < .35:
                        yield case


# ---- wrapped functions with default arguments; defaults=None / {} / explicit; falsy-vs-None keywords
OPTS = [None, None, None, None, {'renames': {}}, {'if_none': True}, {'if_none': ['data']}, {'if_none': False}, {'output_is_input': False}, {'output_is_input': []},
        {'output_is_input': ['data']}, {'include_inputs': True}, {'include_inputs': False}, {'renames': None, 'if_none': False, 'output_is_input': True, 'include_inputs': False}]


def nonempty_subsets(names):
    return [list(c) for r in range(1, len(names) + 1) for c in itertools.combinations(names, r)]


def defaults_modes(rng, names, all_modes):
    """defaults=None (the function's own defaults apply), defaults={} (nothing is outer-joined), explicit non-empty subsets"""
    explicit = [{n: 'def' + n.upper() for n in sub} for sub in nonempty_subsets(names)]
    return [None, {}] + (explicit if all_modes else [rng.choice(explicit)])


def decorate(rng, case, quick):
    """the case itself, sometimes with other keywords / value column names, sometimes followed by a variant with previously computed keys"""
    case = dict(case, cache=[])
    opts = rng.choice(OPTS)
    if opts:
        case['opts'] = opts
    tabs = [n for n, v in case['inputs'].items() if is_table(v) and v[1] and n not in (case.get('omit') or [])]     # (dictable(data=[]) is no column)
    if tabs and rng.random() < .3:
        n = rng.choice(tabs)
        case['vcols'] = {n: rng.choice(['data', 'zz_' + n, ['zz_' + n, 'decoy_' + n]])}
    yield case
    if rng.random() < (.2 if quick else .6):
        inputs = {n: v for n, v in case['inputs'].items() if n not in (case.get('omit') or [])}
        exp = expected_join(case['on'], inputs, (case.get('fdefaults') or {}) if case.get('defaults') is None else case['defaults'])
        if exp:
            K = [list(k) if len(k) > 1 else k[0] for k, _ in exp]
            a = [rng.choice(['absent', 'past', 'past', 'future', 'none']) for _ in K]
            cache = [[k, st] for k, st in zip(K, a) if st != 'absent']
            rng.shuffle(cache)
            if cache:
                yield dict(case, cache=cache)


def fn_default_cases(rng, quick):
    sub3 = [tuple(i for i in range(3) if m >> i & 1) for m in range(8)]
    on = ['key']
    # (1) two parameters, every non-empty subset of them with a default argument, both passed as tables over every pair of subsets of 3 keys
    for sa, sb in itertools.product(sub3, repeat=2):
        for fsub in nonempty_subsets(['a', 'b']):
            inputs = {'a': table_spec(rng, on, 'a', sa), 'b': table_spec(rng, on, 'b', sb)}
            for mode in defaults_modes(rng, ['a', 'b'], True):
                yield from decorate(rng, dict(on=on, inputs=inputs, defaults=mode, fdefaults={n: 'f' + n.upper() for n in fsub}), quick)
    # (2) one of them a scalar, or left out of the call (f then uses its default argument)
    for s1 in sub3:
        for tab, other in (('a', 'b'), ('b', 'a')):
            for fsub in nonempty_subsets(['a', 'b']):
                fdefaults = {n: 'f' + n.upper() for n in fsub}
                for omit in ([], [other]) if other in fsub else ([],):
                    inputs = {n: (table_spec(rng, on, n, s1) if n == tab else n.upper()) for n in ('a', 'b')}
                    for mode in defaults_modes(rng, ['a', 'b'], not quick):
                        yield from decorate(rng, dict(on=on, inputs=inputs, defaults=mode, fdefaults=fdefaults, omit=omit), quick)
    for fsub in nonempty_subsets(['a', 'b']):       # no table at all
        for omit in [[]] + nonempty_subsets(fsub):
            for mode in (None, {}, {'a': 'defA'}):
                yield dict(on=on, inputs={'a': 'A', 'b': 'B'}, defaults=mode, fdefaults={n: 'f' + n.upper() for n in fsub}, omit=omit, cache=[])
    # (3) seeded: 2-4 parameters, one or two key columns, 4 keys
    for _ in range(160 if quick else 6000):
        on = rng.choice([['key'], ['key'], ['j', 'k'], ['k', 'j']])
        names = NAMES[:rng.choice([2, 3, 3, 4])]
        fsub = rng.choice(nonempty_subsets(names))
        inputs = {n: (n.upper() if rng.random() < .2 else table_spec(rng, on, n, rng.choice(all_subsets()[1:] if rng.random() < .9 else all_subsets()))) for n in names}
        omit = [n for n in fsub if rng.random() < .15]
        mode = rng.choice([None, None, {}, {}, {n: 'def' + n.upper() for n in rng.choice(nonempty_subsets(names))}])
        yield from decorate(rng, dict(on=on, inputs=inputs, defaults=mode, fdefaults={n: 'f' + n.upper() for n in fsub}, omit=omit), quick)


CONTAINER_SCALARS = [['S', 'tuple', [7, 8]], ['S', 'tuple', [7, 8, 9]], ['S', 'tuple', []], ['S', 'tuple', [7]], ['S', 'list', [7, 8]], ['S', 'list', [7]],
                     ['S', 'list', [7, 8, 9, 6]], ['S', 'range', 2], ['S', 'range', 3], ['S', 'func', 'len'], ['S', 'none', 0]]


def container_scalar_cases(rng, quick):
    """non-table inputs that are themselves containers or callables (a tuple of weights, a list, a range, a function, None): one value, broadcast to
    every row.  The lengths 1..4 meet joins with exactly that many rows and with other row counts"""
    for on in (['key'], ['j', 'k']):
        subsets = [(0,), (0, 1), (1, 3), (0, 1, 2), (0, 1, 2, 3)] if on == ['key'] else [(0, 1), (0, 1, 2)]
        for sc in CONTAINER_SCALARS:
            for sub in subsets:
                for defaults in (None, {'a': 'defA'}):
                    yield dict(on=on, inputs={'a': table_spec(rng, on, 'a', sub), 'b': sc}, defaults=defaults, cache=[])
                if len(sub) == 2:
                    yield dict(on=on, inputs={'b': sc, 'a': table_spec(rng, on, 'a', sub), 'c': table_spec(rng, on, 'c', (0, 1, 3))}, defaults=None, cache=[])
                    K = [keyspace(on)[i] for i in sub]
                    yield dict(on=on, inputs={'a': table_spec(rng, on, 'a', sub), 'b': sc}, defaults=None, cache=[[K[0], 'past'], [K[1], 'future']])
            yield dict(on=on, inputs={'b': sc, 'c': 'C'}, defaults=None, cache=[])
            yield dict(on=on, inputs={'b': sc}, defaults={}, cache=[])


def run(tier, seed):
    rng = random.Random(seed)
    quick = tier == 'quick'
    c = Collector('C20', rule='key columns: one (on="key", 4 keys) or two (on=[j,k] and on=[k,j], 4 key pairs); every combination of 1 and 2 inputs each a scalar or a table over any of the 16 subsets of the '
                  'keys (empty table included, rows shuffled)%s, seeded combinations of 3 and 4 inputs; every subset of inputs with defaults (defaults={} / not given alternate when the subset is empty); '
                  'previously computed keys: every assignment of {absent, past, future, None} to the joined keys when there are few, a seeded sample otherwise; both join(inputs, on, defaults) and '
                  'perdictable(f, on, defaults)(**inputs, data=, expiry=) with a counting stub f. Oracle: intersection of the key sets of the tables without defaults (union when every table has a default), '
                  'defaults filled in, sorted; past-expiry rows keep the supplied value, all others are computed once. '
                  'Wrapped functions WITH default arguments (every non-empty subset of the parameters a, b): both passed as tables over every pair of subsets of 3 keys, one a scalar, one left '
                  'out of the call, none a table; x defaults=None (the function defaults name the outer-joined inputs), defaults={} (none is), explicit non-empty subsets (every one when both are tables, %s otherwise); seeded cases with 2-4 '
                  'parameters on one or two key columns; a third of the cases with one more keyword that must change nothing (renames={}, if_none True/False/["data"], output_is_input '
                  'False/[]/["data"], include_inputs) or with the value column of a table named data / arbitrarily / picked by renames=; a fifth followed by a variant with previously computed keys. '
                  'Non-table inputs that are containers or callables (tuples of 0-3, lists of 1-4, ranges, a function, None) next to one or two tables of 1-4 rows, with and without a default / '
                  'previously computed keys, and with no table at all: one value broadcast to every row. Non-trivial: at least one joined row; distinct by case'
                  % (' (a 15% sample of the 2-input combinations for two key columns)' if quick else '', 'one seeded of the three' if quick else 'every one'),
                  exhaustive=False, scope='1-2 inputs x 17 choices each (all), 3-4 inputs sampled; all default subsets; expiry assignments over <= 4 keys (sampled when many)')
    import pyg_base                                     # noqa  imported before forking so that the children do not pay for it
    cases = list(all_cases(rng, quick))
    cases += list(fn_default_cases(rng, quick))         # drawn after every older draw: the older cases stay what they were for a given seed
    cases += list(container_scalar_cases(rng, quick))
    size = 400
    chunks = [cases[i:i + size] for i in range(0, len(cases), size)]
    for chunk, (status, res) in zip(chunks, run_chunks(chunks, nproc=1 if quick else 12, timeout=180)):
        if status != 'ok':
            # find the culprit one case at a time
            for case in chunk:
                st, r1 = call_with_timeout(run_chunk, ([case],), timeout=10)
                if st == 'ok':
                    _merge(c, r1)
                else:
                    c.evaluations += 1
                    c.check(False, 'C20:terminates' if st == 'hang' else 'C20:crash', 'case %r: %s %s' % (case, st, r1), case)
            continue
        _merge(c, res)
    for case in cases[::max(1, len(cases) // 8)][:8]:
        c.samples.append(case)
    return c.result()


def run_chunks(chunks, nproc, timeout):
    """run_chunk over every chunk in forked children (at most nproc at a time, hard kill after `timeout` seconds each);
    returns [(status, result)] in chunk order, status in ok / raise / hang"""
    import multiprocessing as mp, time, queue as _q
    if nproc <= 1:
        return [call_with_timeout(run_chunk, (ch,), timeout=timeout) for ch in chunks]
    ctx = mp.get_context('fork')

    def target(q, ch):
        try:
            q.put(('ok', run_chunk(ch)))
        except BaseException as e:       # noqa
            q.put(('raise', '%s: %s' % (type(e).__name__, e)))
    out, running, todo = [None] * len(chunks), {}, list(range(len(chunks)))
    while todo or running:
        while todo and len(running) < nproc:
            i = todo.pop(0)
            q = ctx.Queue()
            p = ctx.Process(target=target, args=(q, chunks[i]))
            p.start()
            running[i] = (p, q, time.time())
        for i, (p, q, t0) in list(running.items()):
            try:
                out[i] = q.get(timeout=0.05)
            except _q.Empty:
                if time.time() - t0 > timeout or not p.is_alive():
                    try:
                        out[i] = q.get(timeout=0.5)
                    except _q.Empty:
                        out[i] = ('hang', None) if p.is_alive() else ('raise', 'child died')
                else:
                    continue
            if p.is_alive() and out[i][0] == 'hang':
                p.kill()
            p.join()
            del running[i]
    return out


def _merge(c, res):
    c.evaluations += res['evaluations']
    c.distinct |= set(res['distinct'])
    for k, v in res['violations'].items():
        if k in c.violations:
            c.violations[k]['count'] += v['count']
        else:
            c.violations[k] = v


def replay(call):
    status, res = call_with_timeout(run_chunk, ([call],), timeout=20)
    if status == 'hang':
        return dict(fails=True, detail='did not terminate within 20 s')
    if status != 'ok':
        return dict(fails=True, detail='crashed: %s' % res)
    v = list(res['violations'].values())
    return dict(fails=bool(v), detail=v[0]['what'] if v else 'all clauses hold on the real code for this input')
