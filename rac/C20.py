"""C20 bounded stand-in: perdictable evaluates f once per row of the keyed join of its inputs; join with defaults.

A case is a JSON-able description: `on` (1 or 2 key columns), 1..4 inputs each a scalar or a table {key -> value} over a subset
of 4 keys, the subset of inputs with defaults, and for the previously computed keys an expiry state in {past, future, None}
(absent keys are simply not in the data / expiry tables).  f is a counting stub.  The oracle is a set intersection / union over the
key sets followed by a sort.  No NaN keys (D1: dictable.join does not terminate on distinct NaN keys); still, every chunk of cases runs
in a forked child with a hard timeout."""
import datetime, itertools, random, warnings
from rac.common import Collector, call_with_timeout

warnings.filterwarnings('ignore')
PAST, FUTURE = datetime.datetime(2000, 1, 1), datetime.datetime(2200, 1, 1)
KEYS1 = ['k1', 'k2', 'k3', 'k4']
KEYS2 = [['x', 'p'], ['x', 'q'], ['y', 'p'], ['y', 'q']]
NAMES = ['a', 'b', 'c', 'd']


def keyspace(on):
    return KEYS1 if len(on) == 1 else KEYS2


def kt(k):
    return tuple(k) if isinstance(k, list) else (k,)


def make_table(on, name, rows, col=None, order='on'):
    """rows: [[key, value], ...] in the given order; order: how the table stores its columns - key columns in the order of `on`,
    reversed ('rev'), or with the value column first ('vfirst').  The join must not depend on it."""
    from pyg_base import dictable
    keycols = {c: [kt(k)[i] for k, _ in rows] for i, c in enumerate(on)}
    val = {col or name: [v for _, v in rows]}
    if order == 'rev':
        cols = dict(list(reversed(list(keycols.items()))) + list(val.items()))
    elif order == 'vfirst':
        cols = dict(list(val.items()) + list(reversed(list(keycols.items()))))
    else:
        cols = dict(list(keycols.items()) + list(val.items()))
    return dictable(**cols)


def is_table(v):
    return isinstance(v, list) and len(v) in (2, 3) and v[0] == 'T'


def expected_join(on, inputs, defaults):
    """-> sorted list of (key tuple, {name: value})"""
    tables = {n: {kt(k): v for k, v in spec[1]} for n, spec in inputs.items() if is_table(spec)}
    nd = [n for n in tables if n not in defaults]
    wd = [n for n in tables if n in defaults]
    if not tables:
        return None
    if nd:
        K = set.intersection(*[set(tables[n]) for n in nd])
    else:
        K = set.union(*[set(tables[n]) for n in wd])
    out = []
    for k in sorted(K):
        row = {}
        for n, spec in inputs.items():
            row[n] = (tables[n][k] if k in tables[n] else defaults[n]) if n in tables else spec
        out.append((k, row))
    return out


def stub(names, log):
    src = 'lambda %s: (log.append((%s)), "|".join(str(v) for v in (%s)))[1]' % (', '.join(names), ''.join(n + ', ' for n in names), ''.join(n + ', ' for n in names))
    return eval(src, dict(log=log))


def _quiet():
    import logging
    logging.disable(logging.CRITICAL)


def check_case(c, case):
    from pyg_base import perdictable, join, is_dictable, dictable
    _quiet()
    on, inputs, defaults, cache = case['on'], case['inputs'], case.get('defaults') or {}, case.get('cache') or []
    names = list(inputs)
    alpha = ':on-order-not-alphabetical' if list(on) != sorted(on) else ''
    txt = 'on=%r inputs=%r defaults=%r previously computed=%r' % (on, inputs, defaults, cache)

    def args():
        return {n: make_table(on, n, spec[1], order=spec[2] if len(spec) > 2 else 'on') if is_table(spec) else spec for n, spec in inputs.items()}
    exp = expected_join(on, inputs, defaults)
    # ---- join(inputs, on, defaults)
    try:
        j = join(args(), on=list(on) if len(on) > 1 else on[0], defaults=dict(defaults))
        if exp is None:
            rows = [dict(r) for r in j]
            c.check(len(rows) == 1 and rows[0] == dict(inputs), 'C20:join:scalars', 'join of scalars %s gives rows %r' % (txt, rows), case)
        else:
            rows = [dict(r) for r in j]
            want = [dict(zip(on, k), **row) for k, row in exp]
            c.check(len(rows) == len(want) and all(r in rows for r in want) and all(r in want for r in rows), 'C20:join:rows', 'join %s has rows %r, expected %r' % (txt, rows, want), case)
            got_keys = [tuple(r[col] for col in on) for r in rows]
            c.check(sorted(got_keys) != [k for k, _ in exp] or got_keys == [k for k, _ in exp], 'C20:sorted' + alpha, 'join %s has keys in order %r, expected sorted by %r: %r' % (txt, got_keys, on, [k for k, _ in exp]), case)
    except Exception as e:      # noqa
        c.check(False, 'C20:join:raises', 'join %s raised %r' % (txt, e), case)
    # ---- perdictable(f, on, defaults)(**inputs, data, expiry)
    log = []
    f = stub(names, log)
    kw = dict(on=list(on) if len(on) > 1 else on[0])
    if case.get('defaults') is not None:
        kw['defaults'] = dict(defaults)
    p = perdictable(f, **kw)
    call = args()
    state = {kt(k): s for k, s in cache}
    if cache:
        call['data'] = make_table(on, 'data', [[k, 'old_' + '_'.join(kt(k))] for k, _ in cache])
        call['expiry'] = make_table(on, 'expiry', [[k, dict(past=PAST, future=FUTURE, none=None)[s]] for k, s in cache])
    try:
        r = p(**call)
    except Exception as e:      # noqa
        c.check(False, 'C20:raises', 'perdictable(f, on=%r%s)(...) %s raised %r' % (on, ', defaults=%r' % defaults if 'defaults' in kw else '', txt, e), case)
        return
    if exp is None:
        want = '|'.join(str(inputs[n]) for n in names)
        c.check(r == want, 'C20:scalars', 'all inputs scalar %s: returned %r, f(...) = %r' % (txt, r, want), case)
        c.check(len(log) == 1, 'C20:calls', 'all inputs scalar %s: f called %d times' % (txt, len(log)), case)
        return
    if len(exp) == 0:
        c.check(r is None or (is_dictable(r) and len(r) == 0), 'C20:rows:empty-join', 'no key is present in every table %s: returned %r' % (txt, r), case)
        c.check(len(log) == 0, 'C20:calls', 'no key is present in every table %s: f called %d times' % (txt, len(log)), case)
        return
    if not c.check(is_dictable(r), 'C20:rows:value', '%s returned %r, expected a table' % (txt, r), case):
        return
    rows = [dict(x) for x in r]
    got = {tuple(x[col] for col in on): x.get('data') for x in rows}
    want, calls = {}, []
    for k, row in exp:
        if state.get(k) == 'past':
            want[k] = 'old_' + '_'.join(k)
        else:
            want[k] = '|'.join(str(row[n]) for n in names)
            calls.append(tuple(row[n] for n in names))
    c.check(got == want and len(rows) == len(want), 'C20:rows:value', '%s returned %r, expected %r' % (txt, got, want), case)
    got_keys = [tuple(x[col] for col in on) for x in rows]
    c.check(sorted(got_keys) != sorted(want) or got_keys == sorted(want), 'C20:sorted' + alpha, '%s returned keys in order %r, expected sorted by %r: %r' % (txt, got_keys, on, sorted(want)), case)
    c.check(sorted(log, key=repr) == sorted(calls, key=repr), 'C20:calls', '%s: f was called with %r, expected exactly once for each of %r' % (txt, sorted(log, key=repr), sorted(calls, key=repr)), case)


def run_chunk(cases):
    c = Collector('C20', 'chunk')
    for case in cases:
        check_case(c, case)
        exp = expected_join(case['on'], case['inputs'], case.get('defaults') or {})
        c.case(repr(case), nontrivial=bool(exp), sample=None)
    return dict(evaluations=c.evaluations, distinct=list(c.distinct), violations=c.violations)


# ----------------------------------------------------------------------------------------------- enumeration
def table_spec(rng, on, name, subset):
    ks = [keyspace(on)[i] for i in subset]
    rng.shuffle(ks)
    order = rng.choice(['on', 'on', 'rev', 'vfirst'])
    return ['T', [[k, '%s%s' % (name, ''.join(kt(k))[-2:])] for k in ks], order]


def all_subsets():
    return [tuple(i for i in range(4) if m >> i & 1) for m in range(16)]


def cases_for(rng, on, combo, quick):
    """combo: per input None (scalar) or a subset of key indexes. yields cases over every defaults subset and expiry assignments"""
    names = NAMES[:len(combo)]
    inputs = {n: (n.upper() if s is None else table_spec(rng, on, n, s)) for n, s in zip(names, combo)}
    for r in range(len(names) + 1):
        for dsub in itertools.combinations(names, r):
            defaults = {n: 'def' + n.upper() for n in dsub}
            base = dict(on=list(on), inputs=inputs, defaults=defaults if (dsub or rng.random() < .5) else None)
            yield dict(base, cache=[])
            exp = expected_join(on, inputs, defaults)
            if not exp:
                continue
            K = [list(k) if len(k) > 1 else k[0] for k, _ in exp]
            states = ['absent', 'past', 'future', 'none']
            assigns = list(itertools.product(states, repeat=len(K)))[1:]
            if len(assigns) > (2 if quick else 8):
                assigns = rng.sample(assigns, 2 if quick else 8)
            for a in assigns:
                cache = [[k, s] for k, s in zip(K, a) if s != 'absent']
                rng.shuffle(cache)
                yield dict(base, cache=cache)


def all_cases(rng, quick):
    subs = [None] + all_subsets()
    ons = [['key'], ['j', 'k'], ['k', 'j']]
    for on in ons:
        one = on == ['key']
        for n in (1, 2):                                         # every combination of 1 and 2 inputs
            for combo in itertools.product(subs, repeat=n):
                if quick and not one and n == 2 and rng.random() < .85:
                    continue
                yield from cases_for(rng, on, combo, quick)
        for n, count in ((3, 50 if quick else 1500), (4, 30 if quick else 1500)):
            for _ in range(count if one else count // 3):
                combo = tuple(None if rng.random() < .25 else rng.choice(all_subsets()[1:] if rng.random() < .85 else all_subsets()) for _ in range(n))
                for case in cases_for(rng, on, combo, True):
                    if rng.random() < .35:
                        yield case


def run(tier, seed):
    rng = random.Random(seed)
    quick = tier == 'quick'
    c = Collector('C20', rule='key columns: one (on="key", 4 keys) or two (on=[j,k] and on=[k,j], 4 key pairs); every combination of 1 and 2 inputs each a scalar or a table over any of the 16 subsets of the '
                  'keys (empty table included, rows shuffled)%s, seeded combinations of 3 and 4 inputs; every subset of inputs with defaults (defaults={} / not given alternate when the subset is empty); '
                  'previously computed keys: every assignment of {absent, past, future, None} to the joined keys when there are few, a seeded sample otherwise; both join(inputs, on, defaults) and '
                  'perdictable(f, on, defaults)(**inputs, data=, expiry=) with a counting stub f. Oracle: intersection of the key sets of the tables without defaults (union when every table has a default), '
                  'defaults filled in, sorted; past-expiry rows keep the supplied value, all others are computed once. Non-trivial: at least one joined row; distinct by case'
                  % (' (a 15% sample of the 2-input combinations for two key columns)' if quick else ''),
                  exhaustive=False, scope='1-2 inputs x 17 choices each (all), 3-4 inputs sampled; all default subsets; expiry assignments over <= 4 keys (sampled when many)')
    import pyg_base                                     # noqa  imported before forking so that the children do not pay for it
    cases = list(all_cases(rng, quick))
    size = 400
    chunks = [cases[i:i + size] for i in range(0, len(cases), size)]
    for chunk, (status, res) in zip(chunks, run_chunks(chunks, nproc=1 if quick else 12, timeout=180)):
        if status != 'ok':
            # find the culprit one case at a time
            for case in chunk:
                st, r1 = call_with_timeout(run_chunk, ([case],), timeout=10)
                if st == 'ok':
                    _merge(c, r1)
                else:
                    c.evaluations += 1
                    c.check(False, 'C20:terminates' if st == 'hang' else 'C20:crash', 'case %r: %s %s' % (case, st, r1), case)
            continue
        _merge(c, res)
    for case in cases[::max(1, len(cases) // 8)][:8]:
        c.samples.append(case)
    return c.result()


def run_chunks(chunks, nproc, timeout):
    """run_chunk over every chunk in forked children (at most nproc at a time, hard kill after `timeout` seconds each);
    returns [(status, result)] in chunk order, status in ok / raise / hang"""
    import multiprocessing as mp, time, queue as _q
    if nproc <= 1:
        return [call_with_timeout(run_chunk, (ch,), timeout=timeout) for ch in chunks]
    ctx = mp.get_context('fork')

    def target(q, ch):
        try:
            q.put(('ok', run_chunk(ch)))
        except BaseException as e:       # noqa
            q.put(('raise', '%s: %s' % (type(e).__name__, e)))
    out, running, todo = [None] * len(chunks), {}, list(range(len(chunks)))
    while todo or running:
        while todo and len(running) < nproc:
            i = todo.pop(0)
            q = ctx.Queue()
            p = ctx.Process(target=target, args=(q, chunks[i]))
            p.start()
            running[i] = (p, q, time.time())
        for i, (p, q, t0) in list(running.items()):
            try:
                out[i] = q.get(timeout=0.05)
            except _q.Empty:
                if time.time() - t0 > timeout or not p.is_alive():
                    try:
                        out[i] = q.get(timeout=0.5)
                    except _q.Empty:
                        out[i] = ('hang', None) if p.is_alive() else ('raise', 'child died')
                else:
                    continue
            if p.is_alive() and out[i][0] == 'hang':
                p.kill()
            p.join()
            del running[i]
    return out


def _merge(c, res):
    c.evaluations += res['evaluations']
    c.distinct |= set(res['distinct'])
    for k, v in res['violations'].items():
        if k in c.violations:
            c.violations[k]['count'] += v['count']
        else:
            c.violations[k] = v


def replay(call):
    status, res = call_with_timeout(run_chunk, ([call],), timeout=20)
    if status == 'hang':
        return dict(fails=True, detail='did not terminate within 20 s')
    if status != 'ok':
        return dict(fails=True, detail='crashed: %s' % res)
    v = list(res['violations'].values())
    return dict(fails=bool(v), detail=v[0]['what'] if v else 'all clauses hold on the real code for this input')
