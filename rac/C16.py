"""C16 bounded stand-in: ulist set algebra, dictattr/Dict key algebra, Dict.__call__ dependency-ordered evaluation.
Oracles are plain list/dict comprehensions written from the property statement."""
import copy, itertools, random
from rac.common import Collector

SYMSETS = {'s0': [1, 2, 'a', (1, 2)], 's1': [1, 1.0, True, None]}       # s1: ==-equal elements of different type merge, first occurrence kept
ABSENT = 'zz'


def sym(symset, i):
    return ABSENT if i < 0 else SYMSETS[symset][i]


def dedup(xs):
    out = []
    for x in xs:
        if not any(x == y for y in out):
            out.append(x)
    return out


def same_list(a, b):
    """same length, pairwise == and same type position by position is not required (1 == 1.0 legitimately)"""
    return len(a) == len(b) and all(x == y for x, y in zip(a, b))


# ----------------------------------------------------------------------------------------------- ulist
def check_ulist_ctor(c, symset, idx):
    from pyg_base import ulist
    xs = [sym(symset, i) for i in idx]
    call = dict(kind='ulist_ctor', symset=symset, idx=list(idx))
    try:
        u = ulist(list(xs))
    except Exception as e:      # noqa
        return c.check(False, 'C16:ulist:constructor:raises', 'ulist(%r) raised %r' % (xs, e), call)
    exp = dedup(xs)
    ok = c.check(same_list(list(u), exp) and isinstance(u, ulist), 'C16:ulist:constructor', 'ulist(%r) = %r, expected first occurrences %r' % (xs, list(u), exp), call)
    # first-occurrence: the representative kept is the first of its ==-class (identity matters for 1 / 1.0 / True)
    ok &= c.check(all(any(a is x for x in xs[:[j for j, y in enumerate(xs) if y == a][0] + 1]) for a in u), 'C16:ulist:constructor:first-occurrence',
                  'ulist(%r) = %r does not keep the first occurrence of each element' % (xs, list(u)), call)
    return ok


def check_ulist_ops(c, symset, idx, operand):
    """operand = ['e', i] single element (i = -1: an absent element) or ['l', [i, ...]] a list"""
    from pyg_base import ulist

    class MyU(ulist):
        pass
    xs = [sym(symset, i) for i in idx]
    o = sym(symset, operand[1]) if operand[0] == 'e' else [sym(symset, i) for i in operand[1]]
    ol = [o] if operand[0] == 'e' else o
    call = dict(kind='ulist_ops', symset=symset, idx=list(idx), operand=operand)
    base = dedup(xs)
    exp = dict(add=dedup(base + ol), sub=[x for x in base if not any(x == y for y in ol)], and_=[x for x in base if any(x == y for y in ol)])
    exp['or_'] = exp['add']
    for cls in (ulist, MyU):
        try:
            u = cls(list(xs))
            o_before = copy.deepcopy(o)
            got = dict(add=u + o, or_=u | o, sub=u - o, and_=u & o)
        except Exception as e:      # noqa
            c.check(False, 'C16:ulist:raises', 'ulist(%r) op %r raised %r' % (xs, o, e), call)
            continue
        for op, r in got.items():
            name = op.strip('_')
            c.check(same_list(list(r), exp[op]), 'C16:ulist:%s' % name, 'ulist(%r) %s %r = %r, expected %r' % (xs, name, o, list(r), exp[op]), call)
            c.check(len(dedup(list(r))) == len(r), 'C16:ulist:no-duplicates', 'ulist(%r) %s %r = %r has duplicates' % (xs, name, o, list(r)), call)
            c.check(type(r) is cls, 'C16:ulist:result-type', '%s(%r) %s %r is a %s' % (cls.__name__, xs, name, o, type(r).__name__), call)
        c.check(same_list(list(u), base) and (o == o_before), 'C16:ulist:operands-unchanged', 'ulist(%r) or operand %r changed: %r, %r' % (xs, o_before, list(u), o), call)


# ----------------------------------------------------------------------------------------------- dictattr
VALUES = dict(a=1, b='vb', c=[1, 2], d=None, e=0)
CLASSES = ('dictattr', 'Dict', 'MyDict')


def get_cls(name):
    from pyg_base import dictattr, Dict
    if name == 'MyDict':
        global _MyDict
        try:
            return _MyDict
        except NameError:
            class MyDict(Dict):
                pass
            _MyDict = MyDict
            return _MyDict
    return dict(dictattr=dictattr, Dict=Dict)[name]


def make_d(clsname, keys):
    vals = {k: (list(VALUES[k]) if isinstance(VALUES[k], list) else VALUES[k]) for k in keys}
    return get_cls(clsname)(vals), vals


def _same_mapping(r, exp, cls, vals):
    """same class, exactly the expected keys, values untouched (identical objects where they come from d)"""
    return type(r) is cls and dict(r) == exp and list(r.keys()) == list(exp.keys()) and all(r[k] is vals[k] for k in r if k in vals and exp[k] is vals.get(k))


def check_dictattr(c, clsname, keys, sel):
    """keys: the keys of d (subset of a..e, in this order); sel: a key or a list of keys (present/absent/mixed)"""
    cls = get_cls(clsname)
    call = dict(kind='dictattr', cls=clsname, keys=list(keys), sel=sel)
    d, vals = make_d(clsname, keys)
    before = dict(vals)
    sl = sel if isinstance(sel, list) else [sel]
    unchanged = lambda: type(d) is cls and dict.__eq__(d, before) and list(dict.keys(d)) == list(keys) and all(d[k] is vals[k] for k in keys)   # noqa
    D = 'd = %s(%r)' % (clsname, before)
    try:
        # subtraction
        r = d - sel
        exp = {k: vals[k] for k in keys if k not in sl}
        c.check(_same_mapping(r, exp, cls, vals), 'C16:dictattr:sub', '%s; d - %r = %s(%r), expected %r' % (D, sel, type(r).__name__, dict(r), exp), call)
        c.check(list(r.keys()) == list(d.keys() - sel), 'C16:dictattr:sub:keys-law', '%s; (d - %r).keys() = %r but d.keys() - k = %r' % (D, sel, list(r.keys()), list(d.keys() - sel)), call)
        c.check(r is not d and unchanged(), 'C16:dictattr:receiver-unchanged', '%s; after d - %r d is %r' % (D, sel, dict(d)), call)
        # intersection
        r = d & sel
        exp = {k: vals[k] for k in keys if k in sl}
        c.check(_same_mapping(r, exp, cls, vals), 'C16:dictattr:and', '%s; d & %r = %s(%r), expected %r' % (D, sel, type(r).__name__, dict(r), exp), call)
        c.check(r is not d and unchanged(), 'C16:dictattr:receiver-unchanged', '%s; after d & %r d is %r' % (D, sel, dict(d)), call)
    except Exception as e:      # noqa
        c.check(False, 'C16:dictattr:raises', '%s; - / & with %r raised %r' % (D, sel, e), call)
    present = all(k in keys for k in sl)
    # d[list of keys] -> sub-mapping of the same class;   d[k1, k2] -> list of values
    if isinstance(sel, list):
        try:
            r = d[list(sel)]
            exp = {k: vals[k] for k in sl if k in keys}
            c.check(_same_mapping(r, exp, cls, vals), 'C16:dictattr:getitem-list', '%s; d[%r] = %s(%r), expected %r' % (D, sel, type(r).__name__, dict(r), exp), call)
        except KeyError as e:
            c.check(not present, 'C16:dictattr:getitem-list', '%s; d[%r] raised %r although every key is present' % (D, sel, e), call)
        except Exception as e:      # noqa
            c.check(False, 'C16:dictattr:raises', '%s; d[%r] raised %r' % (D, sel, e), call)
        try:
            r = d[tuple(sel)]
            c.check(present and isinstance(r, list) and len(r) == len(sl) and all(x is vals[k] for x, k in zip(r, sl)), 'C16:dictattr:getitem-tuple',
                    '%s; d[%r] = %r, expected %r' % (D, tuple(sel), r, [vals.get(k) for k in sl]), call)
        except KeyError as e:
            c.check(not present, 'C16:dictattr:getitem-tuple', '%s; d[%r] raised %r although every key is present' % (D, tuple(sel), e), call)
        except Exception as e:      # noqa
            c.check(False, 'C16:dictattr:raises', '%s; d[%r] raised %r' % (D, tuple(sel), e), call)
        c.check(unchanged(), 'C16:dictattr:receiver-unchanged', '%s; after d[...] with %r d is %r' % (D, sel, dict(d)), call)
    else:
        # attribute access mirrors item access
        try:
            if sel in keys:
                c.check(getattr(d, sel) is vals[sel] and d[sel] is vals[sel], 'C16:dictattr:attribute', '%s; d.%s = %r but d[%r] = %r' % (D, sel, getattr(d, sel), sel, d[sel]), call)
            else:
                try:
                    getattr(d, sel)
                    c.check(False, 'C16:dictattr:attribute', '%s; d.%s did not raise AttributeError' % (D, sel), call)
                except AttributeError:
                    pass
            e = d.copy()
            setattr(e, sel, 'new')
            c.check(type(e) is cls and e[sel] == 'new' and unchanged(), 'C16:dictattr:attribute', '%s; e = d.copy(); e.%s = "new" gives e = %r, d = %r' % (D, sel, dict(e), dict(d)), call)
            delattr(e, sel)
            c.check(sel not in e, 'C16:dictattr:attribute', '%s; del e.%s leaves %r' % (D, sel, dict(e)), call)
        except Exception as e:      # noqa
            c.check(False, 'C16:dictattr:raises', '%s; attribute access %r raised %r' % (D, sel, e), call)


def check_dictattr_update(c, clsname, keys, okeys, okind):
    """d + other == {**d, **other} (and d | other), same class, both operands unchanged. other: dict / same class"""
    cls = get_cls(clsname)
    call = dict(kind='dictattr_add', cls=clsname, keys=list(keys), okeys=list(okeys), okind=okind)
    d, vals = make_d(clsname, keys)
    ovals = {k: ('o' + k) for k in okeys}
    other = dict(ovals) if okind == 'dict' else cls(ovals)
    D = 'd = %s(%r)' % (clsname, dict(vals))
    exp = {**vals, **ovals}
    import operator
    for name, op in (('add', operator.add), ('or', operator.or_)):
        try:
            r = op(d, other)
        except Exception as e:      # noqa
            cls_sfx = ':dict-subclass-as-right-operand' if (clsname == 'MyDict' and okind == 'same') else ''
            c.check(False, 'C16:dictattr:%s:raises%s' % (name, cls_sfx), '%s; d %s %s(%r) raised %r' % (D, '+' if name == 'add' else '|', type(other).__name__, ovals, e), call)
            continue
        c.check(type(r) is cls and dict(r) == exp and list(r.keys()) == list(exp.keys()), 'C16:dictattr:%s' % name,
                '%s; d %s %r = %s(%r), expected %r' % (D, '+' if name == 'add' else '|', ovals, type(r).__name__, dict(r), exp), call)
        c.check(all(r[k] is vals[k] for k in keys if k not in okeys), 'C16:dictattr:%s' % name, '%s; values were copied or changed by %s' % (D, name), call)
    c.check(dict(d) == vals and list(d.keys()) == list(keys) and dict(other) == ovals and type(d) is cls, 'C16:dictattr:receiver-unchanged',
            '%s; after d + %r: d = %r, other = %r' % (D, ovals, dict(d), dict(other)), call)


RELABELS = ['kw', 'suffix', 'prefix', 'callable', 'dict', 'none']


def check_relabel(c, clsname, keys, how):
    cls = get_cls(clsname)
    call = dict(kind='relabel', cls=clsname, keys=list(keys), how=how)
    d, vals = make_d(clsname, keys)
    D = 'd = %s(%r)' % (clsname, dict(vals))
    try:
        if how == 'kw':
            r = d.relabel(a='x', c='y', q='never')
            m = lambda k: dict(a='x', c='y').get(k, k)      # noqa
        elif how == 'suffix':
            r, m = d.relabel('_s'), (lambda k: k + '_s')
        elif how == 'prefix':
            r, m = d.relabel('p_'), (lambda k: 'p_' + k)
        elif how == 'callable':
            r, m = d.relabel(lambda k: k.upper()), (lambda k: k.upper())
        elif how == 'dict':
            r = d.relabel(dict(b='bb'))
            m = lambda k: 'bb' if k == 'b' else k       # noqa
        else:
            r, m = d.relabel(), (lambda k: k)
        exp = {m(k): vals[k] for k in keys}
        c.check(type(r) is cls and dict(r) == exp and list(r.keys()) == list(exp.keys()) and all(r[m(k)] is vals[k] for k in keys), 'C16:dictattr:relabel',
                '%s; relabel(%s) = %s(%r), expected %r' % (D, how, type(r).__name__, dict(r), exp), call)
        c.check(r is not d and dict(d) == vals and list(d.keys()) == list(keys), 'C16:dictattr:receiver-unchanged', '%s; after relabel(%s) d = %r' % (D, how, dict(d)), call)
    except Exception as e:      # noqa
        c.check(False, 'C16:dictattr:raises', '%s; relabel(%s) raised %r' % (D, how, e), call)


# ----------------------------------------------------------------------------------------------- Dict.__call__
NAMES = ['k0', 'k1', 'k2', 'k3', 'k4', 'k5']
_FN = {}


def fn(name, args):
    """a function whose parameter names are `args` and which returns the symbolic term (name, arg values...)"""
    key = (name, tuple(args))
    if key not in _FN:
        _FN[key] = eval('lambda %s: (%r, %s)' % (', '.join(args), name, ''.join(a + ', ' for a in args)))
    return _FN[key]


def has_cycle(n, edges):
    deps = {i: {j for (a, j) in edges if a == i} for i in range(n)}
    done, left = set(), set(range(n))
    while left:
        ready = {i for i in left if deps[i] <= done}
        if not ready:
            return True
        done |= ready
        left -= ready
    return False


def check_call(c, clsname, n, edges, order, shadow, plain):
    """n derived keys k0..k(n-1); edge [i, j]: ki's function names kj as a parameter. Every function also names the base key 'x'
    when its index is even and the plain keyword 'w' when i % 3 == 0 and plain. shadow: k1 already exists in the mapping
    (the derived value must override it and dependants must see the derived value). order: the keyword order."""
    cls = get_cls(clsname)
    call = dict(kind='call', cls=clsname, n=n, edges=[list(e) for e in edges], order=list(order), shadow=shadow, plain=plain)
    edges = [tuple(e) for e in edges]
    base = dict(x='X', y='Y')
    if shadow:
        base['k1'] = 'old'
    args = {}
    for i in range(n):
        a = [NAMES[j] for (s, j) in edges if s == i]
        if i % 2 == 0:
            a.append('x')
        if plain and i % 3 == 0:
            a.append('w')
        args[i] = a
    d = cls(base)
    kw = {}
    for pos, i in enumerate(order):
        if plain and pos == len(order) // 2:
            kw['w'] = 'W'
        kw[NAMES[i]] = fn(NAMES[i], args[i])
    if plain and 'w' not in kw:
        kw['w'] = 'W'
    txt = '%s(%r)(%s)' % (clsname, base, ', '.join('%s=%s' % (k, ('lambda %s: ...' % ','.join(args[NAMES.index(k)])) if k in NAMES else repr(v)) for k, v in kw.items()))
    cyc = has_cycle(n, edges)
    try:
        r = d(**kw)
    except ValueError as e:
        c.check(cyc, 'C16:Dict.__call__:acyclic-raises', '%s raised %r although the dependency graph is acyclic' % (txt, e), call)
        c.check(dict(d) == base, 'C16:Dict.__call__:receiver-unchanged', '%s changed d to %r' % (txt, dict(d)), call)
        return
    except Exception as e:      # noqa
        c.check(False, 'C16:Dict.__call__:raises', '%s raised %r' % (txt, e), call)
        return
    if cyc:
        c.check(False, 'C16:Dict.__call__:cycle-not-detected', '%s returned %r although the definitions are circular' % (txt, dict(r)), call)
        return
    # oracle: evaluate in dependency order
    env = dict(base)
    if plain:
        env['w'] = 'W'
    val, left = {}, set(range(n))
    while left:
        for i in sorted(left):
            if all(NAMES[j] in val for (s, j) in edges if s == i):
                val[NAMES[i]] = (NAMES[i],) + tuple(val[a] if a in val else env[a] for a in args[i])
                left.discard(i)
    exp = {**env, **val}
    c.check(type(r) is cls and dict(r) == exp, 'C16:Dict.__call__:value', '%s = %r, dependency-order evaluation gives %r' % (txt, dict(r), exp), call)
    c.check(dict(d) == base, 'C16:Dict.__call__:receiver-unchanged', '%s changed d to %r' % (txt, dict(d)), call)


def check_call_named(c, clsname, name):
    """an item of the mapping named like a parameter of one of the implementation's own functions (`key`, `value`, `function` ...): a callable
    that asks for it by that name gets the mapping's value, in d(k0 = f), d[f] and d.apply(f)"""
    cls = get_cls(clsname)
    call = dict(kind='call_named', cls=clsname, name=name)
    base = {name: 'N', 'x': 'X'}
    f = fn('k0', [name, 'x'])
    want = ('k0', 'N', 'X')
    for how, run in (('d(k0 = f)', lambda d: d(k0=f)['k0']), ('d[f]', lambda d: d[f]), ('d.apply(f)', lambda d: d.apply(f))):
        d = cls(base)
        txt = '%s(%r): %s with f = lambda %s, x: ...' % (clsname, base, how, name)
        try:
            r = run(d)
        except Exception as e:      # noqa
            c.check(False, 'C16:Dict.__call__:raises:item-named-like-a-parameter', '%s raised %r' % (txt, e), call)
            continue
        c.check(r == want, 'C16:Dict.__call__:value:item-named-like-a-parameter', '%s gives %r, expected %r' % (txt, r, want), call)
        c.check(dict(d) == base, 'C16:Dict.__call__:receiver-unchanged', '%s changed d to %r' % (txt, dict(d)), call)


def all_graphs(n):
    pairs = [(i, j) for i in range(n) for j in range(n) if i != j]
    for mask in range(1 << len(pairs)):
        yield [p for b, p in enumerate(pairs) if mask >> b & 1]


# ----------------------------------------------------------------------------------------------- driver
def _sampler(limit=2):
    """-> take(category, sample, when=True): the sample for the first `limit` cases of a category that satisfy `when`, else None"""
    counts = {}

    def take(cat, d, when=True):
        if when and counts.get(cat, 0) < limit:
            counts[cat] = counts.get(cat, 0) + 1
            return d
        return None
    return take


def run(tier, seed):
    rng = random.Random(seed)
    quick = tier == 'quick'
    c = Collector('C16', rule='ulist constructor: every list of length <= 6 over the 4 symbols {1, 2, "a", (1,2)} (5461 lists) and over {1, 1.0, True, None} (==-equal elements); '
                  'ulist + | - &: every list of length <= 4 over 4 symbols x every operand that is one symbol, an absent element, or a list of length <= 2 over symbols and the absent '
                  'element, for ulist and a subclass; dictattr / Dict / a Dict subclass: every key subset of {a..e} (values int/str/list/None, no nested dicts, no dotted keys) x every selection '
                  'that is one key or a list of <= %d keys over {a,b,c,d} and two absent keys: -, &, [list], [tuple], attribute get/set/del; + and | against every mapping over subsets of '
                  '{a,b,zz} given as dict or same class; relabel by keyword, suffix, prefix, callable, dict; Dict.__call__: every simple digraph (no self-loops) of dependencies among n <= %d '
                  'derived keys in every keyword order, with/without a derived key shadowing an existing key and a plain keyword between the callables, n = 5, 6 seeded samples of graphs '
                  'and orders. A case is non-trivial when the list / mapping / graph is non-empty; distinct by input' % (2 if quick else 3, 4),
                  exhaustive=True, scope='ulist lists <= 6 over 4 symbols (constructor), <= 4 (operators); mappings over 5 keys; dependency digraphs on <= 4 derived keys x all orders')
    take = _sampler(2)
    # --- ulist
    for symset in SYMSETS:
        for n in range(0, 7):
            for idx in itertools.product(range(4), repeat=n):
                check_ulist_ctor(c, symset, idx)
                c.case(('ctor', symset, idx), nontrivial=n > 0, sample=take('ctor', dict(ulist=[repr(sym(symset, i)) for i in idx]), n == 5 and idx[0] == 2))
    operands = [['e', i] for i in range(-1, 4)] + [['l', list(t)] for k in range(0, 3) for t in itertools.product(range(-1, 4), repeat=k)]
    for symset in SYMSETS:
        for n in range(0, 5):
            for idx in itertools.product(range(4), repeat=n):
                ops = operands if (symset == 's0' or not quick) else operands[:12]
                for o in ops:
                    check_ulist_ops(c, symset, idx, o)
                    c.case(('ops', symset, idx, repr(o)), nontrivial=n > 0, sample=take('ops', dict(ulist=[repr(sym(symset, i)) for i in idx], operand=o), n == 3 and o[0] == 'l' and len(o[1]) == 2 and idx[0] == 1))
    # --- dictattr and subclasses
    allkeys = 'abcde'
    pool = ['a', 'b', 'c', 'd', 'zz', 'yy']
    # single keys, two absent multi-character keys spelled with the characters of present keys ('ab' is one key, not the keys 'a' and 'b'), lists of keys
    sels = list(pool) + ['ab', 'dca'] + [list(t) for k in range(0, (2 if quick else 3) + 1) for t in itertools.product(pool, repeat=k)] + [['ab'], ['a', 'dca']]
    for clsname in CLASSES:
        for mask in range(1 << len(allkeys)):
            keys = [k for b, k in enumerate(allkeys) if mask >> b & 1]
            if mask % 3 == 1:
                keys = keys[::-1]
            for sel in sels:
                check_dictattr(c, clsname, keys, sel)
                c.case(('dictattr', clsname, tuple(keys), repr(sel)), nontrivial=len(keys) > 0 and sel != [], sample=take('dictattr', dict(cls=clsname, keys=keys, selection=sel), len(keys) == 3 and isinstance(sel, list) and len(sel) == 2))
            for omask in range(8):
                okeys = [k for b, k in enumerate(['a', 'b', 'zz']) if omask >> b & 1]
                for okind in ('dict', 'same'):
                    check_dictattr_update(c, clsname, keys, okeys, okind)
                    c.case(('dictattr+', clsname, tuple(keys), tuple(okeys), okind), nontrivial=len(keys) > 0 and len(okeys) > 0)
            for how in RELABELS:
                check_relabel(c, clsname, keys, how)
                c.case(('relabel', clsname, tuple(keys), how), nontrivial=len(keys) > 0)
    # --- Dict.__call__
    from rac.common import implementation_identifiers
    for name in implementation_identifiers(('_dict', '_dictattr')):
        if name in ('x', 'k0'):
            continue
        for clsname in ('Dict', 'MyDict'):
            check_call_named(c, clsname, name)
            c.case(('call_named', clsname, name), nontrivial=True, sample=take('call_named', dict(cls=clsname, item=name), name == 'key'))
    for n in range(1, 5):
        for g, edges in enumerate(all_graphs(n)):
            for o, order in enumerate(itertools.permutations(range(n))):
                shadow, plain = bool((g + o) % 2), bool((g // 2 + o) % 3 == 0)
                check_call(c, 'Dict' if (g + o) % 5 else 'MyDict', n, edges, order, shadow, plain)
                c.case(('call', n, g, order), nontrivial=n > 1, sample=take('call', dict(n=n, edges=edges, order=list(order)), n == 4 and g % 997 == 5))
    for n in (5, 6):
        pairs = [(i, j) for i in range(n) for j in range(n) if i != j]
        for _ in range(300 if quick else 6000):
            if rng.random() < .7:      # a DAG along a random topological order, possibly with one back edge
                perm = rng.sample(range(n), n)
                edges = [(perm[i], perm[j]) for i in range(n) for j in range(i) if rng.random() < .4]
                if rng.random() < .25 and edges:
                    a, b = rng.choice(edges)
                    edges.append((b, a))
            else:
                edges = [p for p in pairs if rng.random() < .15]
            edges = sorted(set(edges))
            for _ in range(4 if quick else 12):
                order = rng.sample(range(n), n)
                check_call(c, 'Dict', n, edges, order, rng.random() < .5, rng.random() < .5)
                c.case(('call', n, tuple(edges), tuple(order)))
    return c.result()


def replay(call):
    c = Collector('C16', 'replay')
    kind = call.get('kind')
    if kind == 'ulist_ctor':
        check_ulist_ctor(c, call['symset'], call['idx'])
    elif kind == 'ulist_ops':
        check_ulist_ops(c, call['symset'], call['idx'], call['operand'])
    elif kind == 'dictattr':
        check_dictattr(c, call['cls'], call['keys'], call['sel'])
    elif kind == 'dictattr_add':
        check_dictattr_update(c, call['cls'], call['keys'], call['okeys'], call['okind'])
    elif kind == 'relabel':
        check_relabel(c, call['cls'], call['keys'], call['how'])
    elif kind == 'call_named':
        check_call_named(c, call['cls'], call['name'])
    elif kind == 'call':
        check_call(c, call['cls'], call['n'], call['edges'], call['order'], call['shadow'], call['plain'])
    else:
        return dict(fails=None, detail='no replay for kind %r' % kind)
    v = list(c.violations.values())
    return dict(fails=bool(v), detail=v[0]['what'] if v else 'all clauses hold on the real code for this input')
