"""Replay for the deductive C13 obligations.  The solver's counterexamples are interpretations of uninterpreted pandas operations and
cannot be turned into a DataFrame; what can be replayed is the *clause* the failed obligation states.  Each obligation family therefore
maps to a fixed battery of discriminating native inputs (bounds on / between index points under all four bracket pairs, decreasing bound
lists, equal times of day, ...) evaluated on the real code against the oracles of the bounded stand-in (rac/C13.py)."""
import datetime, warnings

from rac import C13 as B

KNOWN = set()          # none of the bounded module's input-class keys is a listed finding any more (all fixed): every key counts


def _jobs(jobs):
    fails = []
    for job in jobs:
        n, fs = B.run_job(job)
        fails += [(k, w) for k, w, _ in fs if k not in KNOWN]
    return fails


def replay_closed(call):
    from pyg_base._pandas import _closed
    bad = []
    codes = [call['c']] if isinstance(call.get('c'), int) and 0 < call['c'] < 0x110000 else list(range(32, 127))
    for c in codes:
        ch = chr(c)
        try:
            got = _closed(ch)
        except ValueError:
            got = 'ValueError'
        exp = False if ch in '()oO' else True if ch in '[]cC' else 'ValueError'
        if got is not exp and got != exp:
            bad.append('_closed(%r) = %r, expected %r' % (ch, got, exp))
    return bad


def replay_dfslice(call):
    import pandas as pd
    from pyg_base._pandas import _df_slice
    warnings.filterwarnings('ignore')
    bad = [w for _, w in _jobs([dict(kind='single', idx=s, frame=f) for s in ([0, 2, 4, 6, 8, 10], [2, 4, 8], [4]) for f in (False, True)])]
    bad += [w for _, w in _jobs([dict(kind='tod', rows=[list(r) for r in B.TOD_ROWS])])]
    return bad


def replay_lists(call):
    jobs = []
    for series in ([[0, 2, 4, 6, 8, 10]] * 3, [[0, 2, 4], [2, 4, 6, 8], [6, 8, 10]], [[0, 2, 4, 6, 8, 10]] * 2, [[0, 4, 8]]):
        k = len(series)
        for ubs in ([3, 7, 11][:k], [11, 7, 3][:k], [2, 4, 8][:k], [8, 4, 2][:k]):
            if len(ubs) == k:
                jobs.append(dict(kind='stitch', series=series, ubs=ubs, n=1, unslice=False))
    bad = [w for _, w in _jobs(jobs)]
    # lower-bound-only and both-bounds stitching against a row-by-row oracle
    import pandas as pd
    from pyg_base import df_slice
    warnings.filterwarnings('ignore')
    idx = pd.DatetimeIndex([B.ts(o) for o in range(0, 12)])
    ss = [pd.Series(float(i), idx) for i in range(3)]
    for lbs in ([1, 4, 8], [8, 4, 1]):
        got = df_slice(ss, lb=[B.ts(o) for o in lbs])
        order = sorted(range(3), key=lambda i: lbs[i])
        exp = {}
        for pos, i in enumerate(order):
            lo, hi = lbs[i], (lbs[order[pos + 1]] if pos + 1 < 3 else None)
            for o in range(0, 12):
                if o > lo and (hi is None or o <= hi):
                    exp[B.ts(o)] = float(i)
        g = {t: float(v) for t, v in zip(got.index, got.values)}
        if g != exp:
            bad.append('df_slice(series, lb=%s): got %s, expected %s' % (lbs, sorted(g.items())[:6], sorted(exp.items())[:6]))
    for rev in (False, True):
        lbs, ubs = [0, 4, 8], [3, 7, 11]
        if rev:
            lbs, ubs = lbs[::-1], ubs[::-1]
        sl = ss[::-1] if rev else ss
        got = df_slice(sl, lb=[B.ts(o) for o in lbs], ub=[B.ts(o) for o in ubs])
        exp = {B.ts(o): float(sl[i].iloc[0]) for i in range(3) for o in range(12) if lbs[i] < o <= ubs[i]}
        g = {t: float(v) for t, v in zip(got.index, got.values)}
        if g != exp:
            bad.append('df_slice(series, lb=%s, ub=%s): got %s, expected %s' % (lbs, ubs, sorted(g.items())[:6], sorted(exp.items())[:6]))
    try:
        df_slice(ss, lb=[B.ts(o) for o in (0, 4, 8)], ub=[B.ts(o) for o in (11, 7, 3)])
        bad.append('df_slice with lower bounds increasing and upper bounds decreasing did not raise ValueError')
    except ValueError:
        pass
    return bad


def replay_columns(call):
    jobs = []
    for series in ([[0, 2, 4, 6, 8, 10]] * 4, [[0, 2, 4], [2, 4, 6, 8], [6, 8, 10], [0, 10]], [[0, 2, 4, 6, 8, 10]] * 2):
        k = len(series)
        for ubs in ([2, 5, 8, 11][:k], [11, 8, 5, 2][:k]):
            for n in range(1, k + 1):
                jobs.append(dict(kind='stitch', series=series, ubs=ubs, n=n, unslice=True))
    return [w for _, w in _jobs(jobs)]


def replay_mono(call):
    from pyg_base._pandas import _is_non_decreasing
    bad = []
    for v, exp in (([], True), ([1], True), ([1, 2, 3], True), ([1, 2, 2], True), ([1, 2, None], True), ([None, 1, 2], True), ([3, 2, 1], False), ([2, 2, 1], False),
                   ([2, 1, None], False), ([None, 2, 1], False), ([1, 3, 2], ValueError), ([None, 1, None], True), ([None, 3, 1, None], False)):
        try:
            got = _is_non_decreasing(list(v))
        except (ValueError, TypeError) as e:
            got = ValueError
        if got is not exp:
            bad.append('_is_non_decreasing(%r) = %r, expected %r' % (v, got, exp))
    return bad


def replay_wrap(call):
    return [w for _, w in _jobs([dict(kind='tod', rows=[list(r) for r in B.TOD_ROWS]), dict(kind='tod', rows=[list(r) for r in B.TOD_ROWS[::2]])])]


def _replay(call):
    kind = call.get('kind')
    if kind == 'lists' and call.get('which') in ('columns', 'unslice'):
        kind = 'columns'
    if kind == 'lists' and call.get('which') == 'mono':
        kind = 'mono'
    fn = dict(closed=replay_closed, dfslice=replay_dfslice, lists=replay_lists, wrap=replay_wrap, columns=replay_columns, mono=replay_mono).get(kind)
    if fn is None:
        return dict(fails=None, detail='no native battery for %r' % kind)
    bad = fn(call)
    return dict(fails=bool(bad), detail=('; '.join(bad))[:600] if bad else 'the clause holds on the real code for the whole battery of this obligation family')


def replay(call):
    from rac.ded_cache import cached
    return cached(__name__, call, lambda: _replay(call), uses=('c',), deps=(__file__, B.__file__))
