"""C17 bounded stand-in: versions merged with bi_merge in non-decreasing stamp order; bi_read(store, asof=T) must show, per
observation date, the latest value published with stamp <= T (same stamp: the one merged last; a NaN never overrides an earlier
value), no row for dates first published after T; what=0 gives the first value published per date; re-merging a version that is
in the store changes no as-of read.

Oracle: a per-date fold over the publication history (python lists only).  Publications of one date are grouped by stamp; the
value standing at a stamp is the last non-NaN value published up to and including that stamp (NaN if there is none yet).
what=-1 -> the value standing at the last stamp <= T; what=0 -> the value standing at the first stamp (<= T).
`call` = dict(history=[[stamp, {date: value|'nan'}], ...], reads=[[T|None, what], ...], remerge=[version numbers])
with stamps in half-days from STAMP0 and dates in days from DATE0.

Two input classes have their own keys:
* several publications of one date share that date's FIRST stamp.  The store keeps one row per (date, stamp) - the one merged last - so
  what=0 shows the value standing at the first stamp, not the value of the publication merged first ("the first value published per
  date" read literally).  Where the two readings differ and the library shows the standing value: K_FIRST.
* histories of more than 16 publications in which some date has two publications sharing a stamp: bi_merge orders the concatenated rows
  with DataFrame.sort_values(updated) - quicksort, not stable beyond 16 rows - so "of several sharing a stamp the one merged last" can
  fail.  Failures of the as-of / re-merge clauses there carry the suffix BIG."""
import datetime, itertools, json, random, warnings
from rac.common import Collector

D = datetime.datetime
NAN = float('nan')
DATE0 = D(2020, 1, 1)
STAMP0 = D(2021, 1, 1)
HALF = datetime.timedelta(hours=12)
VALS = [1.0, 2.0, 'nan']
K_FIRST = 'C17:first-published:what=0:first-stamp-shared'
BIG = ':shared-stamp:over-16-publications'


def isn(x):
    return isinstance(x, float) and x != x


def same(x, y):
    x, y = float(x), float(y)
    return (x != x and y != y) or x == y


def dec(v):
    return NAN if v == 'nan' else float(v)


def stamp(h):
    return STAMP0 + h * HALF


def date(d):
    return DATE0 + datetime.timedelta(days=int(d))


# ------------------------------------------------------------------ oracle
def oracle(history, T, what):
    """history: [(stamp, {date: value})] in merge order, stamps non-decreasing.  Returns {date: value}."""
    out = {}
    dates = sorted(set(d for _, v in history for d in v))
    for d in dates:
        standing = []            # [(stamp, value standing at that stamp)]
        cur = NAN
        for s, v in history:
            if d not in v or (T is not None and s > T):
                continue
            if not isn(v[d]):
                cur = v[d]
            if standing and standing[-1][0] == s:
                standing[-1] = (s, cur)
            else:
                standing.append((s, cur))
        if standing:
            out[d] = standing[-1][1] if what == -1 else standing[0][1]
    return out


def first_published(history, T):
    """what=0 read literally: per date the value of the publication merged first among those stamped <= T (NaN if that one was NaN)"""
    out = {}
    for s, v in history:
        if T is not None and s > T:
            continue
        for d, x in v.items():
            out.setdefault(d, x)
    return out


def big_class(history):
    """more than 16 publications (rows over all versions) and some date published twice under one stamp"""
    if sum(len(v) for _, v in history) <= 16:
        return False
    seen = set()
    for s, v in history:
        for d in v:
            if (d, s) in seen:
                return True
            seen.add((d, s))
    return False


# ------------------------------------------------------------------ one history on the real code
def run_job(job):
    import pandas as pd, numpy as np
    from pyg_base import bi_merge, bi_read, Bi
    warnings.filterwarnings('ignore')
    history = [(int(s), {int(d): dec(x) for d, x in v.items()}) for s, v in job['history']]
    call0 = dict(history=job['history'])
    out, n = [], 0

    def version(s, v):
        ds = sorted(v)
        return Bi(pd.Series([v[d] for d in ds], pd.DatetimeIndex([date(d) for d in ds]), dtype=float), stamp(s))

    def spell_asof(T, how):
        t = stamp(T)
        return t if how == 'datetime' else pd.Timestamp(t) if how == 'Timestamp' else np.datetime64(t)

    def read(store, T, what, how='datetime'):
        r = bi_read(store, what=what) if T is None else bi_read(store, spell_asof(T, how), what)
        if isinstance(r, pd.DataFrame):
            if r.shape[1] != 1:
                raise TypeError('bi_read returned a frame with columns %s' % list(r.columns))
            r = r.iloc[:, 0]
        return {(t - DATE0).days: float(x) for t, x in zip(r.index, r.values)}

    def agree(a, b):
        return set(a) == set(b) and all(same(a[d], b[d]) for d in a)
    big = BIG if big_class(history) else ''
    try:
        store = None
        for s, v in history:
            store = bi_merge(store, version(s, v))
    except Exception as e:      # noqa
        return 1, [('C17:merge:raises', 'merging %s raised %s: %s' % (job['history'], type(e).__name__, e), call0)]
    stamps = sorted(set(s for s, _ in history))
    reads = job.get('reads')
    if reads is None:
        Ts = [None, stamps[0] - 1] + stamps + [s + 1 for s in stamps]          # before, on, between (half a day later), after
        reads = [(T, w) for T in dict.fromkeys(Ts) for w in (-1, 0)]
    got_all = {}
    for T, what in reads:
        n += 1
        call = dict(history=job['history'], reads=[[T, what]])
        exp = oracle(history, T, what)
        try:
            got = read(store, T, what)
        except Exception as e:      # noqa
            out.append(('C17:read:raises', 'history %s: bi_read(asof=%s, what=%d) raised %s: %s' % (job['history'], T, what, type(e).__name__, e), call))
            continue
        got_all[(T, what)] = got
        late = [d for d in got if d not in exp]
        if late:
            out.append(('C17:leak:row-for-date-published-later', 'history %s: read as of %s shows dates %s first published later' % (job['history'], T, late), call))
        elif what == 0:
            lit = first_published(history, T)
            # dates on which "first value published" read literally (the publication merged first) and the value standing at the first stamp differ:
            # there the literal value is demanded; the library showing the standing value is the input class K_FIRST, anything else the plain clause
            split = [d for d in exp if not same(exp[d], lit[d])]
            rest_ok = set(got) == set(exp) and all(same(got[d], exp[d]) for d in exp if d not in split)
            wrong = [d for d in split if d in got and not same(got[d], lit[d])]
            if not rest_ok or any(not same(got[d], exp[d]) for d in wrong):
                out.append(('C17:asof:what=0' + big, 'history (stamp, {date: value}) %s: bi_read(asof=%s, what=0) = %s, expected %s (value standing at the first stamp; first '
                            'publication %s)' % (job['history'], T, got, exp, lit), call))
            elif wrong:
                out.append((K_FIRST, 'history (stamp, {date: value}) %s: bi_read(asof=%s, what=0) = %s, but the first value published per date is %s (dates %s: several '
                            'publications share the first stamp and the store keeps the one merged last)' % (job['history'], T, got, lit, wrong), call))
        elif agree(got, exp) and T is not None and what == -1:
            # the read time in its other spellings (pandas Timestamp, numpy datetime64) sees the same store
            for how in ('Timestamp', 'datetime64'):
                n += 1
                try:
                    other = read(store, T, what, how)
                except Exception as e:      # noqa
                    out.append(('C17:read:raises:asof-as-' + how, 'history %s: bi_read(asof=%s as %s) raised %s: %s' % (job['history'], T, how, type(e).__name__, e), call))
                    continue
                if not agree(other, exp):
                    out.append(('C17:asof:read-time-as-' + how + big, 'history (stamp, {date: value}) %s: bi_read(asof=%s given as %s) = %s, expected %s' % (
                        job['history'], T, how, other, exp), call))
        elif not agree(got, exp):
            out.append(('C17:asof:what=%d' % what + big, 'history (stamp, {date: value}) %s: bi_read(asof=%s, what=%d) = %s, expected %s' % (job['history'], T, what, got, exp), call))
    # merging a version that is in the store leaves every read unchanged: the last version, and any earlier version whose rows are
    # all still present in the store (same date, stamp and value)
    held = set()
    try:
        col = [c for c in store.columns if c != 'updated'][0]
        held = set((int((t - DATE0).days), u.to_pydatetime(), None if x != x else float(x)) for t, u, x in zip(store.index, store['updated'], store[col].values))
    except Exception:       # noqa
        pass
    cands = job.get('remerge')
    if cands is None:
        cands = [i for i, (s, v) in enumerate(history) if i == len(history) - 1 or all((d, stamp(s), None if isn(x) else x) in held for d, x in v.items())]
    for i in cands:
        s, v = history[i]
        call = dict(history=job['history'], reads=[list(k) for k in got_all], remerge=[i])
        try:
            store2 = bi_merge(store, version(s, v))
            for (T, what), before in got_all.items():
                n += 1
                after = read(store2, T, what)
                if not agree(before, after):
                    out.append(('C17:remerge' + big, 'history %s: after merging version %d again, bi_read(asof=%s, what=%d) went from %s to %s' % (
                        job['history'], i, T, what, before, after), call))
                    break
        except Exception as e:      # noqa
            out.append(('C17:remerge:raises', 'history %s: merging version %d again raised %s: %s' % (job['history'], i, type(e).__name__, e), call))
    return n, out


# ------------------------------------------------------------------ enumerators
def versions(ndates):
    """every non-empty partial series over the observation dates: each date absent or one of {1, 2, NaN}"""
    out = []
    for combo in itertools.product([None] + VALS, repeat=ndates):
        v = {str(d): x for d, x in enumerate(combo) if x is not None}
        if v:
            out.append(v)
    return out


def stamp_patterns(k):
    """non-decreasing stamps with ties: each version either shares the previous stamp or is two half-days later"""
    for steps in itertools.product([0, 2], repeat=k - 1):
        s, out = 0, [0]
        for st in steps:
            s += st
            out.append(s)
        yield out


def jobs_for(tier, seed):
    rng = random.Random(seed)
    quick = tier == 'quick'
    jobs = []

    def complete(ndates, k):
        vs = versions(ndates)
        for combo in itertools.product(vs, repeat=k):
            for st in stamp_patterns(k):
                yield dict(history=[[s, v] for s, v in zip(st, combo)])
    # complete sub-scopes
    full = [(1, 1), (1, 2), (1, 3), (2, 1)] if quick else [(1, 1), (1, 2), (1, 3), (1, 4), (2, 1), (2, 2), (2, 3), (3, 1), (3, 2)]
    for ndates, k in full:
        jobs.extend(complete(ndates, k))
    nfull = len(jobs)
    # seeded histories from the rest of the scope (<= 4 versions over <= 3 dates)
    vs = {nd: versions(nd) for nd in (1, 2, 3)}
    for _ in range(200 if quick else 20000):
        nd = rng.choice([2, 3, 3])
        k = rng.choice([2, 3, 4, 4])
        st = rng.choice(list(stamp_patterns(k)))
        jobs.append(dict(history=[[s, rng.choice(vs[nd])] for s in st]))
    nsmall = len(jobs)
    # histories in which several publications share the FIRST stamp: 2-4 versions over 1-3 dates, the first m >= 2 on stamp 0, read with
    # what = 0 and -1 on / just after the first stamp, on the last stamp and without asof
    for _ in range(60 if quick else 5000):
        nd = rng.choice([1, 2, 2, 3])
        k = rng.choice([2, 3, 3, 4])
        m = rng.randrange(2, k + 1)
        st = [0] * m
        for _i in range(k - m):
            st.append(st[-1] + rng.choice([0, 2]))
        Ts = list(dict.fromkeys([None, 0, 1, st[-1]]))
        jobs.append(dict(history=[[s, rng.choice(vs[nd])] for s in st], reads=[(T, w) for T in Ts for w in (0, -1)], remerge=[k - 1]))
    # stores of 20-40 rows: 3-6 versions over 8-14 observation dates (each date in a version with probability 3/4, values 1, 2, 3, NaN), stamps with
    # ties; read without asof and on every stamp (what = -1, 0) and between stamps (what = -1); the last version merged again
    nbig = 0
    while nbig < (32 if quick else 3000):
        nd = rng.randrange(8, 15)
        k = rng.randrange(3, 7)
        st = [0]
        for _i in range(k - 1):
            st.append(st[-1] + rng.choice([0, 0, 2]))
        hist = []
        for s_ in st:
            v = {str(d): rng.choice([1.0, 2.0, 3.0, 'nan']) for d in range(nd) if rng.random() < .75}
            hist.append([s_, v or {'0': 1.0}])
        if not 20 <= sum(len(v) for _, v in hist) <= 40:
            continue
        nbig += 1
        stamps = sorted(set(st))
        reads = [(T, w) for T in [None] + stamps for w in (-1, 0)] + [(T + 1, -1) for T in stamps[:-1]]
        jobs.append(dict(history=hist, reads=reads, remerge=[k - 1]))
    return jobs, full, nfull, nsmall


def run(tier, seed):
    quick = tier == 'quick'
    jobs, full, nfull, nsmall = jobs_for(tier, seed)
    c = Collector('C17', 'publication histories: versions are non-empty partial series over <= 3 observation dates with values in {1,2,NaN}; stamps non-decreasing with '
                  'ties (each version shares the previous stamp or is one day later); merged one by one with bi_merge(store, Bi(series, stamp)). Complete for '
                  '(dates, versions) in %s (%d histories), plus %d seeded histories of 2-4 versions over 2-3 dates. Each history is read with asof = None, half a '
                  'day before the first stamp, on every stamp and half a day after every stamp (between / after), what in {-1, 0}; then the last version and every '
                  'earlier version whose rows are all still in the store are merged again and all reads repeated. One evaluation = one bi_read; distinct by '
                  '(history, T, what, re-merged version); non-trivial when the history has at least two versions. Further seeded histories: 2-4 versions over 1-3 dates whose '
                  'first 2..k versions share the first stamp (read on / just after the first stamp, on the last stamp and without asof, what in {0,-1}; what=0 is held against both '
                  '"the value standing at the first stamp" and, where it differs, "the publication merged first"), and stores of 20-40 rows built from 3-6 versions over 8-14 '
                  'observation dates with values {1,2,3,NaN} and shared stamps (read without asof and on every stamp with what in {-1,0}, between stamps with what=-1, the last version '
                  'merged again): %d such histories'
                  % (full, nfull, nsmall - nfull, len(jobs) - nsmall), exhaustive=False,
                  scope='<= 4 versions, <= 3 observation dates, values {1,2,NaN}, stamps with ties, reads before/on/between/after each stamp, what in {-1,0}; plus stores of 20-40 rows '
                        '(<= 6 versions, <= 14 dates)')
    if quick:
        results = map(run_job, jobs)
    else:
        import multiprocessing as mp
        pool = mp.get_context('fork').Pool(14)
        results = pool.imap(run_job, jobs, chunksize=20)
    for job, (n, fails) in zip(jobs, results):
        base = json.dumps(job['history'])
        for i in range(n):
            c.case((base, i), nontrivial=len(job['history']) > 1, sample=dict(history=job['history']) if i == 0 else None)
        for key, what, call in fails:
            c.check(False, key, what, call)
    if not quick:
        pool.close()
        pool.join()
    return c.result()


def replay(call):
    job = dict(history=call['history'])
    if call.get('reads') is not None:
        job['reads'] = [tuple(r) for r in call['reads']]
    job['remerge'] = call.get('remerge') or []
    n, fails = run_job(job)
    return dict(fails=bool(fails), detail='; '.join('%s: %s' % (k, w) for k, w, _ in fails)[:600] if fails else 'all clauses hold on the real code for this input')
