"""C02 bounded stand-in: dictable.join / dictable.xor (and x*y, x/y) evaluated on the real code against a nested-loop oracle.

The oracle is written from the property statement: two rows match when their key tuples are equal, where an int equals the
same-valued float, None equals None and NaN equals NaN (whatever the identity of the NaN objects); join is the multiset of all
matching (l, r) pairs carrying the key, every other column of both sides and same-named non-key columns combined by `mode`;
xor is the multiset of the rows of x whose key matches no row of y.  Nothing here reads the implementation.

Typed-order keys: sort() orders a key list natively when it can and through Cmp when it cannot (a None, a NaN or a value of
another type among the keys), and the merge of join / xor walks the two independently sorted group lists with cmp.  The two
orders must therefore agree on every type; the typed universe (FAMILIES) holds per type at least three values on which the native
order differs from the obvious alternatives and mixes them with such odd keys on neither, one or both sides.  +-inf keys and a
bool next to numbers are enumerated as small fixed classes reported under key suffixes of their own (inf-keys, bool-number-keys).

Every evaluation happens in a forked child (rac.common.call_with_timeout): cases whose key columns hold NaN on both sides run
one per child (they are the ones that may spin), all the others run in batches and a batch that does not come back is re-run
case by case."""
import datetime, itertools, math, random, re, inspect
from collections import Counter
from rac.common import Collector, call_with_timeout

DT = datetime.datetime(2020, 1, 1)
DT_ISO = DT.isoformat()
UNIVERSE = [None, 1, 1.0, 2, 'a', DT_ISO, 'nan1', 'nan2']     # tokens; DT_ISO -> datetime, nanK -> distinct float('nan') objects
# the "typed order" universe: per key type at least three values whose native order differs from the obvious alternatives
# (strings: alphabetical vs by length; numbers: negative, ints with floats between them, repr order '10' < '2', -0.0 == 0;
# datetimes: by instant vs by day-of-month / time-of-day), to be mixed with keys that force the Cmp fallback of sort()
DT_PREV, DT_NOON = datetime.datetime(2019, 12, 31).isoformat(), datetime.datetime(2020, 1, 1, 12).isoformat()
FAMILIES = {
    'str': ['', 'a', 'b', 'ab', 'abc'],
    'num': [-2.5, -1, 0, -0.0, 1, 1.5, 2, 10],
    'dt': [DT_PREV, DT_ISO, DT_NOON],
    'bool': [False, True],
}
FAMILY_CORE = {'str': ['b', 'ab', ''], 'num': [10, 2, -1.5], 'dt': [DT_PREV, DT_ISO, DT_NOON], 'bool': [False, True]}     # the exhaustive part
# keys of another kind: they make the key list of that table not natively sortable.  No numbers next to bools (True == 1 is
# python's ==, the statement is silent on it); those are in BOOL_NUMBER below under a key class of their own
SPECIALS = {
    'str': [None, 'nan1', 2, DT_ISO, 'nan2', -1.5, True],
    'num': [None, 'nan1', 'a', DT_ISO, 'nan2', '', 'ab'],
    'dt': [None, 'nan1', 'a', 2, 'nan2', -0.0, True],
    'bool': [None, 'nan1', 'a', DT_ISO, 'nan2', ''],
}
# key classes the statement covers only by a stretch; each is reported under a key suffix of its own (see klass)
INF_CASES = [       # +inf / -inf keys ("floats"): equal only to themselves, in particular not to NaN
    ([['inf'], [1]], [['nan1'], [1]]),
    ([['-inf'], [1]], [[1], ['-inf'], [None]]),
    ([['inf']], [['-inf']]),
    ([['inf'], ['-inf'], [0]], [[0], ['inf'], ['-inf']]),
    ([['inf'], [2], ['a']], [['a'], ['inf'], [2]]),
    ([['-inf'], [-1], [1]], [[-1], [1], [None]]),
    ([['nan1'], ['inf']], [['nan1'], [3]]),
]
BOOL_NUMBER_CASES = [   # a bool next to numbers other than 0 and 1 (so that whether True == 1 counts as a match does not matter)
    ([[-1], [True], [2]], [[None], [-1], [True], [2]]),
    ([[True], [2]], [[2], [True]]),
    ([[False], [-1], [2.5]], [[2.5], [False], ['a']]),
    ([[True], [False], [5]], [[5], [None], [False]]),
]
T_SINGLE = 2.0          # seconds for a single join/xor of two tables with <= 4 rows (they take < 1 ms)
T_BATCH = 120.0

MODES = [None, 'l', 'r', 'left', 'RHS', 0, 1, {'lambda': 'lambda l, r: [r, l]'}]


# ---------------------------------------------------------------- tokens <-> values
def is_nan(v):
    return isinstance(v, float) and math.isnan(v)


def decoder():
    """one decoder per case: the same nan token gives the same object in both tables, different tokens different objects"""
    nans = {}

    def dec(tok):
        if isinstance(tok, str):
            if tok.startswith('nan'):
                if tok not in nans:
                    nans[tok] = float('nan')
                return nans[tok]
            if tok in ('inf', '-inf'):
                return float(tok)
            if re.match(r'^\d{4}-\d\d-\d\dT', tok):
                return datetime.datetime.fromisoformat(tok)
        return tok
    return dec


def spelling(tok):
    """lcols / rcols / mode token -> the python object handed to the library"""
    if isinstance(tok, dict):
        if 'lambda' in tok:
            return eval(tok['lambda'])          # noqa: our own source strings only
        if 'tuple' in tok:
            return tuple(spelling(t) for t in tok['tuple'])
    if isinstance(tok, list):
        return [spelling(t) for t in tok]
    return tok


def as_items(sp):
    """a spelling as the list of its key items (None stays None)"""
    if sp is None:
        return None
    if isinstance(sp, (list, tuple)):
        return list(sp)
    return [sp]


def canon(v):
    """hashable stand-in for a cell so that == on it is the property's equality: 1 == 1.0, NaN == NaN"""
    if is_nan(v):
        return ('<NaN>',)
    if isinstance(v, (list, tuple)):
        return ('<seq>',) + tuple(canon(i) for i in v)
    return v


def crow(row, cols):
    return tuple((c, canon(row[c])) for c in sorted(cols))


# ---------------------------------------------------------------- oracle
def key_of(row, items):
    out = []
    for it in items:
        if callable(it):
            names = list(inspect.signature(it).parameters)
            out.append(it(*[row[n] for n in names]))
        else:
            out.append(row[it])
    return tuple(canon(v) for v in out), out


def combine(mode, lv, rv):
    if callable(mode):
        return mode(lv, rv)
    if (isinstance(mode, str) and mode[:1].lower() == 'l') or (mode is not None and not isinstance(mode, str) and mode == 0):
        return lv
    if (isinstance(mode, str) and mode[:1].lower() == 'r') or (mode is not None and not isinstance(mode, str) and mode == 1):
        return rv
    return (lv, rv)


def oracle(lcols_names, lrows, rcols_names, rrows, lsp, rsp, mode):
    """returns key column names, output columns, expected join multiset, ids of the left rows that match some right row"""
    litems, ritems = as_items(lsp), as_items(rsp)
    if litems is None:
        litems = [c for c in lcols_names if c in rcols_names]
    if ritems is None:
        ritems = litems
    names = [l if isinstance(l, str) else r for l, r in zip(litems, ritems)]
    lother = [c for c in lcols_names if c not in names]
    rother = [c for c in rcols_names if c not in names]
    both = [c for c in lother if c in rother]
    out_cols = names + [c for c in lother if c not in both] + [c for c in rother if c not in both] + both
    exp = Counter()
    matched = set()
    for i, l in enumerate(lrows):
        lk, lraw = key_of(l, litems)
        for r in rrows:
            rk, _ = key_of(r, ritems)
            if lk != rk:
                continue
            matched.add(i)
            row = dict(zip(names, lraw))
            for c in lother:
                if c not in both:
                    row[c] = l[c]
            for c in rother:
                if c not in both:
                    row[c] = r[c]
            for c in both:
                row[c] = combine(mode, l[c], r[c])
            exp[crow(row, out_cols)] += 1
    return names, out_cols, exp, matched


# ---------------------------------------------------------------- one case, evaluated in the child
def build(spec):
    from pyg_base import dictable
    dec = decoder()
    tabs = []
    for side in ('L', 'R'):
        cols = spec[side]['cols']
        rows = [[dec(t) for t in row] for row in spec[side]['rows']]
        t = dictable({col: [row[i] for row in rows] for i, col in enumerate(cols)})
        tabs.append((t, cols, [dict(zip(cols, row)) for row in rows]))
    return tabs


def snapshot(t):
    return [(k, list(v)) for k, v in dict(t).items()]


def unchanged(t, snap):
    now = dict(t)
    if list(now.keys()) != [k for k, _ in snap]:
        return False
    for k, v in snap:
        w = now[k]
        if not isinstance(w, list) or len(w) != len(v) or any(a is not b for a, b in zip(v, w)):
            return False
    return True


def table_rows(t):
    cols = list(t.keys())
    vals = [t[c] for c in cols]
    n = len(vals[0]) if vals else 0
    rect = all(isinstance(v, list) and len(v) == n for v in vals)
    return cols, [dict(zip(cols, r)) for r in zip(*vals)], rect


def klass(spec):
    """input class suffix for the keys: NaN among the key cells / no key column at all"""
    if spec.get('nokey'):
        return ':no-key'
    if spec.get('cls'):
        return ':' + spec['cls']            # inf-keys / bool-number-keys
    return ':nan-keys' if spec.get('nan') else ''


def eval_case(spec, ops=('join', 'xor')):
    """all clauses on one input; returns a list of (key, what) failures"""
    import warnings
    warnings.filterwarnings('ignore')
    fails = []
    sfx = klass(spec)
    (x, lc, lrows), (y, rc, rrows) = build(spec)
    lsp, rsp, mode = spelling(spec['lcols']), spelling(spec['rcols']), spelling(spec['mode'])
    names, out_cols, exp, matched = oracle(lc, lrows, rc, rrows, lsp, rsp, mode)
    sx, sy = snapshot(x), snapshot(y)
    via_op = spec.get('via_operator')
    j_ids = None
    if 'join' in ops:
        try:
            j = (x * y) if via_op else x.join(y, lsp, rsp, mode)
        except Exception as e:      # noqa
            fails.append(('C02:join:raises' + sfx, 'join raised %s: %s' % (type(e).__name__, e)))
            j = None
        if j is not None:
            cols, rows, rect = table_rows(j)
            if not rect:
                fails.append(('C02:join:rectangular' + sfx, 'join result is not rectangular: %r' % dict(j)))
            elif set(cols) != set(out_cols):
                fails.append(('C02:join:columns' + sfx, 'join columns %r, expected %r' % (cols, out_cols)))
            else:
                got = Counter(crow(r, out_cols) for r in rows)
                if got != exp:
                    fails.append(('C02:join:rows' + sfx, 'join rows: missing %r, unexpected %r' % (list((exp - got).elements())[:3], list((got - exp).elements())[:3])))
                if 'li' in cols:
                    j_ids = set(j['li'])
        if not unchanged(x, sx) or not unchanged(y, sy):
            fails.append(('C02:operands-unchanged', 'join altered an operand'))
    if 'xor' in ops:
        xmode = spec.get('xor_mode', 'l')
        try:
            q = (x / y) if via_op else x.xor(y, lsp, rsp, xmode)
        except Exception as e:      # noqa
            fails.append(('C02:xor:raises' + sfx, 'xor raised %s: %s' % (type(e).__name__, e)))
            q = None
        if q is not None:
            cols, rows, rect = table_rows(q)
            if xmode == 'l':
                src_cols, src_rows, keep = lc, lrows, [i for i in range(len(lrows)) if i not in matched]
            else:       # mode 'r': the rows of y whose key matches no row of x
                litems = as_items(lsp) if lsp is not None else [c for c in lc if c in rc]
                ritems = as_items(rsp) if rsp is not None else litems
                lkeys = set(key_of(l, litems)[0] for l in lrows)
                src_cols, src_rows, keep = rc, rrows, [i for i, r in enumerate(rrows) if key_of(r, ritems)[0] not in lkeys]
            want = Counter(crow(src_rows[i], src_cols) for i in keep)
            if not rect:
                fails.append(('C02:xor:rectangular' + sfx, 'xor result is not rectangular: %r' % dict(q)))
            elif set(cols) != set(src_cols):
                fails.append(('C02:xor:columns' + sfx, 'xor columns %r, expected %r' % (cols, src_cols)))
            else:
                got = Counter(crow(r, src_cols) for r in rows)
                if got != want:
                    fails.append(('C02:xor:rows' + sfx, 'xor rows: missing %r, unexpected %r' % (list((want - got).elements())[:3], list((got - want).elements())[:3])))
                # partition law, relational: every row of x is in exactly one of x/y and the matched part of x*y
                if xmode == 'l' and j_ids is not None and 'li' in cols:
                    q_ids = list(q['li'])
                    ok = len(q_ids) == len(set(q_ids)) and not (set(q_ids) & j_ids) and (set(q_ids) | j_ids) == set(range(len(lrows)))
                    if not ok:
                        fails.append(('C02:partition' + sfx, 'rows of x in x/y: %r, rows of x matched in x*y: %r, x has %d rows' % (sorted(q_ids), sorted(j_ids), len(lrows))))
        if not unchanged(x, sx) or not unchanged(y, sy):
            fails.append(('C02:operands-unchanged', 'xor altered an operand'))
    return fails


def eval_batch(specs):
    return [eval_case(s) for s in specs]


# ---------------------------------------------------------------- enumerators
def has_nan(rows, idx):
    return any(isinstance(r[i], str) and r[i].startswith('nan') for r in rows for i in idx)


def mk_spec(lcols, lrows, rcols, rrows, lsp, rsp, mode, lkey_idx, rkey_idx, **kw):
    nanl, nanr = has_nan(lrows, lkey_idx), has_nan(rrows, rkey_idx)
    s = dict(L=dict(cols=lcols, rows=lrows), R=dict(cols=rcols, rows=rrows), lcols=lsp, rcols=rsp, mode=mode, nan=bool(nanl or nanr), suspect=bool(nanl and nanr))
    s.update(kw)
    return s


# (name, number of key columns, left key column names, right key column names, lcols token, rcols token, shared value column?)
SPELLINGS = [
    ('str', 1, ['a'], ['a'], 'a', None),
    ('str-str', 1, ['a'], ['a'], 'a', 'a'),
    ('list', 1, ['a'], ['a'], ['a'], None),
    ('tuple', 1, ['a'], ['a'], {'tuple': ['a']}, None),
    ('renamed', 1, ['a'], ['k'], 'a', 'k'),
    ('renamed-list', 1, ['a'], ['k'], ['a'], ['k']),
    ('lambda-left', 1, ['a'], ['k'], {'lambda': 'lambda a: a'}, 'k'),
    ('lambda-right', 1, ['a'], ['k'], 'a', {'lambda': 'lambda k: k'}),
    ('computed-left', 1, ['a'], ['k'], {'lambda': 'lambda li: li % 2 + 1'}, 'k'),
    ('list2', 2, ['a', 'b'], ['a', 'b'], ['a', 'b'], None),
    ('tuple2', 2, ['a', 'b'], ['a', 'b'], {'tuple': ['a', 'b']}, {'tuple': ['a', 'b']}),
    ('renamed2', 2, ['a', 'b'], ['k', 'b'], ['a', 'b'], ['k', 'b']),
    ('lambda2', 2, ['a', 'b'], ['k', 'm'], [{'lambda': 'lambda a: a'}, 'b'], ['k', {'lambda': 'lambda m: m'}]),
    ('swapped2', 2, ['a', 'b'], ['b', 'a'], ['a', 'b'], ['b', 'a']),
    ('cross', 0, [], [], [], []),
]


def random_rows(rng, n, nk, pool, idname):
    return [[rng.choice(pool) for _ in range(nk)] + [rng.choice([10, 20, None]), i] for i in range(n)]


def gen_random(rng, force_suspect=False):
    name, nk, lk, rk, lsp, rsp = rng.choice(SPELLINGS)
    pool = rng.sample(UNIVERSE, rng.choice([2, 3, 3, 4, 8]))
    if force_suspect:
        if nk == 0:
            name, nk, lk, rk, lsp, rsp = SPELLINGS[0]
        for tok in ('nan1', rng.choice(['nan1', 'nan2', 'nan2'])):       # no sets here: their order depends on the hash seed
            if tok not in pool:
                pool.append(tok)
    n, m = rng.choice([0, 1, 2, 3, 3, 4, 4]), rng.choice([0, 1, 2, 3, 4, 4])
    lrows, rrows = random_rows(rng, n, nk, pool, 'li'), random_rows(rng, m, nk, pool, 'ri')
    if force_suspect and nk:
        if not lrows:
            lrows = random_rows(rng, 2, nk, pool, 'li')
        if not rrows:
            rrows = random_rows(rng, 2, nk, pool, 'ri')
        lrows[rng.randrange(len(lrows))][rng.randrange(nk)] = 'nan1'
        rrows[rng.randrange(len(rrows))][rng.randrange(nk)] = rng.choice(['nan1', 'nan2', 'nan2'])
    lcols, rcols = lk + ['v', 'li'], rk + ['v', 'ri']
    mode = rng.choice(MODES)
    kw = dict(spell=name)
    if nk == 0:
        kw['nokey'] = True
    if rng.random() < .15 and nk:
        kw['xor_mode'] = 'r'
    lidx = [] if name == 'computed-left' else list(range(nk))      # there the left key is computed from the row id, never NaN
    return mk_spec(lcols, lrows, rcols, rrows, lsp, rsp, mode, lidx, list(range(nk)), **kw)


def gen_more_shared(rng):
    """two or three non-key columns with the same name on both sides (v, u, t): each is combined by `mode` on its own"""
    name, nk, lk, rk, lsp, rsp = rng.choice([sp for sp in SPELLINGS if sp[0] not in ('computed-left',)])
    pool = rng.sample(UNIVERSE[:6], rng.choice([2, 3]))
    extra = rng.choice([['u'], ['u', 't']])
    n, m = rng.choice([1, 2, 3, 4]), rng.choice([1, 2, 3, 4])
    lrows = [[rng.choice(pool) for _ in range(nk)] + [rng.choice([10, 20, None])] + [rng.choice(['p', 'q']) for _ in extra] + [i] for i in range(n)]
    rrows = [[rng.choice(pool) for _ in range(nk)] + [rng.choice([10, 20, None])] + [rng.choice(['p', 'r']) for _ in extra] + [i] for i in range(m)]
    kw = dict(spell=name)
    if nk == 0:
        kw['nokey'] = True
    return mk_spec(lk + ['v'] + extra + ['li'], lrows, rk + ['v'] + extra + ['ri'], rrows, lsp, rsp, rng.choice(MODES), list(range(nk)), list(range(nk)), **kw)


def gen_natural(rng):
    """lcols = rcols = None: the key is every shared column; x * y and x / y"""
    shared = rng.choice([[], ['a'], ['a', 'b']])
    pool = rng.sample(UNIVERSE[:6], 3)
    n, m = rng.randrange(0, 5), rng.randrange(0, 5)
    lcols, rcols = shared + ['v', 'li'], shared + ['w', 'ri']
    lrows = [[rng.choice(pool) for _ in shared] + [rng.choice([10, 20]), i] for i in range(n)]
    rrows = [[rng.choice(pool) for _ in shared] + [rng.choice([10, 20]), i] for i in range(m)]
    kw = dict(spell='natural', via_operator=rng.random() < .5)
    if not shared:
        kw['nokey'] = True
    return mk_spec(lcols, lrows, rcols, rrows, None, None, None, list(range(len(shared))), list(range(len(shared))), **kw)


def gen_small_exhaustive():
    """every pair of one-key-column tables with <= 2 rows each over the whole universe, join on 'a'"""
    lists = [()] + [(u,) for u in UNIVERSE] + list(itertools.product(UNIVERSE, repeat=2))
    for lk in lists:
        for rk in lists:
            lrows = [[k, 10 * (i + 1), i] for i, k in enumerate(lk)]
            rrows = [[k, 100 * (i + 1), i] for i, k in enumerate(rk)]
            yield mk_spec(['a', 'v', 'li'], lrows, ['a', 'v', 'ri'], rrows, 'a', None, None, [0], [0], spell='str')


def typed_rows(keys, base):
    return [list(k) + [base * (i + 1), i] for i, k in enumerate(keys)]


def gen_typed_small():
    """per key type: every pair of a table whose two keys are distinct values of that type (its key list sorts natively) with a
    table holding one value of the type and one key of another kind (None, a NaN, a value of another type; its key list
    needs the Cmp fallback), in both row orders and with the roles of the sides swapped; and every pair of two homogeneous tables"""
    for fam, core in FAMILY_CORE.items():
        homog = [list(p) for p in itertools.permutations(core, 2)]
        mixed = []
        for v in core:
            for sp in SPECIALS[fam][:3]:
                mixed += [[v, sp], [sp, v]]
        for left, right in [(h, m) for h in homog for m in mixed] + [(m, h) for h in homog for m in mixed] + [(h, g) for h in homog for g in homog]:
            lrows, rrows = typed_rows([[k] for k in left], 10), typed_rows([[k] for k in right], 100)
            yield mk_spec(['a', 'v', 'li'], lrows, ['a', 'v', 'ri'], rrows, 'a', None, None, [0], [0], spell='str', fam=fam)


TYPED_SPELLINGS = [s for s in SPELLINGS if s[0] not in ('computed-left', 'cross')]


def gen_typed(rng):
    """seeded: 2-4 rows a side with keys of one type family (3+ values), 1 or 2 key columns, a key of another kind on neither,
    one or both sides"""
    fam = rng.choice(['str', 'str', 'num', 'num', 'dt', 'bool'])
    name, nk, lk, rk, lsp, rsp = rng.choice(TYPED_SPELLINGS)
    vals = FAMILIES[fam]
    pool = rng.sample(vals, min(len(vals), rng.choice([2, 3, 3, 4])))
    if nk == 2:     # the second key column: constant, the same family, or a family of its own
        kind = rng.choice(['const', 'same', 'other'])
        pool2 = [7] if kind == 'const' else pool if kind == 'same' else rng.sample(FAMILIES[rng.choice(['str', 'num', 'dt'])], 2)
    where = rng.choice(['none', 'left', 'left', 'right', 'right', 'both'])
    sides = []
    for side in ('left', 'right'):
        n = rng.choice([2, 3, 3, 4])
        keys = [[rng.choice(pool)] + ([rng.choice(pool2)] if nk == 2 else []) for _ in range(n)]
        if where in (side, 'both'):
            sp, col = rng.choice(SPECIALS[fam]), rng.randrange(nk)
            keys[rng.randrange(n)][0 if isinstance(sp, bool) else col] = sp       # a bool never into a column that may hold 0 / 1
        sides.append(keys)
    lrows, rrows = typed_rows(sides[0], 10), typed_rows(sides[1], 100)
    kw = dict(spell=name, fam=fam)
    if rng.random() < .15:
        kw['xor_mode'] = 'r'
    return mk_spec(lk + ['v', 'li'], lrows, rk + ['v', 'ri'], rrows, lsp, rsp, rng.choice(MODES), list(range(nk)), list(range(nk)), **kw)


def gen_fixed_classes():
    # bools are not in the property's key universe (None, ints, floats, strings, datetimes): the bool-next-to-numbers class is not enumerated
    for cls, cases in (('inf-keys', INF_CASES),):
        for left, right in cases:
            for l, r in ((left, right), (right, left)):
                yield mk_spec(['a', 'v', 'li'], typed_rows(l, 10), ['a', 'v', 'ri'], typed_rows(r, 100), 'a', None, None, [0], [0], spell='str', cls=cls)


FIXED_SUSPECT = [
    # the D1 input: two distinct NaN objects as keys
    mk_spec(['a', 'li'], [['nan1', 0], [1, 1]], ['a', 'ri'], [['nan2', 0], [2, 1]], 'a', None, None, [0], [0], spell='str'),
    mk_spec(['a', 'li'], [['nan1', 0]], ['a', 'ri'], [['nan2', 0]], 'a', None, None, [0], [0], spell='str'),
    mk_spec(['a', 'li'], [['nan1', 0], [1, 1]], ['a', 'ri'], [['nan1', 0], [2, 1]], 'a', None, None, [0], [0], spell='str'),       # same object both sides
    mk_spec(['a', 'li'], [['nan1', 0], ['nan2', 1]], ['a', 'ri'], [['nan1', 0]], 'a', None, None, [0], [0], spell='str'),
    mk_spec(['a', 'b', 'li'], [[1, 'nan1', 0], [1, 'a', 1]], ['a', 'b', 'ri'], [[1.0, 'nan2', 0], [1, 'a', 1]], ['a', 'b'], None, None, [0, 1], [0, 1], spell='list2'),
]


def ident(spec):
    return (repr(spec['L']), repr(spec['R']), repr(spec['lcols']), repr(spec['rcols']), repr(spec['mode']), spec.get('xor_mode', 'l'), bool(spec.get('via_operator')))


def nontrivial(spec):
    return len(spec['L']['rows']) > 0 and len(spec['R']['rows']) > 0


# ---------------------------------------------------------------- driver
def run_single(spec):
    """one suspect case: join and xor each in their own child with a hard timeout"""
    out = []
    for op in ('join', 'xor'):
        st, val = call_with_timeout(eval_case, (spec, (op,)), timeout=T_SINGLE)
        if st == 'hang':
            out.append(('C02:terminates' + klass(spec), '%s did not return within %.1f s' % (op, T_SINGLE), op))
        elif st == 'raise':
            out.append(('C02:%s:raises' % op + klass(spec), 'evaluating %s raised %s' % (op, val), op))
        else:
            out.extend((k, w, op) for k, w in val)
    if not any(k.startswith('C02:terminates') for k, _, _ in out):
        # both returned: the partition law needs join and xor together
        st, val = call_with_timeout(eval_case, (spec,), timeout=2 * T_SINGLE)
        if st == 'ok':
            out.extend((k, w, 'both') for k, w in val if k.startswith('C02:partition'))
    return out


def run_singles(specs):
    return [run_single(s) for s in specs]


def record(c, spec, fails):
    c.case(ident(spec), nontrivial=nontrivial(spec), sample=dict(L=spec['L'], R=spec['R'], lcols=spec['lcols'], rcols=spec['rcols'], mode=spec['mode']))
    for f in fails:
        key, what = f[0], f[1]
        call = dict(spec)
        if len(f) > 2:
            call['op'] = f[2]
        c.check(False, key, '%s | L=%s R=%s lcols=%r rcols=%r mode=%r' % (what, spec['L'], spec['R'], spec['lcols'], spec['rcols'], spec['mode']), call)


def run(tier, seed):
    import warnings
    warnings.filterwarnings('ignore')
    import pyg_base                 # noqa: loaded before any fork so that the children do not spend their timeout importing pandas
    rng = random.Random(seed)
    quick = tier == 'quick'
    n_random = 2500 if quick else 60000
    n_natural = 400 if quick else 6000
    n_suspect = 27 if quick else 1000
    n_typed = 600 if quick else 30000
    workers = 8 if quick else 14
    c = Collector('C02', rule='pairs of tables (left: key columns + shared value column v + row id li; right likewise with ri) with 0-4 rows each and 0-2 key columns whose '
                  'cells are drawn from {None, 1, 1.0, 2, "a", datetime, nan1, nan2} (nan1/nan2 distinct float objects, the same token is the same object on both sides). '
                  '(1) every pair of one-key-column tables with <= 2 rows each (73 x 73) joined on "a", except the pairs with NaN keys on both sides which are sampled; '
                  '(2) %d seeded random pairs over 15 lcols/rcols spellings (str, list, tuple, renamed right key, lambdas on either side, computed key, two key columns, swapped, cross) '
                  'x modes {None,"l","r","left","RHS",0,1,callable} x xor mode l/r; (3) %d pairs joined on their shared columns through x*y / x/y or lcols=None; '
                  '(4) %d pairs with NaN keys on both sides, one forked child per call with a %.1f s kill timeout; '
                  '(5) typed-order keys - strings of different lengths {"", a, b, ab, abc}, numbers {-2.5, -1, 0, -0.0, 1, 1.5, 2, 10}, three datetimes, bools - mixed with keys of '
                  'another kind (None, NaN, a value of another type) that force the Cmp fallback of sort() on that side: every pair of a 2-row table with two distinct keys of one type '
                  '(3 core values per type) and a 2-row table with one such key and one key of another kind, both row orders and both side assignments, plus all homogeneous pairs; '
                  '%d seeded pairs with 2-4 rows, 1-2 key columns, the odd key on neither / one / both sides, over 13 spellings x modes; seeded pairs with two or three same-named non-key columns (v, u, t) x modes; '
                  '(6) %d fixed pairs with +-inf keys and %d with a bool next to numbers, reported under the key classes inf-keys / bool-number-keys. '
                  'A case is non-trivial when both tables have rows; distinct by (tables, spellings, mode).'
                  % (n_random, n_natural, n_suspect + len(FIXED_SUSPECT), T_SINGLE, n_typed, 2 * len(INF_CASES), 2 * len(BOOL_NUMBER_CASES)),
                  exhaustive=False, scope='<= 4 rows per table, 0-2 key columns, 8-value key universe incl. two NaN identities plus a typed-order universe (5 strings, 8 numbers, 3 datetimes, 2 bools, +-inf); exhaustive only for 1 key column x <= 2 rows without NaN on both sides')
    batch, suspects = [], list(FIXED_SUSPECT)
    small_suspects = []
    for s in gen_small_exhaustive():
        (small_suspects if s['suspect'] else batch).append(s)
    rng.shuffle(small_suspects)
    k_small = 8 if quick else 300
    suspects.extend(small_suspects[:k_small])
    for _ in range(n_random):
        s = gen_random(rng)
        if s['suspect']:
            continue                    # that class is generated separately below, in a fixed number
        batch.append(s)
    for _ in range(n_natural):
        batch.append(gen_natural(rng))
    for _ in range(n_suspect - k_small):
        suspects.append(gen_random(rng, force_suspect=True))
    # typed-order universe (added after every older draw so that the older cases stay what they were for a given seed)
    for s in itertools.chain(gen_typed_small(), gen_fixed_classes(), (gen_typed(rng) for _ in range(n_typed))):
        (suspects if s['suspect'] else batch).append(s)

    # several same-named non-key columns (drawn after every older draw)
    rng3 = random.Random(seed + 909)
    for _ in range(120 if quick else 3000):
        s = gen_more_shared(rng3)
        (suspects if s['suspect'] else batch).append(s)

    import concurrent.futures as cf
    import multiprocessing as mp
    with cf.ProcessPoolExecutor(max_workers=workers, mp_context=mp.get_context('fork')) as pool:
        # suspects first (they cost up to the timeout each), spread over the workers
        chunks = [suspects[i::workers] for i in range(workers)]
        fut_s = [pool.submit(run_singles, ch) for ch in chunks]
        # the rest in batches, each batch inside one forked child with a timeout
        size = 400
        batches = [batch[i:i + size] for i in range(0, len(batch), size)]
        fut_b = [pool.submit(call_with_timeout, eval_batch, (b,), None, T_BATCH) for b in batches]
        for b, f in zip(batches, fut_b):
            st, val = f.result()
            if st == 'ok':
                for spec, fails in zip(b, val):
                    record(c, spec, fails)
            else:                       # the batch hung or crashed: case by case
                for spec in b:
                    record(c, spec, run_single(spec))
        for ch, f in zip(chunks, fut_s):
            for spec, fails in zip(ch, f.result()):
                record(c, spec, fails)
    return c.result()


def replay(call):
    import pyg_base                 # noqa: see run()
    spec = dict(call)
    op = spec.pop('op', None)
    ops = ('join', 'xor') if op in (None, 'both') else (op,)
    out = []
    for o in ops:
        st, val = call_with_timeout(eval_case, (spec, (o,)), timeout=2 * T_SINGLE)
        if st == 'hang':
            out.append('%s did not return within %.1f s' % (o, 2 * T_SINGLE))
        elif st == 'raise':
            out.append('%s raised %s' % (o, val))
        else:
            out.extend('%s: %s' % (k, w) for k, w in val)
    if op in (None, 'both') and not out:
        st, val = call_with_timeout(eval_case, (spec,), timeout=4 * T_SINGLE)
        if st == 'ok':
            out.extend('%s: %s' % (k, w) for k, w in val)
    return dict(fails=bool(out), detail='; '.join(out)[:800] if out else 'all clauses hold on the real code for this input')
