"""C11 bounded stand-in: listby/unlist, groupby/ungroup and pivot/unpivot of the real dictable against plain-Python oracles.

Key equality is the property's: == on tuples of cells where an int equals the same-valued float, None equals None and NaN
equals NaN.  'Stably sorted by the keys' is evaluated with an independent comparator for cells of one kind (numbers numerically
with NaN above every finite number, strings, datetimes, None) and pyg_base.cmp (property C07, not under test here) only to
order cells of different kinds."""
import datetime, functools, itertools, math, random, re
from collections import Counter
from rac.common import Collector

DT = datetime.datetime(2020, 1, 1)
DT_ISO = DT.isoformat()
PLAIN = [None, 1, 1.0, 2, 'a', 'b', DT_ISO]            # key cell tokens without NaN
WITH_NAN = PLAIN + ['nan1', 'nan2']                     # nan1 / nan2: two distinct float('nan') objects
Y_VALUES = ['p', 'q', 1, 2.5, DT_ISO, None]             # pivot column keys: labels are str(y) for ints, y itself otherwise
Z_VALUES = [None, 0, 1, 2.5, 'z']
AGGS = [None, 'last', 'first', 'len', ['sorted_repr', 'first']]


def _last(v):
    return v[-1]


def _first(v):
    return v[0]


def _sorted_repr(v):
    return sorted(v, key=repr)


AGG_FN = dict(last=_last, first=_first, len=len, sorted_repr=_sorted_repr)


def is_nan(v):
    return isinstance(v, float) and math.isnan(v)


def make_dec():
    nans = {}

    def dec(tok):
        if isinstance(tok, str):
            if tok.startswith('nan'):
                return nans.setdefault(tok, float('nan'))
            if re.match(r'^\d{4}-\d\d-\d\dT', tok):
                return datetime.datetime.fromisoformat(tok)
        return tok
    return dec


def canon(v):
    if is_nan(v):
        return ('<NaN>',)
    if isinstance(v, (list, tuple)):
        return ('<seq>',) + tuple(canon(i) for i in v)
    return v


def same(a, b):
    return canon(a) == canon(b)


def ckey(row, by):
    return tuple(canon(row[k]) for k in by)


def crow(row, cols):
    return tuple((c, canon(row[c])) for c in sorted(cols, key=repr))


def table_rows(t):
    cols = list(t.keys())
    vals = [t[c] for c in cols]
    n = len(vals[0]) if vals else 0
    rect = all(isinstance(v, list) and len(v) == n for v in vals)
    return cols, [dict(zip(cols, r)) for r in zip(*vals)], rect


def rows_equal(got, exp, cols):
    return len(got) == len(exp) and all(set(g.keys()) == set(cols) and all(same(g[c], e[c]) for c in cols) for g, e in zip(got, exp))


# ---------------------------------------------------------------- the order 'sorted by the keys' refers to
def kind(v):
    if v is None:
        return 'none'
    if isinstance(v, (int, float)) and not isinstance(v, bool):
        return 'num'
    if isinstance(v, str):
        return 'str'
    if isinstance(v, datetime.datetime):
        return 'dt'
    return 'other'


def ocmp_cell(u, v):
    ku, kv = kind(u), kind(v)
    if ku == kv and ku != 'other':
        if ku == 'none':
            return 0
        if ku == 'num':
            u = math.inf if is_nan(u) else u
            v = math.inf if is_nan(v) else v
        return -1 if u < v else 1 if u > v else 0
    from pyg_base import cmp            # order between cells of different kinds is whatever C07's cmp says
    return cmp(u, v)


def ocmp_key(a, b):
    for u, v in zip(a, b):
        c = ocmp_cell(u, v)
        if c:
            return c
    return 0


def stable_sorted(rows, by):
    return sorted(rows, key=functools.cmp_to_key(lambda r, s: ocmp_key([r[k] for k in by], [s[k] for k in by])))


# ---------------------------------------------------------------- listby / groupby
def build(case):
    from pyg_base import dictable
    dec = make_dec()
    cols = case['cols']
    rows = [[dec(t) for t in row] for row in case['rows']]
    d = dictable({c: [r[i] for r in rows] for i, c in enumerate(cols)})
    return d, cols, [dict(zip(cols, r)) for r in rows]


def snapshot(d):
    return [(k, list(v)) for k, v in dict(d).items()]


def unchanged(d, snap):
    now = dict(d)
    return list(now) == [k for k, _ in snap] and all(isinstance(now[k], list) and len(now[k]) == len(v) and all(a is b for a, b in zip(now[k], v)) for k, v in snap)


def has_nan_key(case, by):
    idx = [case['cols'].index(k) for k in by]
    return any(isinstance(r[i], str) and r[i].startswith('nan') for r in case['rows'] for i in idx)


def spell(by, how):
    return (list(by),) if how == 'list' else tuple(by)


def eval_group(case):
    """case = dict(cols, rows, by, how): listby/unlist and groupby/ungroup clauses; returns [(key, what)]"""
    from pyg_base import dictable
    fails = []
    d, cols, rows = build(case)
    by = case['by']
    rest = [c for c in cols if c not in by]
    sfx = ':nan-keys' if has_nan_key(case, by) else ''
    snap = snapshot(d)
    args = spell(by, case.get('how'))
    groups = {}                     # canonical key -> rows in original order
    for r in rows:
        groups.setdefault(ckey(r, by), []).append(r)

    def fail(key, what):
        fails.append((key + sfx, what))

    # ---- listby
    L = None
    try:
        L = d.listby(*args)
    except Exception as e:          # noqa
        fail('C11:listby:raises', 'listby raised %s: %s' % (type(e).__name__, e))
    if L is not None and rows:
        lc, lr, rect = table_rows(L)
        if not rect or set(lc) != set(cols):
            fail('C11:listby:shape', 'listby returned columns %r rectangular=%r' % (lc, rect))
        else:
            seen = Counter(ckey(r, by) for r in lr)
            if set(seen) != set(groups) or any(v != 1 for v in seen.values()):
                fail('C11:listby:one-row-per-key', 'listby keys %r; distinct keys of the table %r' % ([tuple(r[k] for k in by) for r in lr], list(groups)))
            else:
                for r in lr:
                    exp = groups[ckey(r, by)]
                    for c in rest:
                        if not (isinstance(r[c], list) and len(r[c]) == len(exp) and all(same(a, e[c]) for a, e in zip(r[c], exp))):
                            fail('C11:listby:cells', 'listby cell %s of key %r is %r, expected %r' % (c, tuple(r[k] for k in by), r[c], [e[c] for e in exp]))
                            break
        # ---- unlist == stable sort
        try:
            snapL = snapshot(L)
            cellsL = [[list(c) if isinstance(c, list) else c for c in col] for _, col in snapL]
            u = L.unlist()
            # the grouped table is still the caller's: unlist leaves it (and the lists in its cells) as they were, so a second unlist agrees with the first
            nowL = [[list(c) if isinstance(c, list) else c for c in col] for _, col in snapshot(L)]
            if not unchanged(L, snapL) or nowL != cellsL:
                fail('C11:unlist:receiver-unchanged', 'listby(%r).unlist() altered the listby table: cells %r, before %r' % (by, nowL, cellsL))
            else:
                u_again = L.unlist()
                if table_rows(u_again)[1] != table_rows(u)[1]:
                    fail('C11:unlist:repeatable', 'a second unlist() of the same listby table gives %r, the first gave %r' % (table_rows(u_again)[1], table_rows(u)[1]))
            uc, ur, rect = table_rows(u)
            exp = stable_sorted(rows, by)
            if not rect or set(uc) != set(cols) or not rows_equal(ur, exp, cols):
                fail('C11:unlist:stable-sort', 'listby(%r).unlist() has rows %r, the stably sorted table is %r' % (by, [[r.get(c) for c in cols] for r in ur], [[r[c] for c in cols] for r in exp]))
        except Exception as e:      # noqa
            fail('C11:unlist:raises', 'unlist raised %s: %s' % (type(e).__name__, e))
    elif L is not None:
        if len(L) != 0:
            fail('C11:listby:empty', 'listby of an empty table has %d rows' % len(L))
    # ---- groupby
    G = None
    grp = case.get('grp', 'grp')
    try:
        G = d.groupby(*args) if grp == 'grp' else d.groupby(*args, grp=grp)
    except Exception as e:          # noqa
        fail('C11:groupby:raises', 'groupby raised %s: %s' % (type(e).__name__, e))
    if G is not None and rows:
        gc, gr, rect = table_rows(G)
        if not rect or set(gc) != set(by) | {grp}:
            fail('C11:groupby:shape', 'groupby returned columns %r rectangular=%r' % (gc, rect))
        else:
            seen = Counter(ckey(r, by) for r in gr)
            if set(seen) != set(groups) or any(v != 1 for v in seen.values()):
                fail('C11:groupby:one-row-per-key', 'groupby keys %r; distinct keys of the table %r' % ([tuple(r[k] for k in by) for r in gr], list(groups)))
            sizes = [len(r[grp]) if isinstance(r[grp], dictable) else None for r in gr]
            if None in sizes or sum(sizes) != len(rows):
                fail('C11:groupby:sizes', 'sub-table sizes %r do not add up to %d' % (sizes, len(rows)))
            elif set(seen) == set(groups) and all(v == 1 for v in seen.values()):
                for r in gr:
                    exp = groups[ckey(r, by)]
                    sc, sr, srect = table_rows(r[grp])
                    if not srect or set(sc) != set(rest) or not rows_equal(sr, [{c: e[c] for c in rest} for e in exp], rest):
                        fail('C11:groupby:subtables', 'sub-table of key %r is %r, expected rows %r' % (tuple(r[k] for k in by), dict(r[grp]), [[e[c] for c in rest] for e in exp]))
                        break
        # ---- ungroup restores the multiset
        try:
            sizes_before = [len(r[grp]) if hasattr(r[grp], '__len__') else None for r in G]
            cols_before = [[list(v) for v in dict(r[grp]).values()] if isinstance(r[grp], dict) else None for r in G]
            u = G.ungroup() if grp == 'grp' else G.ungroup(grp)
            sizes_after = [len(r[grp]) if hasattr(r[grp], '__len__') else None for r in G]
            cols_after = [[list(v) for v in dict(r[grp]).values()] if isinstance(r[grp], dict) else None for r in G]
            if sizes_after != sizes_before or cols_after != cols_before:
                fail('C11:ungroup:receiver-unchanged', 'groupby(%r).ungroup() altered the sub-tables of the grouped table: sizes %r, before %r' % (by, sizes_after, sizes_before))
            else:
                u_again = G.ungroup() if grp == 'grp' else G.ungroup(grp)
                if Counter(crow(r, cols) for r in table_rows(u_again)[1]) != Counter(crow(r, cols) for r in table_rows(u)[1]):
                    fail('C11:ungroup:repeatable', 'a second ungroup() of the same grouped table gives other rows than the first')
            uc, ur, rect = table_rows(u)
            if not rect or set(uc) != set(cols) or Counter(crow(r, cols) for r in ur) != Counter(crow(r, cols) for r in rows):
                fail('C11:ungroup:multiset', 'groupby(%r).ungroup() has rows %r, the table has %r' % (by, [[r.get(c) for c in cols] for r in ur], [[r[c] for c in cols] for r in rows]))
        except Exception as e:      # noqa
            fail('C11:ungroup:raises', 'ungroup raised %s: %s' % (type(e).__name__, e))
    elif G is not None:
        if len(G) != 0:
            fail('C11:groupby:empty', 'groupby of an empty table has %d rows' % len(G))
    if not unchanged(d, snap):
        fails.append(('C11:self-unchanged', 'listby/groupby altered the table'))
    elif rows and len(rows) >= 2:
        # the table is then changed in place (a key column rotated by one row) and grouped again: the answer is that of a table built afresh from the
        # new cells - nothing computed for the old cells may be reused
        try:
            k0 = by[0]
            col = list(d[k0])
            d[k0] = col[1:] + col[:1]
            fresh = dictable({c: list(d[c]) for c in cols})
            for name, f in (('listby', lambda t: t.listby(*args)), ('groupby', lambda t: t.groupby(*args))):
                a, b = f(d), f(fresh)
                ra = [[r[c] if c != grp or name == 'listby' else sorted(map(repr, table_rows(r[c])[1])) for c in table_rows(a)[0]] for r in table_rows(a)[1]]
                rb = [[r[c] if c != grp or name == 'listby' else sorted(map(repr, table_rows(r[c])[1])) for c in table_rows(b)[0]] for r in table_rows(b)[1]]
                if repr(ra) != repr(rb):
                    fail('C11:%s:after-in-place-change' % name, 'after d[%r] was reassigned in place, %s gives %r; a table built from the same cells gives %r' % (k0, name, ra, rb))
        except Exception as e:      # noqa
            fail('C11:regroup:raises', 'regrouping after an in-place change raised %s: %s' % (type(e).__name__, e))
    return fails


# ---------------------------------------------------------------- pivot / unpivot
def label_matches(col, y):
    """is `col` the column label of y value `y`: ints are rendered as strings, everything else is itself"""
    if isinstance(y, int) and not isinstance(y, bool):
        return isinstance(col, str) and col == str(y)
    if isinstance(y, str):
        return isinstance(col, str) and col == y
    return not isinstance(col, str) and same(col, y)


def zfun(x, z):
    return (x, z)


def eval_pivot(case):
    """case = dict(cols=[a,b,y,z], rows, x=str|list, agg, zcall): pivot cell addressing + unpivot; returns [(key, what)]"""
    from pyg_base import dictable
    fails = []
    d, cols, rows = build(case)
    x = case['x']
    xs = [x] if isinstance(x, str) else list(x)
    sfx = ':nan-keys' if has_nan_key(case, xs + ['y']) else ''
    snap = snapshot(d)
    agg_tok = case.get('agg')
    agg = None if agg_tok is None else [AGG_FN[a] for a in agg_tok] if isinstance(agg_tok, list) else AGG_FN[agg_tok]
    z = (lambda a, z: zfun(a, z)) if case.get('zcall') else 'z'
    zval = (lambda r: zfun(r['a'], r['z'])) if case.get('zcall') else (lambda r: r['z'])

    def fail(key, what):
        fails.append((key + sfx, what))

    def aggregate(vals):
        if agg_tok is None:
            return vals
        for a in (agg_tok if isinstance(agg_tok, list) else [agg_tok]):
            vals = AGG_FN[a](vals)
        return vals

    if not rows:
        try:
            p = d.pivot(x, 'y', z, agg)
            if len(p) != 0:
                fail('C11:pivot:empty-table', 'pivot of an empty table has %d rows' % len(p))
        except Exception as e:      # noqa
            fails.append(('C11:pivot:raises:empty-table', 'pivot of a table with columns but no rows raised %s: %s' % (type(e).__name__, e)))
        return fails
    try:
        p = d.pivot(x, 'y', z, agg)
    except Exception as e:          # noqa
        fail('C11:pivot:raises', 'pivot raised %s: %s' % (type(e).__name__, e))
        return fails
    cells = {}                       # (canonical x key, canonical y) -> z values in original order
    xkeys, yvals = {}, {}
    for r in rows:
        cells.setdefault((ckey(r, xs), canon(r['y'])), []).append(zval(r))
        xkeys.setdefault(ckey(r, xs), tuple(r[k] for k in xs))
        yvals.setdefault(canon(r['y']), r['y'])
    pc, pr, rect = table_rows(p)
    ycols = [c for c in pc if c not in xs]
    col_of = {}
    for cy, y in yvals.items():
        m = [c for c in ycols if label_matches(c, y)]
        if len(m) == 1:
            col_of[cy] = m[0]
    if not rect or not set(xs) <= set(pc) or len(col_of) != len(yvals) or len(ycols) != len(yvals):
        fail('C11:pivot:columns', 'pivot has columns %r; x columns %r and one label per y value of %r expected' % (pc, xs, list(yvals.values())))
        return fails
    seen = Counter(ckey(r, xs) for r in pr)
    if set(seen) != set(xkeys) or any(v != 1 for v in seen.values()):
        fail('C11:pivot:one-row-per-x', 'pivot rows have x keys %r; distinct x keys of the table %r' % ([tuple(r[k] for k in xs) for r in pr], list(xkeys.values())))
        return fails
    exp_triples = Counter()
    for r in pr:
        xk = ckey(r, xs)
        for cy, col in col_of.items():
            want = aggregate(list(cells[(xk, cy)])) if (xk, cy) in cells else None
            if not same(r[col], want):
                fail('C11:pivot:cells', 'cell (x=%r, y=%r) is %r, expected %r' % (tuple(r[k] for k in xs), yvals[cy], r[col], want))
            if want is not None:
                exp_triples[(xk, canon(col), canon(want))] += 1
    # ---- unpivot, then drop the None cells
    try:
        u = p.unpivot(x, 'y', 'zz')
        uc, ur, urect = table_rows(u)
        if not urect or set(uc) != set(xs) | {'y', 'zz'}:
            fail('C11:unpivot:shape', 'unpivot returned columns %r' % uc)
        else:
            got = Counter((ckey(r, xs), canon(r['y']), canon(r['zz'])) for r in ur if r['zz'] is not None)
            if got != exp_triples and not any(k.startswith('C11:pivot:cells') for k, _ in fails):
                fail('C11:unpivot:triples', 'unpivot without None cells gives %r, expected %r' % (sorted(got.elements(), key=repr), sorted(exp_triples.elements(), key=repr)))
    except Exception as e:          # noqa
        fail('C11:unpivot:raises', 'unpivot raised %s: %s' % (type(e).__name__, e))
    if not unchanged(d, snap):
        fails.append(('C11:self-unchanged', 'pivot altered the table'))
    return fails


# ---------------------------------------------------------------- enumeration
SUBSETS = [['a'], ['b'], ['c'], ['a', 'b'], ['a', 'c'], ['b', 'c']]


def group_cases(rng, quick):
    # (1) column a through every list of <= 4 (quick 3) plain cells; b seeded; every key subset for a sample, 'a' and 'a','b' always
    full = 3 if quick else 4
    for n in range(full + 1):
        for ks in itertools.product(PLAIN, repeat=n):
            rows = [[k, rng.choice(PLAIN[:5]), i] for i, k in enumerate(ks)]
            for by in ([['a'], ['a', 'b']] + ([rng.choice(SUBSETS)] if quick else SUBSETS[1:3] + SUBSETS[4:])):
                yield dict(cols=['a', 'b', 'c'], rows=rows, by=by, how=rng.choice(['args', 'list']))
    # (2) seeded 4-5 row tables, duplicates likely, all six key subsets
    for _ in range(150 if quick else 4000):
        pool = rng.sample(PLAIN, rng.choice([2, 3, 4]))
        n = rng.choice([4, 5, 5])
        rows = [[rng.choice(pool), rng.choice(pool), i] for i in range(n)]
        for by in SUBSETS:
            yield dict(cols=['a', 'b', 'c'], rows=rows, by=by, how=rng.choice(['args', 'list']), grp=rng.choice(['grp', 'grp', 'g']))
    # (3) NaN among the keys (one or two NaN objects)
    for _ in range(250 if quick else 5000):
        pool = rng.sample(PLAIN, rng.choice([1, 2, 3])) + rng.choice([['nan1'], ['nan1'], ['nan1', 'nan2']])
        n = rng.choice([2, 3, 4, 5])
        rows = [[rng.choice(pool), rng.choice(pool), i] for i in range(n)]
        by = rng.choice(SUBSETS)
        yield dict(cols=['a', 'b', 'c'], rows=rows, by=by, how='args')


def named_cases(rng, quick):
    """(4) column names that coincide with parameter names used inside the implementation (read from the source under test): as the key column,
    as a value column, as one of two key columns"""
    from rac.common import implementation_identifiers
    for n in implementation_identifiers():
        if n in ('a', 'b', 'c', 'grp'):
            continue
        pool = rng.sample(PLAIN, 2)
        rows = [[rng.choice(pool), rng.choice(pool), i] for i in range(rng.choice([3, 4]))]
        yield dict(cols=[n, 'b', 'c'], rows=rows, by=[n], how='args')
        yield dict(cols=['a', n, 'c'], rows=rows, by=['a'], how=rng.choice(['args', 'list']))
        yield dict(cols=['a', n, 'c'], rows=rows, by=['a', n], how='args')


def pivot_cases(rng, quick):
    xs_opts = ['a', ['a'], ['a', 'b']]
    yield dict(cols=['a', 'b', 'y', 'z'], rows=[], x='a', agg=None)
    yield dict(cols=['a', 'b', 'y', 'z'], rows=[], x=['a', 'b'], agg='last')
    # every (a, y) column pair of <= 3 rows over small universes, agg last / None
    A, Y = [1, 1.0, 'a', None], ['p', 1, None]
    for n in range(1, 4):
        for ks in itertools.product(itertools.product(A, Y), repeat=n):
            rows = [[a, rng.choice([1, 'b']), y, rng.choice(Z_VALUES)] for (a, y) in ks]
            yield dict(cols=['a', 'b', 'y', 'z'], rows=rows, x=rng.choice(xs_opts), agg=rng.choice(AGGS))
    for _ in range(400 if quick else 12000):
        pool = rng.sample(PLAIN, rng.choice([2, 3]))
        ys = rng.sample(Y_VALUES, rng.choice([1, 2, 3]))
        n = rng.choice([1, 2, 3, 4, 5, 5])
        rows = [[rng.choice(pool), rng.choice(pool[:2]), rng.choice(ys), rng.choice(Z_VALUES)] for _ in range(n)]
        yield dict(cols=['a', 'b', 'y', 'z'], rows=rows, x=rng.choice(xs_opts), agg=rng.choice(AGGS), zcall=rng.random() < .2)
    for _ in range(60 if quick else 1500):
        pool = rng.sample(PLAIN, 2) + rng.choice([['nan1'], ['nan1', 'nan2']])
        n = rng.choice([2, 3, 4, 5])
        rows = [[rng.choice(pool), rng.choice(pool[:2]), rng.choice(['p', 'q', 1]), rng.choice(Z_VALUES)] for _ in range(n)]
        yield dict(cols=['a', 'b', 'y', 'z'], rows=rows, x=rng.choice(xs_opts), agg=rng.choice(AGGS))
    # y values (the future column labels) that are NaN objects of one or two identities: cmp-equal, not ==
    for _ in range(40 if quick else 1000):
        pool = rng.sample(PLAIN, 2)
        ys = rng.choice([['nan1'], ['nan1', 'nan2'], ['p', 'nan1', 'nan2']])
        n = rng.choice([2, 3, 4])
        rows = [[rng.choice(pool), rng.choice(pool[:2]), rng.choice(ys), rng.choice(Z_VALUES)] for _ in range(n)]
        yield dict(cols=['a', 'b', 'y', 'z'], rows=rows, x=rng.choice(xs_opts), agg=rng.choice(AGGS), nan_y=True)


def run(tier, seed):
    rng = random.Random(seed)
    quick = tier == 'quick'
    c = Collector('C11', rule='listby/groupby: tables a, b, c (c = row number): column a through EVERY list of <= %d cells over {None, 1, 1.0, 2, "a", "b", datetime} (b seeded) keyed by a, '
                  '(a,b) and other subsets; seeded 4-5 row tables with duplicate mixed-type keys x all six non-empty proper key subsets (args and list spelling, custom grp name); '
                  'seeded tables with one or two distinct NaN objects among the keys; key / value columns named like every parameter of a function or lambda in _dictable / _dict / _dictattr / _perdictable '
                  '(names read from the source under test). pivot/unpivot: tables a, b, y, z: every (a, y) column pair of <= 3 rows over a in {1, 1.0, "a", None}, '
                  'y in {"p", 1, None}; seeded <= 5 row tables with y over {"p","q",1,2.5,datetime,None}, x in {"a", ["a"], ["a","b"]}, agg in {None,last,first,len,[sorted,first]}, z a column or a callable; '
                  'the empty table. Non-trivial when the table has >= 2 rows; distinct by (rows, keys, options).' % (3 if quick else 4),
                  exhaustive=False, scope='<= 5 rows; 1-2 key columns of 3; mixed-type key cells incl. two NaN identities; exhaustive for column a <= %d rows without NaN' % (3 if quick else 4))
    for kind_, gen, ev in (('group', group_cases, eval_group), ('pivot', pivot_cases, eval_pivot), ('group', named_cases, eval_group)):
        for case in gen(rng, quick):
            case['kind'] = kind_
            try:
                fails = ev(case)
            except Exception as e:      # noqa
                fails = [('C11:harness', 'evaluation crashed %s: %s' % (type(e).__name__, e))]
            c.case((kind_, repr(case['rows']), repr(case.get('by') or case.get('x')), repr(case.get('agg')), case.get('how'), case.get('grp'), bool(case.get('zcall'))),
                   nontrivial=len(case['rows']) >= 2, sample=case)
            for key, what in fails:
                c.check(False, key, '%s | %r' % (what, case), case)
    return c.result()


def replay(call):
    fails = eval_pivot(call) if call.get('kind') == 'pivot' else eval_group(call)
    return dict(fails=bool(fails), detail='; '.join('%s: %s' % f for f in fails)[:800] if fails else 'all clauses hold on the real code for this input')
