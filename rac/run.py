#!/usr/bin/env python
"""Runs under /venv/bin/python (the interpreter that can import the real pyg_base):
   rac/run.py run <id> --tier quick|thorough --seed N --out FILE
   rac/run.py replay FILE"""
import sys, os, json, importlib, argparse, traceback

ROOT = os.path.dirname(os.path.dirname(os.path.abspath(__file__)))
sys.path.insert(0, ROOT)
REPO = os.environ.get('PYG_REPO', '/repo')
sys.path.insert(0, os.path.join(REPO, 'src'))


def main():
    ap = argparse.ArgumentParser()
    ap.add_argument('cmd', choices=['run', 'replay'])
    ap.add_argument('target')
    ap.add_argument('--tier', default='quick')
    ap.add_argument('--seed', type=int, default=0)
    ap.add_argument('--out')
    a = ap.parse_args()
    from rac.common import jsonable
    if a.cmd == 'run':
        mod = importlib.import_module('rac.%s' % a.target)
        res = mod.run(a.tier, a.seed)
        json.dump(jsonable(res), open(a.out, 'w'), indent=1)
        return 0
    payload = json.load(open(a.target))
    modname = payload.get('replay_module') or 'rac.%s' % payload['property']
    call_ = payload.get('call') or {}
    if call_.get('probe') == 'public-frame':
        modname = 'rac.frame_probe'
    mod = importlib.import_module(modname)
    if call_.get('kind') == 'frame' and call_.get('probe') != 'public-frame' and payload.get('property') in ('C01', 'C02', 'C06', 'C11', 'C16') and 'name' in call_:
        from rac import frame_probe
        try:
            v = frame_probe.replay_table(call_)
        except Exception:
            v = dict(fails=None, detail='frame probe crashed: ' + traceback.format_exc()[-800:])
        print(json.dumps(jsonable(v)))
        return 0
    try:
        v = mod.replay(payload.get('call') or {})
    except Exception:
        v = dict(fails=None, detail='replay crashed: ' + traceback.format_exc()[-800:])
    print(json.dumps(jsonable(v)))
    return 0


if __name__ == '__main__':
    sys.exit(main())
