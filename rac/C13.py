"""C13 bounded stand-in: df_slice keeps exactly the rows inside the interval (dates or times of day, four bracket pairs, wrap
past midnight), stitches lists of series at increasing/decreasing upper bounds (n columns), and df_unslice inverts the stitching.

Oracles are comprehension filters over python lists of (timestamp, value) pairs; nothing here reads the implementation.
`call` kinds:
  single : idx (day offsets of the rows), frame, nanrows, lb, ub (day offsets or None), oc
  tod    : rows (list of [day, minutes]), lb, ub (minutes or None), oc
  stitch : series (list of lists of day offsets), ubs (day offsets in the order passed), n, unslice (bool)"""
import datetime, itertools, json, random, warnings
from rac.common import Collector

D = datetime.datetime
NAN = float('nan')
DAY0 = D(2020, 1, 10)
GRID = [0, 2, 4, 6, 8, 10]                  # day offsets of the 6 grid points
BOUNDS = [None] + list(range(-1, 12))       # before / on / between / after every grid point, and unbounded
SUBSETS = [[g for i, g in enumerate(GRID) if (m >> i) & 1] for m in range(64)]
BRACKETS = ['()', '(]', '[)', '[]']
TOD_ROWS = [(d, m) for d in (0, 1) for m in (0, 360, 720, 1080, 1410)]          # 00:00 06:00 12:00 18:00 23:30 on two days
TOD_ROWS = sorted(TOD_ROWS + [(0, 360 + 0.25 / 60), (1, 720 - 0.5 / 60)])          # 06:00:00.25 and 11:59:59.5: in the same second as a bound / the second before it
TOD_BOUNDS = [None, 0, 180, 360, 540, 720, 900, 1080, 1260, 1410, 1425]
K_WRAP = 'C13:time-of-day:wrap:brackets-ignored'
K_UNSLICE1 = 'C13:unslice:n=1:raises'
K_EMPTY_STITCH = 'C13:stitch:n>1:empty-series-in-list'


def isn(x):
    return isinstance(x, float) and x != x


def same(x, y):
    x, y = float(x), float(y)
    return (x != x and y != y) or x == y


def ts(o):
    return DAY0 + datetime.timedelta(days=o)


def tod(m):
    return datetime.time(m // 60, m % 60)


def inside(t, lb, ub, oc):
    lo = lb is None or (t >= lb if oc[0] == '[' else t > lb)
    hi = ub is None or (t <= ub if oc[1] == ']' else t < ub)
    return lo, hi


# ------------------------------------------------------------------ single slice, all bounds x brackets for one index set
def job_single(job):
    import pandas as pd
    from pyg_base import df_slice
    warnings.filterwarnings('ignore')
    idx, frame, nanrows = job['idx'], job['frame'], job.get('nanrows') or []
    index = pd.DatetimeIndex([ts(o) for o in idx])
    vals = [NAN if o in nanrows else float(o + 1) for o in idx]
    x = pd.DataFrame(dict(a=vals, b=[v + 100 for v in vals]), index=index) if frame else pd.Series(vals, index, dtype=float)
    combos = job.get('combos') or [(lb, ub, oc) for lb in BOUNDS for ub in BOUNDS for oc in BRACKETS]
    out, n = [], 0
    for lb, ub, oc in combos:
        n += 1
        call = dict(kind='single', idx=idx, frame=frame, nanrows=nanrows, combos=[[lb, ub, oc]])
        exp = [o for o in idx if all(inside(o, lb, ub, oc))]
        try:
            r = df_slice(x, None if lb is None else ts(lb), None if ub is None else ts(ub), oc)
        except Exception as e:      # noqa
            out.append(('C13:single:raises', 'df_slice(rows %s, %s, %s, %r) raised %s: %s' % (idx, lb, ub, oc, type(e).__name__, e), call))
            continue
        if type(r) is not type(x):
            out.append(('C13:single:type', 'df_slice(rows %s, %s, %s, %r) returned a %s' % (idx, lb, ub, oc, type(r).__name__), call))
            continue
        got = [(t - DAY0).days for t in r.index]
        if got != exp:
            out.append(('C13:single:rows:' + oc, 'df_slice(rows at days %s, lb=%s, ub=%s, %r) kept %s, expected %s' % (idx, lb, ub, oc, got, exp), call))
            continue
        ev = [vals[idx.index(o)] for o in exp]
        gv = list(r['a'].values) if frame else list(r.values)
        if not all(same(p, q) for p, q in zip(gv, ev)) or (frame and (list(r.columns) != ['a', 'b'] or not all(same(p, q + 100) for p, q in zip(r['b'].values, ev)))):
            out.append(('C13:single:values', 'df_slice(rows %s, %s, %s, %r) changed values: %s' % (idx, lb, ub, oc, gv), call))
    if list(x.index) != list(index):
        out.append(('C13:input-modified', 'df_slice modified its argument', dict(kind='single', idx=idx, frame=frame, nanrows=nanrows)))
    return n, out


# ------------------------------------------------------------------ time-of-day bounds
def job_tod(job):
    import pandas as pd
    from pyg_base import df_slice
    warnings.filterwarnings('ignore')
    rows = [tuple(r) for r in job['rows']]
    index = pd.DatetimeIndex([DAY0 + datetime.timedelta(days=d, minutes=m) for d, m in rows])
    x = pd.Series([float(i) for i in range(len(rows))], index, dtype=float)
    combos = job.get('combos') or [(lb, ub, oc) for lb in TOD_BOUNDS for ub in TOD_BOUNDS for oc in BRACKETS if not (lb is None and ub is None)]
    out, n = [], 0
    for lb, ub, oc in combos:
        n += 1
        call = dict(kind='tod', rows=[list(r) for r in rows], combos=[[lb, ub, oc]])
        wrap = lb is not None and ub is not None and lb > ub
        exp = []
        for i, (d, m) in enumerate(rows):
            lo, hi = inside(m, lb, ub, oc)
            if (lo or hi) if wrap else (lo and hi):
                exp.append(i)
        key = 'C13:time-of-day' if not wrap else 'C13:time-of-day:wrap' if oc == '(]' else K_WRAP
        try:
            r = df_slice(x, None if lb is None else tod(lb), None if ub is None else tod(ub), oc)
        except Exception as e:      # noqa
            out.append((key + ':raises', 'df_slice(times %s, %s, %s, %r) raised %s: %s' % (rows, lb, ub, oc, type(e).__name__, e), call))
            continue
        got = [int(v) for v in r.values]
        if got != exp or list(r.index) != [index[i] for i in exp]:
            out.append((key, 'rows at (day, minute) %s, lb=%s ub=%s %r: kept rows %s, expected %s' % (
                rows, None if lb is None else tod(lb), None if ub is None else tod(ub), oc, got, exp), call))
    return n, out


# ------------------------------------------------------------------ stitching and its inverse
def stitch_expected(series, ubs, n):
    """series[i] pairs with ubs[i]; sorted by bound; rows in (u[i-1], u[i]] come from series i, column j from series i+j"""
    order = sorted(range(len(ubs)), key=lambda i: ubs[i])
    ss = [series[i] for i in order]
    us = [ubs[i] for i in order]
    rows = []
    for i, u in enumerate(us):
        lo = us[i - 1] if i else None
        chunk = ss[i:i + n]
        days = sorted(set(o for s in chunk for o in s if (lo is None or o > lo) and o <= u))
        for o in days:
            rows.append((o, [float(10 * (order[i + j] + 1) + o / 2.) if (j < len(chunk) and o in chunk[j]) else NAN for j in range(n)]))
    return rows


def job_stitch(job):
    import pandas as pd
    from pyg_base import df_slice, df_unslice
    warnings.filterwarnings('ignore')
    series, ubs, n = job['series'], job['ubs'], job['n']
    call = dict(kind='stitch', series=series, ubs=ubs, n=n)
    objs = [pd.Series([float(10 * (i + 1) + o / 2.) for o in s], pd.DatetimeIndex([ts(o) for o in s]), dtype=float) for i, s in enumerate(series)]
    exp = stitch_expected(series, ubs, n)
    out = []
    # input class with its own key: n > 1 and one of the series to be stitched has no rows (pd.concat(axis=1) then returns an
    # unsorted union index, which df_slice goes on to slice by label)
    special = K_EMPTY_STITCH if (n > 1 and any(len(x) == 0 for x in series)) else None
    ub_list, obj_list = [ts(u) for u in ubs], list(objs)
    try:
        r = df_slice(obj_list, ub=ub_list, n=n) if n > 1 else df_slice(obj_list, ub=ub_list)
    except Exception as e:      # noqa
        return 1, [('C13:stitch:raises', 'df_slice(%s, ub=%s, n=%d) raised %s: %s' % (series, ubs, n, type(e).__name__, e), call)]
    # the caller's lists are still his: the same list objects passed again give the same answer (series i still pairs with bound i)
    if ub_list != [ts(u) for u in ubs] or len(obj_list) != len(objs) or any(a is not b for a, b in zip(obj_list, objs)):
        out.append(('C13:stitch:arguments-unchanged', 'df_slice(%s, ub=%s, n=%d) rearranged the lists it was given: ub is now %s' % (
            series, ubs, n, [(t - DAY0).days for t in ub_list]), call))
    else:
        try:
            r2 = df_slice(obj_list, ub=ub_list, n=n) if n > 1 else df_slice(obj_list, ub=ub_list)
            if not (type(r2) is type(r) and r2.equals(r)):
                out.append(('C13:stitch:repeat-call', 'df_slice(%s, ub=%s, n=%d) called twice with the same list objects gives two different results' % (series, ubs, n), call))
        except Exception as e:      # noqa
            out.append(('C13:stitch:repeat-call', 'df_slice(%s, ub=%s, n=%d) called a second time with the same list objects raised %r' % (series, ubs, n, e), call))
    if not isinstance(r, pd.DataFrame if n > 1 else pd.Series):
        return 1, [('C13:stitch:type', 'df_slice(%s, ub=%s, n=%d) returned %s' % (series, ubs, n, type(r).__name__), call)]
    days = [(t - DAY0).days for t in r.index]
    if len(set(days)) != len(days):
        out.append((special or 'C13:stitch:at-most-once', 'series %s ub %s n=%d: a timestamp appears twice: %s' % (series, ubs, n, days), call))
    got = [[float(v) for v in (row if n > 1 else [row])] for row in r.values.tolist()]
    if n > 1 and list(r.columns) != list(range(n)):
        out.append((special or 'C13:stitch:columns', 'series %s ub %s n=%d: columns %s' % (series, ubs, n, list(r.columns)), call))
    elif days != [o for o, _ in exp]:
        out.append((special or 'C13:stitch:rows', 'series %s ub %s n=%d: rows at days %s, expected %s' % (series, ubs, n, days, [o for o, _ in exp]), call))
    elif not all(len(g) == len(e) and all(same(p, q) for p, q in zip(g, e)) for g, (_, e) in zip(got, exp)):
        out.append((special or 'C13:stitch:values', 'series %s ub %s n=%d: cells %s, expected %s' % (series, ubs, n, got, [e for _, e in exp]), call))
    if out or not job.get('unslice'):
        return 1, out
    # df_unslice: one series per bound; stitching those again reproduces the frame (bounds in increasing order)
    inc = sorted(ubs)
    call = dict(call, unslice=True)
    try:
        rec = df_unslice(r, [ts(u) for u in inc])
    except Exception as e:      # noqa
        return 2, [(K_UNSLICE1 if n == 1 else 'C13:unslice:raises', 'df_unslice(df_slice(%s, ub=%s, n=%d), ub) raised %s: %s' % (series, ubs, n, type(e).__name__, e), call)]
    if not (isinstance(rec, dict) and [k for k in rec] == [ts(u) for u in inc] and all(isinstance(v, pd.Series) for v in rec.values())):
        return 2, [('C13:unslice:shape', 'df_unslice gave %r for bounds %s' % ({k: type(v).__name__ for k, v in rec.items()} if isinstance(rec, dict) else rec, inc), call)]
    if n > 1 and any(len(v) == 0 for v in rec.values()):
        special = K_EMPTY_STITCH
    try:
        again = df_slice(list(rec.values()), ub=[ts(u) for u in inc], n=n) if n > 1 else df_slice(list(rec.values()), ub=[ts(u) for u in inc])
        a2 = [[float(v) for v in (row if n > 1 else [row])] for row in again.values.tolist()]
        ok = type(again) is type(r) and list(again.index) == list(r.index) and len(a2) == len(got) and all(
            len(p) == len(q) and all(same(x, y) for x, y in zip(p, q)) for p, q in zip(a2, got))
        if not ok:
            out.append((special or 'C13:unslice:roundtrip', 'series %s ub %s n=%d: stitching the recovered series gives rows %s cells %s, the frame was rows %s cells %s' % (
                series, ubs, n, [(t - DAY0).days for t in again.index], again.values.tolist(), days, got), call))
    except Exception as e:      # noqa
        out.append((special or 'C13:unslice:roundtrip', 'series %s ub %s n=%d: stitching the recovered series raised %s: %s' % (series, ubs, n, type(e).__name__, e), call))
    return 2, out


WORKERS = dict(single=job_single, tod=job_tod, stitch=job_stitch)


def run_job(job):
    return WORKERS[job['kind']](job)


# ------------------------------------------------------------------ enumerators
def jobs_for(tier, seed):
    rng = random.Random(seed)
    quick = tier == 'quick'
    jobs = []
    # A. every index subset of the 6-point grid x lb, ub at 13 positions or None x 4 bracket pairs (Series);
    #    the same for two-column frames and for series with NaN values on seeded subsets
    for s in SUBSETS:
        jobs.append(dict(kind='single', idx=s, frame=False))
    for s in (rng.sample(SUBSETS, 6) if quick else SUBSETS):
        jobs.append(dict(kind='single', idx=s, frame=True, nanrows=[o for o in s if rng.random() < .3]))
    for s in (rng.sample(SUBSETS, 6) if quick else SUBSETS):
        jobs.append(dict(kind='single', idx=s, frame=False, nanrows=[o for o in s if rng.random() < .4]))
    # B. time-of-day bounds: all 10 rows, and seeded subsets of them, x 11 x 11 bounds x 4 brackets (wrap past midnight when lb > ub)
    jobs.append(dict(kind='tod', rows=[list(r) for r in TOD_ROWS]))
    for _ in range(12 if quick else 300):
        rows = [list(r) for r in TOD_ROWS if rng.random() < .6]
        jobs.append(dict(kind='tod', rows=rows))
    # C. stitching 2-4 series at increasing / decreasing bounds, every n; then df_unslice and stitching again
    for _ in range(500 if quick else 12000):
        k = rng.choice([2, 3, 4])
        series = [[] if rng.random() < .06 else SUBSETS[rng.randrange(64)] if rng.random() < .8 else GRID for _ in range(k)]
        ubs = sorted(rng.sample(range(-1, 12), k))
        if rng.random() < .4:
            ubs = ubs[::-1]
        for n in range(1, k + 1):
            jobs.append(dict(kind='stitch', series=series, ubs=ubs, n=n, unslice=ubs == sorted(ubs) or rng.random() < .5))
    return jobs


def ident(job):
    return json.dumps(job, sort_keys=True)


def run(tier, seed):
    quick = tier == 'quick'
    c = Collector('C13', 'single slice: every subset of a 6-point grid (every other day) as Series x lb and ub each at None or one of 13 day positions (before / on / '
                  'between / after the grid points) x 4 bracket pairs (50176 slices), the same for two-column frames and NaN-valued series on %s subsets; '
                  'time-of-day: 10 intraday rows (00:00 06:00 12:00 18:00 23:30 on two days) and %d seeded subsets x 11x11 time bounds (incl. lb > ub wrap, lb == ub) '
                  'x 4 brackets; stitching: %d seeded tuples of 2-4 series (index subsets, 6%% of them forced empty) with strictly increasing or decreasing bounds drawn from the 13 '
                  'positions x every n in 1..k, then df_unslice and re-stitch. One evaluation = one df_slice / stitch / unslice call; distinct by full input; '
                  'non-trivial when the sliced object has at least one row' % ('6 seeded' if quick else 'all 64', 12 if quick else 300, 500 if quick else 12000),
                  exhaustive=False, scope='6-point date grid, 13 bound positions + None, 4 bracket pairs; 10 intraday rows, 10 time bounds + None; <=4 series, n <= 4')
    jobs = jobs_for(tier, seed)
    if quick:
        results = map(run_job, jobs)
    else:
        import multiprocessing as mp
        pool = mp.get_context('fork').Pool(14)
        results = pool.imap(run_job, jobs, chunksize=4)
    for job, (n, fails) in zip(jobs, results):
        base = ident(job)
        nontrivial = bool(job.get('idx') or job.get('rows') or any(job.get('series') or []))
        for i in range(n):
            c.case((base, i), nontrivial=nontrivial, sample={k: v for k, v in job.items() if k != 'combos'} if i == 0 else None)
        for key, what, call in fails:
            c.check(False, key, what, call)
    if not quick:
        pool.close()
        pool.join()
    return c.result()


def replay(call):
    job = dict(call)
    if job.get('combos'):
        job['combos'] = [tuple(x) for x in job['combos']]
    n, fails = run_job(job)
    return dict(fails=bool(fails), detail='; '.join('%s: %s' % (k, w) for k, w, _ in fails)[:600] if fails else 'all clauses hold on the real code for this input')
