"""Replay for the deductive C17 obligations.  Counterexamples of these obligations are interpretations of uninterpreted pandas operations and
cannot be concretised, except for _nth whose model (n, rows) is replayed as it is.  Every other obligation family maps to a fixed battery of
discriminating publication histories (values that revert to an earlier value, several versions sharing a stamp, NaN revisions, dates that
appear only later, reads on / between / after the stamps, re-merging a stored version) evaluated on the real code against the per-date fold
oracle of the bounded stand-in (rac/C17.py)."""
import warnings

from rac import C17 as B
from rac.common import known_finding_keys

KNOWN = known_finding_keys('C17')

N = 'nan'
HISTORIES = [
    [[1, {'0': 1.0, '1': 2.0}], [2, {'0': 2.0}], [3, {'0': 1.0, '2': 1.0}]],                       # reverts to an earlier value
    [[1, {'0': 1.0}], [1, {'0': 2.0}], [2, {'0': 2.0, '1': 1.0}]],                                 # same stamp twice, then a repeat
    [[1, {'0': 1.0, '1': 1.0}], [2, {'0': N, '1': 2.0}], [3, {'0': 2.0}]],                         # NaN never overrides
    [[2, {'0': 1.0}], [2, {'1': 1.0}], [4, {'0': 1.0, '1': 2.0}], [4, {'0': 2.0}]],
    [[1, {'0': 2.0}], [3, {'0': 1.0}], [5, {'0': 2.0}], [7, {'0': 1.0}]],
    [[1, {'0': 1.0, '1': 2.0, '2': N}], [2, {'2': 1.0}], [2, {'2': 2.0}], [3, {'1': 2.0, '2': 1.0}]],
    [[1, {'0': 1.0, '1': 1.0}], [2, {'0': 2.0}], [2, {'0': N, '1': 2.0}]],                           # NaN republished under a stamp already stored
    [[1, {'0': 1.0}]],
]


def replay_nth(call):
    import pandas as pd
    from pyg_base._bitemporal import _nth
    m = call.get('model') or {}
    cases = [(m.get('n'), m.get('rows'))] if isinstance(m.get('n'), int) and isinstance(m.get('rows'), int) and 1 <= m['rows'] <= 1000 else []
    cases += [(n, L) for L in (1, 2, 3, 5) for n in range(-L - 3, L + 4)]
    bad = []
    for n, L in cases:
        v = pd.Series(range(L))
        exp = (n if n < L else L - 1) if n >= 0 else (L + n if -n <= L else 0)
        try:
            got = _nth(v, n)
        except Exception as e:      # noqa
            bad.append('_nth(group of %d rows, %d) raised %s: %s' % (L, n, type(e).__name__, e))
            continue
        if got != exp:
            bad.append('_nth(group of %d rows, %d) read row %s, expected row %d' % (L, n, got, exp))
    return bad


def replay_histories(call):
    bad = []
    for h in HISTORIES:
        n, fails = B.run_job(dict(history=h))
        bad += ['%s: %s' % (k, w) for k, w, _ in fails if k not in KNOWN]
    return bad


def _replay(call):
    warnings.filterwarnings('ignore')
    kind = call.get('kind')
    fn = dict(nth=lambda c: replay_nth(c) + replay_histories(c), bi_read=replay_histories, drop_repeats=replay_histories, bi_merge=replay_histories).get(kind)
    if fn is None:
        return dict(fails=None, detail='no native battery for %r' % kind)
    bad = fn(call)
    return dict(fails=bool(bad), detail=('; '.join(bad))[:600] if bad else 'the clause holds on the real code for the whole battery of this obligation family')


def replay(call):
    from rac.ded_cache import cached
    return cached(__name__, call, lambda: _replay(call), uses=(('model',) if call.get('kind') == 'nth' else ()), deps=(__file__, B.__file__))
