"""Native re-check of failed C15 deductive / frame obligations.  The obligations live in abstractions (ownership levels, an uninterpreted
tree sort, a heap of object ids), so a counterexample is looked for on the real code over a small enumerated scope that exercises the clause:
all trees with <= 4 nodes over keys a, b (depth <= 3), all pairs (t, u) of such trees with <= 3 nodes, every path / leaf / ignore combination.
replay(call) -> dict(fails=bool, detail=str); runs under /venv/bin/python with the real pyg_base importable."""
import copy, itertools


def _trees(n, depth, keys=('a', 'b')):
    """all nested dicts with exactly n entries (branch or leaf) and at most `depth` levels, branches non-empty, leaves 1"""
    if n == 0:
        return [{}]
    if depth == 0:
        return []
    out = []
    for k in range(1, min(n, len(keys)) + 1):
        for ks in itertools.combinations(keys, k):
            for comp in _compositions(n, k):
                opts = [([1] if c == 1 else [t for t in _trees(c - 1, depth - 1, keys) if t]) for c in comp]
                for choice in itertools.product(*opts):
                    out.append(dict(zip(ks, [copy.deepcopy(c) for c in choice])))
    return out


def _compositions(n, k):
    if k == 1:
        yield (n,)
        return
    for i in range(1, n - k + 2):
        for r in _compositions(n - i, k - 1):
            yield (i,) + r


def all_trees(maxn=4, depth=3):
    return [t for n in range(1, maxn + 1) for t in _trees(n, depth)]


def _relabel(t, leaves):
    return {k: _relabel(v, leaves) if isinstance(v, dict) else next(leaves) for k, v in t.items()}


def _leafcycle(pool):
    i = 0
    while True:
        v = pool[i % len(pool)]
        yield list(v) if isinstance(v, list) else v
        i += 1


def _flatten(t):
    out = []
    for k, v in t.items():
        if isinstance(v, dict):
            out += [(k,) + i for i in _flatten(v)]
        else:
            out.append((k, v))
    return out


def frame(call):
    """neither operand may change, at any depth; _tree_copy must return a tree whose branches are all new"""
    from pyg_base import tree_update, items_to_tree, tree_items, Dict, dictattr
    from pyg_base._dict import _tree_copy, _tree_setitem
    from pyg_base._table_to_tree import table_to_tree
    func = call.get('func', '')
    ts = [_relabel(t, _leafcycle([1, 'x', [1, 2], None])) for t in all_trees(4)]
    us = [_relabel(t, _leafcycle([9, None, [3], 'z'])) for t in all_trees(3)]
    types = (dict, Dict, dictattr)
    # every tree again with a root of one mapping class and branches of another (Dict(a = 1, b = dict(...)) is the usual shape): what counts as a
    # branch must not depend on the class of the root
    ts = ts + [_mix(t, outer, inner) for t in ts[::3] for outer, inner in ((Dict, dict), (dictattr, dict), (Dict, dictattr), (dict, Dict))]
    for t in ts:
        if func.startswith('_tree_copy'):
            t0 = copy.deepcopy(t)
            r = _tree_copy(t, types)
            for item in [('a', 'a', 'zz', 5), ('a', 'b', 'zz', 5), ('b', 'a', 'zz', 5), ('a', 'zz', 5), ('zz', 5)]:
                try:
                    _tree_setitem(r, list(item), dict, [], types)
                except Exception:      # noqa
                    pass
            if t != t0:
                return dict(fails=True, detail='writing into _tree_copy(t, types) changed t from %r to %r' % (t0, t))
            continue
        for u in us:
            t0, u0 = copy.deepcopy(t), copy.deepcopy(u)
            try:
                if func.startswith('Dict.__add__'):
                    T = Dict(copy.deepcopy(t)); T0 = copy.deepcopy(T)
                    T + u
                    if T != T0:
                        return dict(fails=True, detail='Dict(%r) + %r changed the left operand to %r' % (t0, u0, T))
                elif func.startswith('table_to_tree') or func.startswith('_table_to_tree'):
                    rows = [dict(zip('xyz', i + ('pad',) * (3 - len(i)))) for i in _flatten(u) if len(i) <= 3]
                    rows0 = copy.deepcopy(rows)
                    for pattern in ('%x/%y', '%x/%y/%z', 'a/%x/%y'):
                        table_to_tree(t, pattern, rows, base=dict)
                        if t != t0 or rows != rows0:
                            return dict(fails=True, detail='table_to_tree(t, %r, %r) changed t from %r to %r' % (pattern, rows0, t0, t))
                elif func.startswith('items_to_tree'):
                    items = tree_items(u)
                    items_to_tree(items, t)
                else:
                    tree_update(t, u)
                    tree_update(t, u, ignore=[None])
            except Exception as e:      # noqa
                continue
            if t != t0 or u != u0:
                return dict(fails=True, detail='%s with t = %r, u = %r changed its operands to %r, %r' % (func or 'tree_update', t0, u0, t, u))
    return dict(fails=False, detail='no operand changed on %d x %d tree pairs' % (len(ts), len(us)))


def _mix(t, outer, inner, top=True):
    if not isinstance(t, dict):
        return t
    return (outer if top else inner)({k: _mix(v, outer, inner, False) for k, v in t.items()})


def projection(call):
    from pyg_base import tree_items, tree_keys, tree_values, Dict, dictattr
    for t in all_trees(4):
        for conv in (lambda x: x, lambda x: _conv(x, Dict), lambda x: _conv(x, dictattr)):
            t2 = conv(_relabel(t, _leafcycle([1, 'x', None, [1]])))
            items, keys, values = tree_items(t2), tree_keys(t2), tree_values(t2)
            if keys != [i[:-1] for i in items] or values != [i[-1] for i in items] or any(len(i) < 1 for i in items):
                return dict(fails=True, detail='t = %r (%s): tree_items %r, tree_keys %r, tree_values %r' % (t2, type(t2).__name__, items, keys, values))
    return dict(fails=False, detail='projections agree on all trees with <= 4 nodes (dict, Dict, dictattr)')


def _conv(t, cls):
    return cls({k: _conv(v, cls) if isinstance(v, dict) else v for k, v in t.items()})


def getitem(call):
    from pyg_base import tree_getitem
    for t in all_trees(4):
        t = _relabel(t, _leafcycle([1, 'x', None, [1]]))
        for i in _flatten(t):
            for path in (list(i[:-1]), tuple(i[:-1])):
                try:
                    got = tree_getitem(t, path)
                except Exception as e:      # noqa
                    return dict(fails=True, detail='tree_getitem(%r, %r) raised %r' % (t, path, e))
                if got is not i[-1] and got != i[-1]:
                    return dict(fails=True, detail='tree_getitem(%r, %r) = %r, expected %r' % (t, path, got, i[-1]))
        for path in (['zz'], ['a', 'zz']):
            try:
                tree_getitem(t, path)
                return dict(fails=True, detail='tree_getitem(%r, %r) did not raise' % (t, path))
            except (KeyError, TypeError, IndexError):
                pass
    return dict(fails=False, detail='tree_getitem follows every listed path on all trees with <= 4 nodes')


def setitem(call):
    """_tree_setitem against a direct model on all small trees, paths of length 1..3 over a, b, c, leaves incl. an ignored one"""
    from pyg_base import Dict, dictattr
    from pyg_base._dict import _tree_setitem
    types = (dict, Dict, dictattr)
    for t in all_trees(3):
        t = _relabel(t, _leafcycle([1, None]))
        for n in (1, 2, 3):
            for path in itertools.product('abc', repeat=n):
                for leaf in (7, None):
                    for ignore in ([], [None]):
                        t1, t0 = copy.deepcopy(t), copy.deepcopy(t)
                        exp = copy.deepcopy(t)
                        node = exp
                        for k in path[:-1]:
                            if not isinstance(node.get(k), dict):
                                node[k] = {}
                            node = node[k]
                        if not (path[-1] in node and any(leaf is x for x in ignore)):
                            node[path[-1]] = leaf
                        kept = [(k, t1[k]) for k in t1 if isinstance(t1[k], dict)]
                        try:
                            _tree_setitem(t1, list(path) + [leaf], dict, ignore, types)
                        except Exception as e:      # noqa
                            return dict(fails=True, detail='_tree_setitem(%r, %r, dict, %r, types) raised %r' % (t0, list(path) + [leaf], ignore, e))
                        if t1 != exp:
                            return dict(fails=True, detail='_tree_setitem(%r, %r, ignore=%r) gave %r, expected %r' % (t0, list(path) + [leaf], ignore, t1, exp))
                        if any(t1.get(k) is not v for k, v in kept if isinstance(exp.get(k), dict)):
                            return dict(fails=True, detail='_tree_setitem(%r, %r) replaced an existing branch object' % (t0, list(path) + [leaf]))
        for short in ([], [1]):
            try:
                _tree_setitem({}, short, dict, [], types)
                return dict(fails=True, detail='_tree_setitem with item %r did not raise ValueError' % short)
            except ValueError:
                pass
            except Exception as e:      # noqa
                return dict(fails=True, detail='_tree_setitem with item %r raised %r, expected ValueError' % (short, e))
    return dict(fails=False, detail='_tree_setitem agrees with the direct model on all small trees, paths and ignore lists')


def replay(call):
    kind = call.get('kind')
    if kind == 'frame':
        return frame(call)
    if kind == 'projection':
        return projection(call)
    if kind == 'getitem':
        return getitem(call)
    if kind == 'setitem':
        return setitem(call)
    return dict(fails=None, detail='no replay for kind %r' % kind)
