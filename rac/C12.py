"""C12 bounded stand-in: df_fillna / nona fill or drop exactly the missing cells, for pandas objects and numpy arrays alike.

Oracles are explicit loops over python lists (a run-length forward fill with `limit`, its mirror, constant fill, row removal,
'ffill up to the last valid observation, then NaN / 0'); a list of methods is the composition of the single steps.  A case is one
NaN pattern (cells hold position-coded values i+1, second column 11+i) x one method or two-method list x one limit; each case
is evaluated on the pandas object (Series on a daily DatetimeIndex / two-column DataFrame) and on the corresponding numpy array.
`call` = dict(cols=[[...],[...]] column-wise with 'nan', frame=bool, method=..., limit=...)."""
import datetime, itertools, json, random, warnings
from rac.common import Collector

D = datetime.datetime
NAN = float('nan')
GRID = [D(2020, 1, 1) + datetime.timedelta(days=i) for i in range(12)]
LIMITS = [None, 1, 2, 3]
LIMITED = ['ffill', 'bfill', 'ffill_na', 'ffill_0']
SINGLES = LIMITED + [0.0, -1.5, 'nona', 'fnna']
PAIR_ATOMS = ['ffill', 'bfill', 0.0, 'nona', 'fnna', 'ffill_na', 'ffill_0']
PAIRS = [[a, b] for a in PAIR_ATOMS for b in PAIR_ATOMS]
K_LIST_TAIL = 'C12:list:ffill_na-or-ffill_0-as-second-method'
K_ZERO_ROW = 'C12:nona:zero-row-frame-loses-columns'
K_FNNA_ARR = 'C12:list:fnna-after-row-dropping-method:array'
K_FRAME_TAIL = 'C12:list:frame-with-ffill_na-or-ffill_0'


def isn(x):
    return isinstance(x, float) and x != x


def same(x, y):
    x, y = float(x), float(y)
    return (x != x and y != y) or x == y


def dec(v):
    return NAN if v == 'nan' else float(v)


# ------------------------------------------------------------------ oracle: a table is (row labels, list of columns)
def ffill(v, limit=None):
    out, last, run = [], None, 0
    for x in v:
        if isn(x):
            run += 1
            out.append(last if (last is not None and (limit is None or run <= limit)) else NAN)
        else:
            last, run = x, 0
            out.append(x)
    return out


def bfill(v, limit=None):
    return ffill(v[::-1], limit)[::-1]


def tail_rule(v, limit, tail):
    """forward fill up to the last valid observation, then `tail`; nothing to do when there is no valid observation"""
    valid = [i for i, x in enumerate(v) if not isn(x)]
    if not valid:
        return list(v)
    f = ffill(v, limit)
    return f[:valid[-1] + 1] + [tail] * (len(v) - valid[-1] - 1)


def step(rows, cols, m, limit):
    if m == 'ffill':
        return rows, [ffill(c, limit) for c in cols]
    if m == 'bfill':
        return rows, [bfill(c, limit) for c in cols]
    if m == 'ffill_na':
        return rows, [tail_rule(c, limit, NAN) for c in cols]
    if m == 'ffill_0':
        return rows, [tail_rule(c, limit, 0.0) for c in cols]
    if isinstance(m, (int, float)):
        return rows, [[float(m) if isn(x) else x for x in c] for c in cols]
    n = len(rows)
    allnan = [all(isn(c[i]) for c in cols) for i in range(n)]
    if m == 'nona':
        keep = [i for i in range(n) if not allnan[i]]
    elif m == 'fnna':
        first = min([i for i in range(n) if not allnan[i]], default=n)
        keep = list(range(first, n))
    else:
        raise ValueError(m)
    return [rows[i] for i in keep], [[c[i] for i in keep] for c in cols]


def expected(cols, method, limit, trace=None):
    rows = list(range(len(cols[0])))
    for m in (method if isinstance(method, list) else [method]):
        if trace is not None and m == 'nona' and not rows:
            trace.append('nona on zero rows')
        rows, cols = step(rows, cols, m, limit)
    return rows, cols


def klass(method):
    if isinstance(method, list):
        return 'list'
    return 'number' if isinstance(method, (int, float)) else method


# ------------------------------------------------------------------ one case on the real code
def table(x, frame):
    """(row labels as grid positions or None for arrays, columns) of a result"""
    import numpy as np, pandas as pd
    if isinstance(x, np.ndarray):
        if x.ndim == 1:
            return None, [[float(v) for v in x]], x.shape
        return None, [[float(v) for v in x[:, j]] for j in range(x.shape[1])], x.shape
    rows = [GRID.index(t.to_pydatetime()) for t in x.index]
    if isinstance(x, pd.Series):
        return rows, [[float(v) for v in x.values]], x.shape
    return rows, [[float(v) for v in x.iloc[:, j].values] for j in range(x.shape[1])], x.shape


def eq_cols(a, b):
    return len(a) == len(b) and all(len(p) == len(q) and all(same(x, y) for x, y in zip(p, q)) for p, q in zip(a, b))


def run_job(job):
    import numpy as np, pandas as pd
    from pyg_base import df_fillna, nona
    warnings.filterwarnings('ignore')
    cols = [[dec(v) for v in c] for c in job['cols']]
    frame, method, limit = job['frame'], job['method'], job.get('limit')
    n = len(cols[0])
    index = pd.DatetimeIndex(GRID[:n])
    pdo = pd.DataFrame({k: pd.Series(c, index, dtype=float) for k, c in zip('ab', cols)}, index=index, columns=list('ab'[:len(cols)])) if frame else pd.Series(cols[0], index, dtype=float)
    arr = pdo.values.copy()
    call_nona = method == 'nona()'
    trace = []
    erows, ecols = expected(cols, 'nona' if call_nona else method, limit, trace)
    k = klass('nona' if call_nona else method)
    # input classes with their own keys (one per known defect, see the final report of this module's author)
    mlist = method if isinstance(method, list) else [method]
    special = None
    if frame and trace:
        special = K_ZERO_ROW            # a frame without rows (given, or left by the previous step) loses its columns in 'nona'
    elif frame and isinstance(method, list) and ('ffill_na' in method or 'ffill_0' in method):
        special = K_FRAME_TAIL          # the frame branch of ffill_na / ffill_0 re-applies the whole method list column by column
    elif isinstance(method, list) and method[1] in ('ffill_na', 'ffill_0') and not frame:
        special = K_LIST_TAIL           # the tail rule looks at the original input, not at the previous step's result
    elif isinstance(method, list) and method[1] == 'fnna' and method[0] in ('nona', 'fnna'):
        special = K_FNNA_ARR            # label slice turns positional on the integer index of the temporary Series
    out = []
    res = {}
    for name, x in (('pandas', pdo), ('array', arr)):
        x0 = x.copy()
        try:
            r = nona(x) if call_nona else df_fillna(x, method, limit=limit) if limit is not None else df_fillna(x, method)
        except Exception as e:      # noqa
            out.append((special or 'C12:raises', '%s input, method %r limit %r: raised %s: %s' % (name, method, limit, type(e).__name__, e)))
            continue
        if type(r) is not type(x):
            out.append(('C12:type', '%s input came back as %s' % (name, type(r).__name__)))
            continue
        rows, rcols, shape = table(r, frame)
        res[name] = (rcols, shape)
        key = special or 'C12:value:' + k
        if not eq_cols(rcols, ecols):
            out.append((key, '%s %s, method %r limit %r: got %s, expected %s' % (name, job['cols'], method, limit, rcols, ecols)))
        elif rows is not None and rows != erows:
            out.append(('C12:index', '%s %s, method %r: surviving rows %s, expected %s' % (name, job['cols'], method, rows, erows)))
        # never changes a non-NaN cell (row-preserving methods: compared in place; row-dropping ones: on the surviving rows)
        if rows is not None and len(rcols) == len(cols):
            for c_in, c_out in zip(cols, rcols):
                for pos, v in zip(rows, c_out):
                    if 0 <= pos < n and not isn(c_in[pos]) and not same(v, c_in[pos]):
                        out.append(('C12:nonnan-preserved', '%s %s, method %r limit %r: cell %d was %r, became %r' % (name, job['cols'], method, limit, pos, c_in[pos], v)))
                        break
        _, now, _ = table(x, frame)
        _, was, _ = table(x0, frame)
        if not eq_cols(now, was) or (name == 'pandas' and list(x.index) != list(x0.index)):
            out.append(('C12:input-modified', '%s input was modified by method %r' % (name, method)))
    if len(res) == 2 and not (eq_cols(res['pandas'][0], res['array'][0]) and res['pandas'][1] == res['array'][1]):
        out.append((special or 'C12:array-vs-pandas', '%s method %r limit %r: array result %s %s, pandas .values %s %s' % (
            job['cols'], method, limit, res['array'][1], res['array'][0], res['pandas'][1], res['pandas'][0])))
    # at most one finding per key
    seen, uniq = set(), []
    for key, what in out:
        if key not in seen:
            seen.add(key)
            uniq.append((key, what))
    return uniq


# ------------------------------------------------------------------ enumerators
def patterns(n, ncol):
    for mask in itertools.product([0, 1], repeat=n * ncol):
        yield [[float(10 * j + i + 1) if mask[j * n + i] else 'nan' for i in range(n)] for j in range(ncol)]


def methods_full():
    out = [(m, l) for m in LIMITED for l in LIMITS] + [(m, None) for m in SINGLES if m not in LIMITED] + [('nona()', None)]
    # method lists with a limit: the limit applies to every step, so the same limited method twice in a row fills twice as far
    limited_pairs = [([a, b], l) for a in LIMITED for b in LIMITED for l in (1, 2)]
    return out + [(p, None) for p in PAIRS] + limited_pairs


def jobs_for(tier, seed):
    rng = random.Random(seed)
    quick = tier == 'quick'
    full = methods_full()
    singles = [ml for ml in full if not isinstance(ml[0], list)]
    jobs = []
    vec_full, vec_single = (6, 8) if quick else (9, 9)
    for n in range(0, vec_single + 1):
        for cols in patterns(n, 1):
            for m, l in (full if n <= vec_full else singles + [(p, None) for p in rng.sample(PAIRS, 2)]):
                jobs.append(dict(cols=cols, frame=False, method=m, limit=l))
    frm_full, frm_max = (3, 5) if quick else (5, 5)
    for n in range(0, frm_max + 1):
        pats = list(patterns(n, 2))
        if n > frm_full:
            pats = rng.sample(pats, 30 if n == 4 else 20)
        for cols in pats:
            for m, l in (full if n <= 2 or not quick else singles + [(p, None) for p in rng.sample(PAIRS, 6)]):
                jobs.append(dict(cols=cols, frame=True, method=m, limit=l))
    # frames with exactly one column (and their (n, 1) arrays): a frame, not a Series - the 2-d code paths with the smallest width
    for n in range(0, (4 if quick else 6) + 1):
        for cols in patterns(n, 1):
            for m, l in (singles + [(p, None) for p in rng.sample(PAIRS, 3)]):
                jobs.append(dict(cols=cols, frame=True, method=m, limit=l))
    return jobs, dict(vec_full=vec_full, vec_single=vec_single, frm_full=frm_full, frm_max=frm_max)


def ident(job):
    return json.dumps([job['cols'], job['frame'], job['method'], job.get('limit')])


def run(tier, seed):
    quick = tier == 'quick'
    jobs, b = jobs_for(tier, seed)
    c = Collector('C12', 'every NaN pattern of float vectors of length 0..%d (cells i+1) x {ffill,bfill,ffill_na,ffill_0} x limit {None,1,2,3}, {0.0,-1.5,nona,fnna}, '
                  'nona(), all 49 two-method lists over {ffill,bfill,0.0,nona,fnna,ffill_na,ffill_0} and every pair of limited methods with limit 1 and 2%s; every NaN pattern of two-column frames of '
                  'length 0..%d%s and of one-column frames / (n,1) arrays of length 0..4 (thorough 6); each case runs on the Series/DataFrame (daily DatetimeIndex) and on its numpy array; clauses: values = explicit-loop oracle, '
                  'surviving rows, non-NaN cells unchanged, array result == pandas .values, input unmodified. Distinct by (pattern, frame?, method, limit); '
                  'non-trivial when the pattern contains at least one NaN'
                  % (b['vec_full'], '' if not quick else '; lengths 7-%d with the single methods and 2 seeded lists' % b['vec_single'], b['frm_full'],
                     '' if not quick else ' (lengths 4-5: 30/20 seeded patterns; lengths 3-5: single methods and 6 seeded lists)'),
                  exhaustive=not quick, scope='vectors of length <= %d, two-column frames of length <= %d, cells in {position code, NaN}, limit in {None,1,2,3}' % (
                      b['vec_single'] if quick else b['vec_full'], b['frm_max']))
    if quick:
        results = map(run_job, jobs)
    else:
        import multiprocessing as mp
        pool = mp.get_context('fork').Pool(14)
        results = pool.imap(run_job, jobs, chunksize=200)
    for job, fails in zip(jobs, results):
        c.case(ident(job), nontrivial=any(v == 'nan' for col in job['cols'] for v in col), sample=dict(cols=job['cols'], method=job['method'], limit=job.get('limit')))
        for key, what in fails:
            c.check(False, key, what, job)
    if not quick:
        pool.close()
        pool.join()
    return c.result()


def replay(call):
    fails = run_job(dict(cols=call['cols'], frame=call['frame'], method=call['method'], limit=call.get('limit')))
    return dict(fails=bool(fails), detail='; '.join('%s: %s' % f for f in fails)[:600] if fails else 'all clauses hold on the real code for this input')
