"""C06 bounded stand-in: dictable.inc / exc / find_<col> / one_or_none on the real code against a row-by-row oracle.

Oracle (from the property statement): a row satisfies a column condition when the cell `is None` (condition None), is a NaN
(condition NaN), is a string the compiled regex finds a match in (condition regex), equals one of the listed values (condition
list) or equals the value; a conjunction needs every column condition; a callable is called with the named columns and its
result taken as a truth value.  inc = the satisfying rows in original order, exc = the others in original order."""
import itertools, math, random, re
from rac.common import Collector

U = [None, 1, 2.0, 'nan', 'a', 'ab']         # cell tokens; 'nan' -> one float('nan') object per table (as np.nan would be)

# condition tokens for one column
VALUE_CONDS = [None, 1, 1.0, 2, 2.0, 3, 'nan', 'a', 'ab', 'zz',
               [1, 'a'], [None, 2], [], ['ab'], [None, 1, 2, 'a', 'ab'],
               {'re': 'a'}, {'re': 'b$'}, {'re': '^a$'}, {'re': 'z'}, {'re': ''}]

FUNCS = {
    'x_is_none': (lambda x: x is None),
    'x_is_str': (lambda x: isinstance(x, str)),
    'always': (lambda x: True),
    'never': (lambda x: False),
    'x_eq_y': (lambda x, y: x == y),
    'i_even': (lambda i: i % 2 == 0),
    'x_truthy': (lambda x: x),
    'no_args_true': (lambda: True),
}
FUNC_ARGS = {'x_is_none': ['x'], 'x_is_str': ['x'], 'always': ['x'], 'never': ['x'], 'x_eq_y': ['x', 'y'], 'i_even': ['i'], 'x_truthy': ['x'], 'no_args_true': []}


def is_nan(v):
    return isinstance(v, float) and math.isnan(v)


def canon(v):
    if is_nan(v):
        return ('<NaN>',)
    if isinstance(v, (list, tuple)):
        return tuple(canon(i) for i in v)
    return v


def same(a, b):
    """cell equality: ==, and NaN equals NaN"""
    return canon(a) == canon(b)


def rows_equal(got, exp, cols):
    return len(got) == len(exp) and all(set(g.keys()) == set(cols) and all(same(g[c], e[c]) for c in cols) for g, e in zip(got, exp))


def dec_cell(tok, nan):
    return nan if tok == 'nan' else tok


def dec_cond(tok):
    if isinstance(tok, dict):
        return re.compile(tok['re'])
    if isinstance(tok, list):
        return list(tok)
    if tok == 'nan':
        return float('nan')        # a NaN object of its own: the condition is 'is a NaN', not 'is this object'
    return tok


def sat_cell(cell, tok):
    if isinstance(tok, dict):
        return isinstance(cell, str) and re.search(tok['re'], cell) is not None
    if isinstance(tok, list):
        return any(cell is v or cell == v for v in tok)
    if tok is None:
        return cell is None
    if tok == 'nan':
        return is_nan(cell)
    return cell == tok


def sat_row(row, cond):
    """cond = dict(kw={col: tok}, dict={col: tok}, fn=name): conjunction of the column conditions, or the single callable"""
    if cond.get('fn'):
        return bool(FUNCS[cond['fn']](*[row[a] for a in FUNC_ARGS[cond['fn']]]))
    conds = dict(cond.get('dict') or {})
    conds.update(cond.get('kw') or {})
    return all(sat_cell(row[c], t) for c, t in conds.items())


def cond_kind(cond):
    return 'callable' if cond.get('fn') else 'dict' if cond.get('dict') else 'keyword' if cond.get('kw') else 'none'


def call_args(cond):
    args, kwargs = [], {}
    if cond.get('fn'):
        args.append(FUNCS[cond['fn']])
    if cond.get('dict'):
        args.append({k: dec_cond(v) for k, v in cond['dict'].items()})
    for k, v in (cond.get('kw') or {}).items():
        kwargs[k] = dec_cond(v)
    return args, kwargs


def table_rows(t):
    cols = list(t.keys())
    vals = [t[c] for c in cols]
    n = len(vals[0]) if vals else 0
    rect = all(isinstance(v, list) and len(v) == n for v in vals)
    return cols, [dict(zip(cols, r)) for r in zip(*vals)], rect


def distinct(values):
    out = []
    for v in values:
        if not any(same(v, w) for w in out):
            out.append(v)
    return out


def eval_case(case):
    """all clauses for one (table, condition); returns [(key, what)]"""
    from pyg_base import dictable
    fails = []
    nan = float('nan')
    cols = ['x', 'y', 'i']
    n = len(case['x'])
    data = dict(x=[dec_cell(t, nan) for t in case['x']], y=[dec_cell(t, nan) for t in case['y']], i=list(range(n)))
    d = dictable(data)
    rows = [dict(zip(cols, r)) for r in zip(*[data[c] for c in cols])]
    cond = case['cond']
    kind = ':' + cond_kind(cond)
    snap = [(k, list(v)) for k, v in dict(d).items()]
    exp_inc = [r for r in rows if sat_row(r, cond)]
    exp_exc = [r for r in rows if not sat_row(r, cond)]

    def unchanged():
        now = dict(d)
        return list(now) == [k for k, _ in snap] and all(len(now[k]) == len(v) and all(a is b for a, b in zip(now[k], v)) for k, v in snap)

    def fail(key, what):
        fails.append((key, what))

    got = {}
    for name, exp in (('inc', exp_inc), ('exc', exp_exc)):
        a, kw = call_args(cond)
        try:
            r = getattr(d, name)(*a, **kw)
        except Exception as e:      # noqa
            fail('C06:%s:raises%s' % (name, kind), '%s raised %s: %s' % (name, type(e).__name__, e))
            continue
        rc, rr, rect = table_rows(r)
        got[name] = r
        if not isinstance(r, dictable) or not rect:
            fail('C06:%s:rectangular%s' % (name, kind), '%s returned %r' % (name, dict(r)))
            continue
        if set(rc) != set(cols):
            fail('C06:%s:columns%s' % (name, kind), '%s result has columns %r (rows %d), table has %r' % (name, rc, len(rr), cols))
            continue
        if not rows_equal(rr, exp, cols):
            fail('C06:%s:rows%s' % (name, kind), '%s returned rows %r, expected %r' % (name, [x['i'] for x in rr], [x['i'] for x in exp]))
    if 'inc' in got and 'exc' in got and 'i' in got['inc'].keys() and 'i' in got['exc'].keys():
        gi, ge = list(got['inc']['i']), list(got['exc']['i'])
        if not (sorted(gi + ge) == list(range(n)) and gi == sorted(gi) and ge == sorted(ge)):
            fail('C06:partition%s' % kind, 'inc keeps rows %r and exc keeps rows %r of %d' % (gi, ge, n))
    if not unchanged():
        fail('C06:self-unchanged', 'inc/exc altered the table')
    # idempotence (relational)
    if 'inc' in got:
        a, kw = call_args(cond)
        try:
            twice = got['inc'].inc(*a, **kw)
            c1, r1, _ = table_rows(got['inc'])
            c2, r2, _ = table_rows(twice)
            if set(c1) != set(c2) or not rows_equal(r2, r1, c1):
                fail('C06:inc:idempotent%s' % kind, 'inc(inc(d)) has rows %r, inc(d) has %r' % ([x.get('i') for x in r2], [x.get('i') for x in r1]))
        except Exception as e:      # noqa
            fail('C06:inc:idempotent%s' % kind, 'second inc raised %s: %s' % (type(e).__name__, e))
    # find_<col>
    for col in cols:
        vals = distinct([r[col] for r in exp_inc])
        a, kw = call_args(cond)
        try:
            v = getattr(d, 'find_' + col)(*a, **kw)
            outcome = ('value', v)
        except ValueError as e:
            outcome = ('ValueError', str(e))
        except Exception as e:      # noqa
            outcome = ('other', '%s: %s' % (type(e).__name__, e))
        if len(vals) == 1:
            ok = outcome[0] == 'value' and same(outcome[1], vals[0])
        else:
            ok = outcome[0] == 'ValueError'
        if not ok:
            fail('C06:find%s' % kind, 'find_%s gave %r; the selected rows hold %d distinct value(s) %r' % (col, outcome, len(vals), vals[:3]))
    # one_or_none, plain and with exc= / find=
    for extra in (None, dict(exc={'y': case.get('exc_y')}, find='i')):
        a, kw = call_args(cond)
        sel = exp_inc
        if extra:
            if cond.get('fn'):
                continue
            sel = [r for r in sel if not sat_cell(r['y'], extra['exc']['y'])]
            kw = dict(kw, exc={'y': dec_cond(extra['exc']['y'])}, find='i')
        try:
            v = d.one_or_none(*a, **kw)
            outcome = ('value', v)
        except ValueError as e:
            outcome = ('ValueError', str(e))
        except Exception as e:      # noqa
            outcome = ('other', '%s: %s' % (type(e).__name__, e))
        if len(sel) > 1:
            ok = outcome[0] == 'ValueError'
        elif len(sel) == 0:
            ok = outcome == ('value', None)
        elif extra:
            ok = outcome[0] == 'value' and outcome[1] == sel[0]['i'] and outcome[1] is not None
        else:
            ok = outcome[0] == 'value' and isinstance(outcome[1], dict) and rows_equal([dict(outcome[1])], sel, cols)
        if not ok:
            fail('C06:one_or_none%s' % kind, 'one_or_none%s gave %r; %d row(s) selected %r' % (' with exc/find' if extra else '', outcome, len(sel), [r['i'] for r in sel]))
    if not unchanged():
        fail('C06:self-unchanged', 'find_/one_or_none altered the table')
    return fails


def eval_identity(case):
    """inc() / exc() with no condition are the identity"""
    from pyg_base import dictable
    nan = float('nan')
    cols = ['x', 'y', 'i']
    n = len(case['x'])
    data = dict(x=[dec_cell(t, nan) for t in case['x']], y=[dec_cell(t, nan) for t in case['y']], i=list(range(n)))
    d = dictable(data)
    rows = [dict(zip(cols, r)) for r in zip(*[data[c] for c in cols])]
    fails = []
    for name in ('inc', 'exc'):
        r = getattr(d, name)()
        rc, rr, rect = table_rows(r)
        if not rect or set(rc) != set(cols) or not rows_equal(rr, rows, cols):
            fails.append(('C06:%s:identity' % name, '%s() returned %r' % (name, dict(r))))
    return fails


# ---------------------------------------------------------------- enumeration
def conditions(rng, sample=None):
    """all condition descriptors; with `sample` a seeded subset of the two-column ones"""
    out = [dict(kw={'x': t}) for t in VALUE_CONDS]
    out += [dict(dict={'x': t}) for t in (None, 1, 'nan', [1, 'a'], {'re': 'a'}, 'zz')]
    out += [dict(fn=f) for f in FUNCS]
    pairs = [dict(kw={'x': a, 'y': b}) for a in (None, 1, 2, 'nan', [1, 'a', None], {'re': 'a'}) for b in (None, 1, 'nan', 'a', [None, 2, 'ab'], {'re': 'b'}, 'zz')]
    pairs += [dict(dict={'x': a}, kw={'y': b}) for a in (None, 1, [2, 'ab']) for b in (None, 1, 'nan', [1, 'a'])]
    pairs += [dict(dict={'x': a, 'y': b}) for a in (1, 'nan', {'re': ''}) for b in (None, 'a', [1, 2])]
    if sample is not None:
        pairs = rng.sample(pairs, sample)
    return out + pairs


def run(tier, seed):
    rng = random.Random(seed)
    quick = tier == 'quick'
    full_rows = 3 if quick else 4
    n_sampled = 100 if quick else 0
    c = Collector('C06', rule='tables with columns x, y, i (i = row number) whose x column runs through EVERY list of <= %d cells over {None, 1, 2.0, nan, "a", "ab"} '
                  '(y cells seeded random from the same set)%s; each table x every condition of the catalogue: 20 keyword conditions on x (values incl. int/float '
                  'spellings 1/1.0, 2/2.0, None, NaN, a value matching nothing, 5 lists incl. [] and [None, 2], 5 compiled regexes), 6 dict conditions, 8 single callables '
                  '(incl. always/never, two-column, truthy non-bool result), %s two-column conjunctions (keyword, dict+keyword, dict). Per case: inc rows, exc rows, order, '
                  'partition, columns kept, idempotence, self unchanged, find_x/find_y/find_i, one_or_none plain and with exc=/find=. Non-trivial when the table has rows; '
                  'distinct by (x, y, condition). One NaN object per table (np.nan-like); the NaN condition is a different object.'
                  % (full_rows, ' plus %d seeded 4-row tables' % n_sampled if n_sampled else '', '12 sampled of 63' if quick else 'all 63'),
                  exhaustive=False, scope='x column: all lists of <= %d cells over 6 values; y sampled; condition catalogue of 97 (quick: 46 per table)' % full_rows)
    tables = []
    for n in range(full_rows + 1):
        for xs in itertools.product(U, repeat=n):
            tables.append(list(xs))
    for _ in range(n_sampled):
        tables.append([rng.choice(U) for _ in range(4)])
    for xs in tables:
        ys = [rng.choice(U) for _ in xs]
        base = dict(x=xs, y=ys)
        for f in eval_identity(base):
            c.check(False, f[0], f[1] + ' | x=%r y=%r' % (xs, ys), dict(base, cond=None))
        c.case((tuple(xs), tuple(ys), 'identity'), nontrivial=len(xs) > 0)
        for cond in conditions(rng, sample=12 if quick else None):
            case = dict(base, cond=cond, exc_y=rng.choice([None, 1, 'nan', 'a', [1, 'a'], 'zz']))
            try:
                fails = eval_case(case)
            except Exception as e:      # noqa
                fails = [('C06:harness', 'evaluation crashed %s: %s' % (type(e).__name__, e))]
            c.case((tuple(xs), tuple(ys), repr(cond)), nontrivial=len(xs) > 0, sample=case)
            for key, what in fails:
                c.check(False, key, '%s | x=%r y=%r cond=%r exc_y=%r' % (what, xs, ys, cond, case['exc_y']), case)
    return c.result()


def replay(call):
    if call.get('cond') is None:
        fails = eval_identity(call)
    else:
        fails = eval_case(call)
    return dict(fails=bool(fails), detail='; '.join('%s: %s' % f for f in fails)[:800] if fails else 'all clauses hold on the real code for this input')
