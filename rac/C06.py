"""C06 bounded stand-in: dictable.inc / exc / find_<col> / one_or_none on the real code against a row-by-row oracle.

Oracle (from the property statement): a row satisfies a column condition when the cell `is None` (condition None), is a NaN
(condition NaN), is a string the compiled regex finds a match in (condition regex), equals one of the listed values (condition
list) or equals the value; a conjunction needs every column condition; a callable is called with the named columns and its
result taken as a truth value.  inc = the satisfying rows in original order, exc = the others in original order.

Special float cells (+inf, -inf as python floats and numpy float64 NaN / inf objects, -0.0): the statement says a condition may be
"NaN" and does not say whether an infinite cell counts as one (the library's is_nan says it does).  The oracle takes no stand:
for a NaN condition an infinite cell is *unspecified*, for an infinite condition every NaN / infinite cell other than an equal
one is unspecified; inc must keep every satisfying row, no failing row, any of the unspecified ones, in table order, exc
likewise with the roles swapped - and the clauses that do not depend on the reading are asserted as they stand: every row in
exactly one of inc and exc, original order, columns kept, idempotence; find_ / one_or_none are then read against the rows inc
actually selected (the statement defines them through inc)."""
import itertools, math, random, re
from rac.common import Collector

U = [None, 1, 2.0, 'nan', 'a', 'ab']         # cell tokens; 'nan' -> one float('nan') object per table (as np.nan would be)
SPECIAL_CELLS = ['inf', '-inf', 'npnan', 'npinf', 'neg0']      # float +-inf, one numpy.float64 NaN per table, numpy.float64 inf, -0.0
U2 = U + SPECIAL_CELLS
NAN_TOKS, INF_TOKS = ('nan', 'npnan'), ('inf', '-inf', 'npinf')
# conditions for the tables holding special float cells (x column)
SPECIAL_CONDS = [None, 0, 1, 2.0, 'nan', 'npnan', 'inf', '-inf', 'npinf', 'a', 'zz',
                 [1, 'a'], ['inf', 1], [None, 2, 'neg0'], [], {'re': 'a'}]

# condition tokens for one column
VALUE_CONDS = [None, 1, 1.0, 2, 2.0, 3, 'nan', 'a', 'ab', 'zz',
               [1, 'a'], [None, 2], [], ['ab'], [None, 1, 2, 'a', 'ab'],
               {'re': 'a'}, {'re': 'b$'}, {'re': '^a$'}, {'re': 'z'}, {'re': ''}]

FUNCS = {
    'x_is_none': (lambda x: x is None),
    'x_is_str': (lambda x: isinstance(x, str)),
    'always': (lambda x: True),
    'never': (lambda x: False),
    'x_eq_y': (lambda x, y: x == y),
    'i_even': (lambda i: i % 2 == 0),
    'x_truthy': (lambda x: x),
    'no_args_true': (lambda: True),
}
FUNC_ARGS = {'x_is_none': ['x'], 'x_is_str': ['x'], 'always': ['x'], 'never': ['x'], 'x_eq_y': ['x', 'y'], 'i_even': ['i'], 'x_truthy': ['x'], 'no_args_true': []}


def is_nan(v):
    return isinstance(v, float) and math.isnan(v)       # numpy.float64 is a float


def is_inf(v):
    return isinstance(v, float) and math.isinf(v)


def canon(v):
    if is_nan(v):
        return ('<NaN>',)
    if isinstance(v, (list, tuple)):
        return tuple(canon(i) for i in v)
    return v


def same(a, b):
    """cell equality: ==, and NaN equals NaN"""
    return canon(a) == canon(b)


def rows_equal(got, exp, cols):
    return len(got) == len(exp) and all(set(g.keys()) == set(cols) and all(same(g[c], e[c]) for c in cols) for g, e in zip(got, exp))


def dec_cell(tok, nan):
    """nan: the table's NaN objects - a float (old callers) or a dict token -> object"""
    if isinstance(tok, str) and tok in NAN_TOKS + INF_TOKS + ('neg0',):
        if tok in NAN_TOKS:
            return nan[tok] if isinstance(nan, dict) else nan
        return dec_special(tok)
    return tok


def dec_special(tok):
    import numpy as np
    return {'nan': float('nan'), 'npnan': np.float64('nan'), 'inf': float('inf'), '-inf': float('-inf'), 'npinf': np.float64('inf'), 'neg0': -0.0}[tok]


def table_nans():
    return {'nan': dec_special('nan'), 'npnan': dec_special('npnan')}


def dec_cond(tok):
    if isinstance(tok, dict):
        return re.compile(tok['re'])
    if isinstance(tok, list):
        return [dec_cond(t) for t in tok]
    if isinstance(tok, str) and tok in NAN_TOKS + INF_TOKS + ('neg0',):
        return dec_special(tok)    # a NaN object of its own: the condition is 'is a NaN', not 'is this object'
    return tok


def sat_cell(cell, tok):
    """True / False, or None where the statement does not say (an infinite cell under a NaN condition and the like)"""
    if isinstance(tok, dict):
        return isinstance(cell, str) and re.search(tok['re'], cell) is not None
    if isinstance(tok, list):
        return any(cell is v or bool(cell == v) for v in dec_cond(tok))       # no NaN inside the lists of the catalogue
    if tok is None:
        return cell is None
    if isinstance(tok, str) and tok in NAN_TOKS:
        return True if is_nan(cell) else None if is_inf(cell) else False
    if isinstance(tok, str) and tok in INF_TOKS:
        return True if bool(cell == dec_special(tok)) else None if (is_nan(cell) or is_inf(cell)) else False
    return bool(cell == dec_cond(tok))


def sat_row(row, cond):
    """cond = dict(kw={col: tok}, dict={col: tok}, fn=name): conjunction of the column conditions, or the single callable.
    Three-valued: False as soon as one column condition fails, else None if one is unspecified, else True"""
    if cond.get('fn'):
        return bool(FUNCS[cond['fn']](*[row[a] for a in FUNC_ARGS[cond['fn']]]))
    conds = dict(cond.get('dict') or {})
    conds.update(cond.get('kw') or {})
    res = [sat_cell(row[c], t) for c, t in conds.items()]
    return False if any(r is False for r in res) else None if any(r is None for r in res) else True


def cond_kind(cond):
    return 'callable' if cond.get('fn') else 'dict' if cond.get('dict') else 'keyword' if cond.get('kw') else 'none'


def call_args(cond):
    args, kwargs = [], {}
    if cond.get('fn'):
        args.append(FUNCS[cond['fn']])
    if cond.get('dict'):
        args.append({k: dec_cond(v) for k, v in cond['dict'].items()})
    for k, v in (cond.get('kw') or {}).items():
        kwargs[k] = dec_cond(v)
    return args, kwargs


def table_rows(t):
    cols = list(t.keys())
    vals = [t[c] for c in cols]
    n = len(vals[0]) if vals else 0
    rect = all(isinstance(v, list) and len(v) == n for v in vals)
    return cols, [dict(zip(cols, r)) for r in zip(*vals)], rect


def distinct(values):
    out = []
    for v in values:
        if not any(same(v, w) for w in out):
            out.append(v)
    return out


def eval_case(case):
    """all clauses for one (table, condition); returns [(key, what)]"""
    from pyg_base import dictable
    fails = []
    nan = table_nans()
    cols = ['x', 'y', 'i']
    n = len(case['x'])
    data = dict(x=[dec_cell(t, nan) for t in case['x']], y=[dec_cell(t, nan) for t in case['y']], i=list(range(n)))
    d = dictable(data)
    rows = [dict(zip(cols, r)) for r in zip(*[data[c] for c in cols])]
    cond = case['cond']
    kind = ':' + cond_kind(cond)
    snap = [(k, list(v)) for k, v in dict(d).items()]
    verdict = [sat_row(r, cond) for r in rows]
    exp_inc = [r for r, v in zip(rows, verdict) if v is True]
    exp_exc = [r for r, v in zip(rows, verdict) if v is False]
    unspecified = any(v is None for v in verdict)        # rows the statement leaves open: they may be on either side

    def rows_ok(got_rows, must, must_not):
        """got_rows: a subsequence of the table's rows (by row id, ascending) holding every row of `must` and none of `must_not`"""
        ids = [g.get('i') for g in got_rows]
        if any(not isinstance(i, int) or not 0 <= i < n for i in ids) or ids != sorted(set(ids)):
            return False
        if not rows_equal(got_rows, [rows[i] for i in ids], cols):
            return False
        return all(r['i'] in ids for r in must) and not any(r['i'] in ids for r in must_not)

    def unchanged():
        now = dict(d)
        return list(now) == [k for k, _ in snap] and all(len(now[k]) == len(v) and all(a is b for a, b in zip(now[k], v)) for k, v in snap)

    def fail(key, what):
        fails.append((key, what))

    got = {}
    for name, exp in (('inc', exp_inc), ('exc', exp_exc)):
        a, kw = call_args(cond)
        before = [list(x.items()) if type(x) is dict else None for x in a]      # condition objects the caller hands in are operands too
        try:
            r = getattr(d, name)(*a, **kw)
        except Exception as e:      # noqa
            fail('C06:%s:raises%s' % (name, kind), '%s raised %s: %s' % (name, type(e).__name__, e))
            continue
        for x, b in zip(a, before):
            if b is not None and not (len(x) == len(b) and all(k1 == k0 and v1 is v0 for (k1, v1), (k0, v0) in zip(x.items(), b))):
                fail('C06:%s:condition-unchanged%s' % (name, kind), '%s altered the condition dict handed in: %r became %r' % (name, dict(b), x))
        rc, rr, rect = table_rows(r)
        got[name] = r
        if not isinstance(r, dictable) or not rect:
            fail('C06:%s:rectangular%s' % (name, kind), '%s returned %r' % (name, dict(r)))
            continue
        if set(rc) != set(cols):
            fail('C06:%s:columns%s' % (name, kind), '%s result has columns %r (rows %d), table has %r' % (name, rc, len(rr), cols))
            continue
        if not (rows_ok(rr, exp, exp_exc if name == 'inc' else exp_inc) if unspecified else rows_equal(rr, exp, cols)):
            fail('C06:%s:rows%s' % (name, kind), '%s returned rows %r, expected %r' % (name, [x['i'] for x in rr], [x['i'] for x in exp]))
    if 'inc' in got and 'exc' in got and 'i' in got['inc'].keys() and 'i' in got['exc'].keys():
        gi, ge = list(got['inc']['i']), list(got['exc']['i'])
        if not (sorted(gi + ge) == list(range(n)) and gi == sorted(gi) and ge == sorted(ge)):
            fail('C06:partition%s' % kind, 'inc keeps rows %r and exc keeps rows %r of %d' % (gi, ge, n))
    if not unchanged():
        fail('C06:self-unchanged', 'inc/exc altered the table')
    # idempotence (relational)
    if 'inc' in got:
        a, kw = call_args(cond)
        try:
            twice = got['inc'].inc(*a, **kw)
            c1, r1, _ = table_rows(got['inc'])
            c2, r2, _ = table_rows(twice)
            if set(c1) != set(c2) or not rows_equal(r2, r1, c1):
                fail('C06:inc:idempotent%s' % kind, 'inc(inc(d)) has rows %r, inc(d) has %r' % ([x.get('i') for x in r2], [x.get('i') for x in r1]))
        except Exception as e:      # noqa
            fail('C06:inc:idempotent%s' % kind, 'second inc raised %s: %s' % (type(e).__name__, e))
    # find_<col>
    selected = exp_inc
    if unspecified:                          # the statement defines find_ / one_or_none through the rows inc selects
        ok_ids = 'inc' in got and 'i' in got['inc'].keys() and all(isinstance(i, int) and 0 <= i < n for i in got['inc']['i'])
        selected = [rows[i] for i in got['inc']['i']] if ok_ids else None
    for col in cols:
        if selected is None:
            break
        vals = distinct([r[col] for r in selected])
        nans = [r[col] for r in selected if is_nan(r[col])]
        two_nans = any(a is not b for a in nans for b in nans)     # two NaN objects: one value or two? the statement does not say
        a, kw = call_args(cond)
        try:
            v = getattr(d, 'find_' + col)(*a, **kw)
            outcome = ('value', v)
        except ValueError as e:
            outcome = ('ValueError', str(e))
        except Exception as e:      # noqa
            outcome = ('other', '%s: %s' % (type(e).__name__, e))
        if len(vals) == 1:
            ok = (outcome[0] == 'value' and same(outcome[1], vals[0])) or (two_nans and outcome[0] == 'ValueError')
        else:
            ok = outcome[0] == 'ValueError'
        if not ok:
            fail('C06:find%s' % kind, 'find_%s gave %r; the selected rows hold %d distinct value(s) %r' % (col, outcome, len(vals), vals[:3]))
    # one_or_none, plain and with exc= / find=
    for extra in (None, dict(exc={'y': case.get('exc_y')}, find='i')):
        a, kw = call_args(cond)
        sel = selected
        if sel is None:
            break
        if extra:
            if cond.get('fn'):
                continue
            drop = [sat_cell(r['y'], extra['exc']['y']) for r in sel]
            if any(v is None for v in drop):
                continue                     # the exc= condition is unspecified on a selected row
            sel = [r for r, v in zip(sel, drop) if not v]
            kw = dict(kw, exc={'y': dec_cond(extra['exc']['y'])}, find='i')
        try:
            v = d.one_or_none(*a, **kw)
            outcome = ('value', v)
        except ValueError as e:
            outcome = ('ValueError', str(e))
        except Exception as e:      # noqa
            outcome = ('other', '%s: %s' % (type(e).__name__, e))
        if len(sel) > 1:
            ok = outcome[0] == 'ValueError'
        elif len(sel) == 0:
            ok = outcome == ('value', None)
        elif extra:
            ok = outcome[0] == 'value' and outcome[1] == sel[0]['i'] and outcome[1] is not None
        else:
            ok = outcome[0] == 'value' and isinstance(outcome[1], dict) and rows_equal([dict(outcome[1])], sel, cols)
        if not ok:
            fail('C06:one_or_none%s' % kind, 'one_or_none%s gave %r; %d row(s) selected %r' % (' with exc/find' if extra else '', outcome, len(sel), [r['i'] for r in sel]))
    if not unchanged():
        fail('C06:self-unchanged', 'find_/one_or_none altered the table')
    return fails


def eval_identity(case):
    """inc() / exc() with no condition are the identity"""
    from pyg_base import dictable
    nan = table_nans()
    cols = ['x', 'y', 'i']
    n = len(case['x'])
    data = dict(x=[dec_cell(t, nan) for t in case['x']], y=[dec_cell(t, nan) for t in case['y']], i=list(range(n)))
    d = dictable(data)
    rows = [dict(zip(cols, r)) for r in zip(*[data[c] for c in cols])]
    fails = []
    for name in ('inc', 'exc'):
        r = getattr(d, name)()
        rc, rr, rect = table_rows(r)
        if not rect or set(rc) != set(cols) or not rows_equal(rr, rows, cols):
            fails.append(('C06:%s:identity' % name, '%s() returned %r' % (name, dict(r))))
    return fails


# ---------------------------------------------------------------- enumeration
def conditions(rng, sample=None):
    """all condition descriptors; with `sample` a seeded subset of the two-column ones"""
    out = [dict(kw={'x': t}) for t in VALUE_CONDS]
    out += [dict(dict={'x': t}) for t in (None, 1, 'nan', [1, 'a'], {'re': 'a'}, 'zz')]
    out += [dict(fn=f) for f in FUNCS]
    pairs = [dict(kw={'x': a, 'y': b}) for a in (None, 1, 2, 'nan', [1, 'a', None], {'re': 'a'}) for b in (None, 1, 'nan', 'a', [None, 2, 'ab'], {'re': 'b'}, 'zz')]
    pairs += [dict(dict={'x': a}, kw={'y': b}) for a in (None, 1, [2, 'ab']) for b in (None, 1, 'nan', [1, 'a'])]
    pairs += [dict(dict={'x': a, 'y': b}) for a in (1, 'nan', {'re': ''}) for b in (None, 'a', [1, 2])]
    if sample is not None:
        pairs = rng.sample(pairs, sample)
    return out + pairs


def special_conditions(rng, n_pairs):
    """the condition catalogue for tables holding special float cells: every keyword condition of SPECIAL_CONDS on x, dict
    conditions, callables, and a seeded sample of two-column conjunctions whose y condition may be NaN / inf as well"""
    out = [dict(kw={'x': t}) for t in SPECIAL_CONDS]
    out += [dict(dict={'x': t}) for t in ('nan', 'inf', 1)]
    out += [dict(fn=f) for f in ('x_is_none', 'always', 'never', 'x_eq_y', 'x_truthy')]
    pairs = [dict(kw={'x': a, 'y': b}) for a in ('nan', 'inf', '-inf', None, [1, 'inf', None]) for b in ('nan', 'npinf', None, 1, ['inf', 'a'])]
    pairs += [dict(dict={'x': a}, kw={'y': b}) for a in ('nan', 'inf') for b in ('nan', '-inf', 'a')]
    return out + rng.sample(pairs, n_pairs)


def special_tables(rng, n_random):
    """every list of <= 2 cells over U2 holding at least one special float cell, and seeded 3-4 row tables holding at least one"""
    out = [[a] for a in SPECIAL_CELLS] + [[a, b] for a in U2 for b in U2 if a in SPECIAL_CELLS or b in SPECIAL_CELLS]
    for _ in range(n_random):
        xs = [rng.choice(U2) for _ in range(rng.choice([3, 4]))]
        xs[rng.randrange(len(xs))] = rng.choice(SPECIAL_CELLS)
        out.append(xs)
    return out


def run(tier, seed):
    rng = random.Random(seed)
    quick = tier == 'quick'
    full_rows = 3 if quick else 4
    n_sampled = 100 if quick else 0
    c = Collector('C06', rule='tables with columns x, y, i (i = row number) whose x column runs through EVERY list of <= %d cells over {None, 1, 2.0, nan, "a", "ab"} '
                  '(y cells seeded random from the same set)%s; each table x every condition of the catalogue: 20 keyword conditions on x (values incl. int/float '
                  'spellings 1/1.0, 2/2.0, None, NaN, a value matching nothing, 5 lists incl. [] and [None, 2], 5 compiled regexes), 6 dict conditions, 8 single callables '
                  '(incl. always/never, two-column, truthy non-bool result), %s two-column conjunctions (keyword, dict+keyword, dict). Per case: inc rows, exc rows, order, '
                  'partition, columns kept, idempotence, self unchanged, find_x/find_y/find_i, one_or_none plain and with exc=/find=. Non-trivial when the table has rows; '
                  'distinct by (x, y, condition). One NaN object per table (np.nan-like); the NaN condition is a different object. '
                  'Special float cells {+inf, -inf, numpy.float64 NaN, numpy.float64 inf, -0.0}: every x column of <= 2 cells over the 11 values holding at least one of them '
                  'plus %d seeded 3-4 row ones (y cells from the 11 values), each x 16 keyword conditions incl. NaN / numpy NaN / +inf / -inf / numpy inf / [inf, 1], '
                  '3 dict conditions, 5 callables, %s two-column conjunctions; one condition on a special float for every ordinary table. Where the statement does not say '
                  'whether an infinite cell is a NaN the row may be on either side; partition, order, columns, idempotence are asserted regardless.'
                  % (full_rows, ' plus %d seeded 4-row tables' % n_sampled if n_sampled else '', '12 sampled of 63' if quick else 'all 63',
                     40 if quick else 1000, '5 sampled of 31' if quick else 'all 31'),
                  exhaustive=False, scope='x column: all lists of <= %d cells over 6 values; y sampled; condition catalogue of 97 (quick: 46 per table)' % full_rows)
    tables = []
    for n in range(full_rows + 1):
        for xs in itertools.product(U, repeat=n):
            tables.append(list(xs))
    for _ in range(n_sampled):
        tables.append([rng.choice(U) for _ in range(4)])
    for xs in tables:
        ys = [rng.choice(U) for _ in xs]
        base = dict(x=xs, y=ys)
        for f in eval_identity(base):
            c.check(False, f[0], f[1] + ' | x=%r y=%r' % (xs, ys), dict(base, cond=None))
        c.case((tuple(xs), tuple(ys), 'identity'), nontrivial=len(xs) > 0)
        for cond in conditions(rng, sample=12 if quick else None):
            case = dict(base, cond=cond, exc_y=rng.choice([None, 1, 'nan', 'a', [1, 'a'], 'zz']))
            try:
                fails = eval_case(case)
            except Exception as e:      # noqa
                fails = [('C06:harness', 'evaluation crashed %s: %s' % (type(e).__name__, e))]
            c.case((tuple(xs), tuple(ys), repr(cond)), nontrivial=len(xs) > 0, sample=case)
            for key, what in fails:
                c.check(False, key, '%s | x=%r y=%r cond=%r exc_y=%r' % (what, xs, ys, cond, case['exc_y']), case)
    # special float cells (drawn after every older draw: the older cases are unchanged for a given seed)
    for xs in special_tables(rng, 40 if quick else 1000):
        ys = [rng.choice(U2) for _ in xs]
        base = dict(x=xs, y=ys)
        for f in eval_identity(base):
            c.check(False, f[0], f[1] + ' | x=%r y=%r' % (xs, ys), dict(base, cond=None))
        c.case((tuple(xs), tuple(ys), 'identity'), nontrivial=True)
        for cond in special_conditions(rng, 5 if quick else 31):
            case = dict(base, cond=cond, exc_y=rng.choice([None, 1, 'nan', 'inf', 'a', [1, 'a'], 'zz']))
            try:
                fails = eval_case(case)
            except Exception as e:      # noqa
                fails = [('C06:harness', 'evaluation crashed %s: %s' % (type(e).__name__, e))]
            c.case((tuple(xs), tuple(ys), repr(cond)), nontrivial=True, sample=case)
            for key, what in fails:
                c.check(False, key, '%s | x=%r y=%r cond=%r exc_y=%r' % (what, xs, ys, cond, case['exc_y']), case)
    # and one condition on a special float value for each of the ordinary tables (NaN cells under an infinite condition)
    for xs in tables:
        if not xs:
            continue
        ys = [rng.choice(U) for _ in xs]
        cond = rng.choice([dict(kw={'x': 'inf'}), dict(kw={'x': 'npnan'}), dict(dict={'x': '-inf'}), dict(kw={'x': ['inf', 1]}), dict(kw={'x': 'nan', 'y': 'npinf'})])
        case = dict(x=xs, y=ys, cond=cond, exc_y=rng.choice([None, 'nan', 'inf', 'a']))
        try:
            fails = eval_case(case)
        except Exception as e:      # noqa
            fails = [('C06:harness', 'evaluation crashed %s: %s' % (type(e).__name__, e))]
        c.case((tuple(xs), tuple(ys), repr(cond)), nontrivial=True, sample=case)
        for key, what in fails:
            c.check(False, key, '%s | x=%r y=%r cond=%r exc_y=%r' % (what, xs, ys, cond, case['exc_y']), case)
    return c.result()


def replay(call):
    if call.get('cond') is None:
        fails = eval_identity(call)
    else:
        fails = eval_case(call)
    return dict(fails=bool(fails), detail='; '.join('%s: %s' % f for f in fails)[:800] if fails else 'all clauses hold on the real code for this input')
