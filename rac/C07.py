"""C07 bounded stand-in: the laws of cmp over a fixed mixed-type universe (all pairs, all triples), sort() over all short lists of
scalars / equal-length tuples, dictable.sort over small tables.  'Non-decreasing under cmp' is relational, so the real cmp is the
order relation used to judge sort / dictable.sort; its own laws are checked separately over the whole universe."""
import datetime, random, itertools, math
from rac.common import Collector

D = datetime.datetime

K_D2 = 'C07:sort:nondecreasing:nan'                    # known defect D2: native sorted() silently mis-orders NaN
K_D2_TABLE = 'C07:dictable.sort:ordered:nan'           # the same defect seen through dictable.sort (key column holds NaN, keys natively comparable)


# ----------------------------------------------------------------------------------------------------------------- universe
def universe():
    """name -> value; fresh objects on every call, names are stable and are what replay files carry"""
    import numpy as np
    nan = float('nan')
    u = {
        'None': None, 'True': True, 'False': False,
        'i0': 0, 'i1': 1, 'i2': 2, 'i-3': -3, 'ibig': 2 ** 40,
        'f0.0': 0.0, 'f1.0': 1.0, 'f2.5': 2.5, 'f-1.5': -1.5,
        'nan_a': float('nan'), 'nan_b': float('nan'), 'np_nan': np.float64('nan'),
        'inf': float('inf'), '-inf': float('-inf'),
        's_': '', 's_a': 'a', 's_b': 'b', 's_x': 'x', 's_aa': 'aa', 's_10': '10', 's_9': '9',      # strings of different lengths: 'b' > 'aa', '9' > '10'
        'dt1': D(2020, 1, 1), 'dt2': D(2021, 6, 1, 12, 30), 'date1': datetime.date(2020, 1, 1),
        'np_i1': np.int64(1), 'np_f2.5': np.float64(2.5), 'np_dt2': np.datetime64('2021-06-01T12:30'), 'np_true': np.bool_(True),
        't_empty': (), 'l_empty': [], 'd_empty_a': {}, 'd_empty_b': {},
        't_1': (1,), 'l_1': [1], 'l_True': [True], 'l_0.5': [0.5], 'l_0': [0], 'l_False': [False], 't_1_2': (1, 2), 't_1_2f': (1, 2.0), 't_1_a': (1, 'a'), 't_None_1': (None, 1), 'l_None': [None],       # [1] == [True] natively, yet bool and number rank by type
        't_nan_1': (nan, 1), 't_1_nan': (1, float('nan')),
        'd_a1': {'a': 1}, 'd_a1_copy': {'a': 1}, 'd_a2': {'a': 2}, 'd_b1': {'b': 1}, 'd_a_t12': {'a': (1, 2)},
        'd_a1b2': {'a': 1, 'b': 2}, 'd_b2a1': {'b': 2, 'a': 1},
        't_nested': ((1, 2), 'a'), 'l_nested': [[1], [2]], 't_l_empty': ([],), 'd_nested': {'a': {'b': None}},
        'l_d_empty_a': [{}], 'l_d_empty_b': [{}],
        'd_mixedkeys_a': {1: 1, 'a': 2}, 'd_mixedkeys_b': {1: 1, 'a': 2},
    }
    return u


FINITE = ['i0', 'i1', 'i2', 'i-3', 'ibig', 'f0.0', 'f1.0', 'f2.5', 'f-1.5', 'np_i1', 'np_f2.5']
NANS = ['nan_a', 'nan_b', 'np_nan']
NUM_EQUAL = [('i1', 'f1.0'), ('i1', 'np_i1'), ('f1.0', 'np_i1'), ('i0', 'f0.0'), ('f2.5', 'np_f2.5'), ('t_1_2', 't_1_2f')]
SAME_VALUE = [('d_a1', 'd_a1_copy'), ('d_a1b2', 'd_b2a1'), ('dt2', 'np_dt2'), ('True', 'np_true'), ('d_empty_a', 'd_empty_b'),
              ('l_d_empty_a', 'l_d_empty_b'), ('d_mixedkeys_a', 'd_mixedkeys_b')]          # == holds natively for each pair
NATIVE = [FINITE, ['s_', 's_a', 's_b', 's_x', 's_aa', 's_10', 's_9'], ['dt1', 'dt2']]


def has_empty_dict(v):
    if isinstance(v, dict):
        return len(v) == 0 or any(has_empty_dict(x) for x in v.values())
    if isinstance(v, (list, tuple)):
        return any(has_empty_dict(x) for x in v)
    return False


def has_mixed_key_dict(v):
    if isinstance(v, dict):
        try:
            sorted(v.keys())
        except TypeError:
            return True
        return any(has_mixed_key_dict(x) for x in v.values())
    if isinstance(v, (list, tuple)):
        return any(has_mixed_key_dict(x) for x in v)
    return False


def raise_class(x, y):
    """input class of a pair for the never-raises clause"""
    if x is not y and has_empty_dict(x) and has_empty_dict(y):
        return ':empty-dict'                    # two distinct objects that both hold an empty dict
    if x is not y and (has_mixed_key_dict(x) or has_mixed_key_dict(y)):
        return ':mixed-key-dict'                # a dict whose keys are not mutually comparable natively, e.g. {1: 1, 'a': 2}
    return ''


def has_nan(v):
    if isinstance(v, float):
        return math.isnan(v)
    if isinstance(v, (list, tuple)):
        return any(has_nan(x) for x in v)
    return False


def natively_sortable(xs):
    try:
        sorted(xs)
        return True
    except TypeError:
        return False


def sgn(a, b):
    return -1 if a < b else 1 if a > b else 0


# ----------------------------------------------------------------------------------------------------------------- cmp laws
def cmp_matrix(c, u, names, report=True):
    """m[(a,b)] = cmp(u[a], u[b]) or None if it raised; range / never-raises are checked here"""
    from pyg_base import cmp
    m = {}
    for a in names:
        for b in names:
            call = dict(kind='cmp', x=a, y=b)
            try:
                r = cmp(u[a], u[b])
            except Exception as e:      # noqa
                m[(a, b)] = None
                if report:
                    c.check(False, 'C07:cmp:never-raises' + raise_class(u[a], u[b]), 'cmp(%r, %r) raised %r' % (u[a], u[b], e), call)
                continue
            m[(a, b)] = r
            if report:
                c.check(type(r) is not bool and r in (-1, 0, 1), 'C07:cmp:range', 'cmp(%r, %r) = %r' % (u[a], u[b], r), call)
    return m


def check_cmp_laws(c, u, names, m, triples=True):
    for a in names:
        for b in names:
            x, y = m[(a, b)], m[(b, a)]
            c.case(('cmp', a, b), nontrivial=a != b, sample=dict(x=a, y=b, cmp=x) if (a, b) in (('None', 'i1'), ('nan_a', 'nan_b'), ('i1', 'f1.0'), ('t_1_a', 't_1_2')) else None)
            if x is None or y is None:
                continue
            c.check(x == -y, 'C07:cmp:antisymmetry', 'cmp(%r, %r) = %r but cmp(%r, %r) = %r' % (u[a], u[b], x, u[b], u[a], y), dict(kind='cmp', x=a, y=b))
    for a, b in NUM_EQUAL:
        c.check(m[(a, b)] == 0 and m[(b, a)] == 0, 'C07:cmp:int-equals-float', 'cmp(%r, %r) = %r' % (u[a], u[b], m[(a, b)]), dict(kind='cmp', x=a, y=b))
    for a, b in SAME_VALUE:
        if m[(a, b)] is not None:
            c.check(m[(a, b)] == 0, 'C07:cmp:equal-values-zero', 'cmp(%r, %r) = %r' % (u[a], u[b], m[(a, b)]), dict(kind='cmp', x=a, y=b))
    for a in NANS:
        for b in FINITE:
            c.check(m[(a, b)] == 1 and m[(b, a)] == -1, 'C07:cmp:nan-above-finite', 'cmp(%r, %r) = %r' % (u[a], u[b], m[(a, b)]), dict(kind='cmp', x=a, y=b))
    for grp in NATIVE:
        for a in grp:
            for b in grp:
                c.check(m[(a, b)] == sgn(u[a], u[b]), 'C07:cmp:native-order', 'cmp(%r, %r) = %r but natively %r' % (u[a], u[b], m[(a, b)], sgn(u[a], u[b])), dict(kind='cmp', x=a, y=b))
    if triples:
        for a in names:
            for b in names:
                ab = m[(a, b)]
                if ab is None or ab > 0:
                    continue
                for z in names:
                    bz, az = m[(b, z)], m[(a, z)]
                    if bz is None or az is None or bz > 0:
                        continue
                    ok = az <= 0 and (az < 0 or (ab == 0 and bz == 0))
                    c.check(ok, 'C07:cmp:transitivity', 'cmp(%r,%r)=%d, cmp(%r,%r)=%d but cmp(%r,%r)=%d' % (u[a], u[b], ab, u[b], u[z], bz, u[a], u[z], az),
                            dict(kind='cmp3', x=a, y=b, z=z))


# ----------------------------------------------------------------------------------------------------------------- the same rules at depth
WRAPPERS = {'tuple': lambda v: (v,), 'list': lambda v: [v], 'pair': lambda v: ('k', v), 'dict': lambda v: {'k': v}, 'dict-in-list': lambda v: [{'k': v}],
            'list-in-dict': lambda v: {'k': [v]}, 'dict-in-dict': lambda v: {'k': {'j': v}}, 'tuple-in-dict': lambda v: {'k': (0, v)}}


def check_wrapped(c, only=None):
    """"tuples / lists / dicts of these": the scalar rules (numerically equal ints and floats compare 0, equal values compare 0, NaN above every
    finite number, native order inside numbers / strings / datetimes) hold for the one differing slot of two containers of the same shape,
    whatever the container and however deep the slot"""
    from pyg_base import cmp
    u = universe()
    jobs = [(a, b, 0, 'zero') for a, b in NUM_EQUAL + SAME_VALUE if not isinstance(u[a], (dict, list, tuple))]
    jobs += [('date1', 'dt1', 0, 'zero')]
    jobs += [(a, b, 1, 'nan') for a in NANS for b in FINITE]
    jobs += [(a, b, sgn(u[a], u[b]), 'native') for grp in NATIVE for a in grp for b in grp]
    for wname, w in WRAPPERS.items():
        for a, b, want, what in jobs:
            if only is not None and (wname, a, b) != only:
                continue
            for x, y, sign in ((a, b, 1), (b, a, -1)):
                call = dict(kind='cmp_wrapped', w=wname, x=a, y=b)
                c.case(('cmp_wrapped', wname, x, y), nontrivial=True, sample=dict(call, want=want) if (wname, a, b) == ('dict', 'i1', 'np_i1') else None)
                try:
                    r = cmp(w(u[x]), w(u[y]))
                except Exception as e:      # noqa
                    c.check(False, 'C07:cmp:never-raises:at-depth', 'cmp(%r, %r) raised %r' % (w(u[x]), w(u[y]), e), call)
                    continue
                c.check(r == sign * want, 'C07:cmp:at-depth:%s:%s' % (what, 'in-dict' if 'dict' in wname else 'in-sequence'),
                        'cmp(%r, %r) = %r, but the slots compare %r' % (w(u[x]), w(u[y]), r, sign * want), call)


# ----------------------------------------------------------------------------------------------------------------- dicts: insertion order
def dict_order_universe():
    """name -> value: for every key set (two string keys, three string keys, mixed-type keys) every assignment of values from a small pool
    ("crossing" values included: {'a':1,'b':2} against {'b':1,'a':2}) in EVERY insertion order, the same inside tuples / lists / dict values,
    plus a few neighbours (other key sets, shorter / longer dicts, scalars).  A dict is the same value whatever order its keys were inserted
    in, so cmp must not see the order.  Names ending in '~<perm>' are the non-canonical insertion orders of the dict named before the '~'."""
    u = {}

    def add_all(tag, keys, pools):
        for vals in itertools.product(*pools):
            base = '%s[%s]' % (tag, ','.join(str(v) for v in vals))
            for perm in itertools.permutations(range(len(keys))):
                name = base if perm == tuple(range(len(keys))) else base + '~' + ''.join(str(i) for i in perm)
                u[name] = {keys[i]: vals[i] for i in perm}
    add_all('d_ab', ['a', 'b'], [(1, 2, 'x'), (1, 2, 'x')])
    add_all('d_abc', ['a', 'b', 'c'], [(1, 2), (1, 2), (1, 2)])
    add_all('d_1a', [1, 'a'], [(1, 2), (1, 2)])
    # the same one level down: in a tuple, in a list, as a dict value, next to another element
    for inner in ('d_ab[1,2]', 'd_ab[2,1]', 'd_ab[1,2]~10', 'd_ab[2,1]~10'):
        u['t(%s)' % inner] = (dict(u[inner]),)
        u['l(0,%s)' % inner] = [0, dict(u[inner])]
        u['d_k(%s)' % inner] = {'k': dict(u[inner])}
    for inner, other in (('d_ab[1,2]', 'd_ab[2,1]~10'), ('d_ab[1,2]~10', 'd_ab[2,1]'), ('d_ab[2,1]', 'd_ab[1,2]~10')):
        u['d_pq(%s,%s)' % (inner, other)] = {'p': dict(u[inner]), 'q': dict(u[other])}
        u['d_pq(%s,%s)~10' % (inner, other)] = {'q': dict(u[other]), 'p': dict(u[inner])}
    u.update({'None': None, 'i1': 1, 's_a': 'a', 'd_empty': {}, 'd_a1': {'a': 1}, 'd_b1': {'b': 1}, 'd_ac12': {'a': 1, 'c': 2}, 'd_ac12~10': {'c': 2, 'a': 1},
              'd_abd': {'a': 1, 'b': 2, 'd': 1}, 't_1_2': (1, 2)})
    return u


def order_class(names):
    return ':dict-insertion-order' if any('~' in n for n in names) else ''


def check_dict_order(c, u=None, names=None):
    """range / never raises / antisymmetry / transitivity / cmp == 0 for == dicts over dict_order_universe (all pairs, all triples)"""
    from pyg_base import cmp
    u = u or dict_order_universe()
    names = names or list(u)
    m = {}
    for a in names:
        for b in names:
            call = dict(kind='cmp_order', names=[a, b])
            try:
                r = cmp(u[a], u[b])
            except Exception as e:      # noqa
                m[(a, b)] = None
                c.check(False, 'C07:cmp:never-raises' + order_class([a, b]), 'cmp(%r, %r) raised %r' % (u[a], u[b], e), call)
                continue
            m[(a, b)] = r
            c.check(type(r) is not bool and r in (-1, 0, 1), 'C07:cmp:range' + order_class([a, b]), 'cmp(%r, %r) = %r' % (u[a], u[b], r), call)
    for a in names:
        for b in names:
            x, y = m[(a, b)], m[(b, a)]
            c.case(('cmp_order', a, b), nontrivial=a != b, sample=dict(x=a, y=b, cmp=x) if (a, b) == ('d_ab[1,2]', 'd_ab[2,1]~10') else None)
            if x is None or y is None:
                continue
            call = dict(kind='cmp_order', names=[a, b])
            c.check(x == -y, 'C07:cmp:antisymmetry' + order_class([a, b]), 'cmp(%r, %r) = %r but cmp(%r, %r) = %r' % (u[a], u[b], x, u[b], u[a], y), call)
            if u[a] == u[b]:                # ints and strings only in this universe: native == is the equality of values
                c.check(x == 0, 'C07:cmp:equal-values-zero' + order_class([a, b]), 'cmp(%r, %r) = %r for equal values' % (u[a], u[b], x), call)
    for a in names:
        for b in names:
            ab = m[(a, b)]
            if ab is None or ab > 0:
                continue
            for z in names:
                bz, az = m[(b, z)], m[(a, z)]
                if bz is None or az is None or bz > 0:
                    continue
                ok = az <= 0 and (az < 0 or (ab == 0 and bz == 0))
                if not ok:
                    c.check(ok, 'C07:cmp:transitivity' + order_class([a, b, z]), 'cmp(%r,%r)=%d, cmp(%r,%r)=%d but cmp(%r,%r)=%d' % (u[a], u[b], ab, u[b], u[z], bz, u[a], u[z], az),
                            dict(kind='cmp_order', names=[a, b, z]))
    return m


# ----------------------------------------------------------------------------------------------------------------- equal-length sequences
SEQ2_SCALARS = ['None', 'i1', 'f2.5', 'nan_a', 'nan_b', 'inf', '-inf', 's_a']
SEQ2_LIST_SCALARS = ['None', 'i1', 'nan_a', 'nan_b', 'inf']
SEQ3_SCALARS = ['i1', 'nan_a', 'nan_b', 'inf']
SEQ3_LIST_SCALARS = ['i1', 'nan_a', 'nan_b']


def seq_value(u, name):
    """'t:nan_a|i1' -> (nan_a, 1), 'l:nan_a|i1' -> [nan_a, 1]; the scalars are the objects of u, so NaN objects keep their identity across
    the sequences that hold them (nan_a in two tuples is one object, nan_a / nan_b are two)"""
    kind, parts = name.split(':')
    return (tuple if kind == 't' else list)(u[p] for p in parts.split('|'))


def seq_universes():
    """two universes of sequence names, each checked in all pairs and all triples: equal-length tuples and lists of length 2 / of length 3
    over finite numbers, two NaN objects of distinct identity, +-inf, None and a string.  Sequences that tie at one position through
    different objects (nan_a / nan_b, NaN / inf) and differ at a later one are what the element-wise comparison has to get right."""
    two = ['t:%s|%s' % (a, b) for a in SEQ2_SCALARS for b in SEQ2_SCALARS] + ['l:%s|%s' % (a, b) for a in SEQ2_LIST_SCALARS for b in SEQ2_LIST_SCALARS]
    three = ['t:%s|%s|%s' % (a, b, d) for a in SEQ3_SCALARS for b in SEQ3_SCALARS for d in SEQ3_SCALARS]
    three += ['l:%s|%s|%s' % (a, b, d) for a in SEQ3_LIST_SCALARS for b in SEQ3_LIST_SCALARS for d in SEQ3_LIST_SCALARS]
    return [two, three]


def check_seq_laws(c, u, names, count=True):
    """range / never raises / antisymmetry / transitivity of cmp over the sequences `names` (all pairs, all triples)"""
    from pyg_base import cmp
    vals = {n: seq_value(u, n) for n in names}
    m = {}
    for a in names:
        for b in names:
            call = dict(kind='cmp_seq', names=[a, b])
            try:
                r = cmp(vals[a], vals[b])
            except Exception as e:      # noqa
                m[(a, b)] = None
                c.check(False, 'C07:cmp:never-raises', 'cmp(%r, %r) raised %r' % (vals[a], vals[b], e), call)
                continue
            m[(a, b)] = r
            c.check(type(r) is not bool and r in (-1, 0, 1), 'C07:cmp:range', 'cmp(%r, %r) = %r' % (vals[a], vals[b], r), call)
    for a in names:
        for b in names:
            x, y = m[(a, b)], m[(b, a)]
            if count:
                c.case(('cmp_seq', a, b), nontrivial=a != b, sample=dict(x=a, y=b, cmp=x) if (a, b) == ('t:inf|i1', 't:nan_a|f2.5') else None)
            if x is None or y is None:
                continue
            c.check(x == -y, 'C07:cmp:antisymmetry', 'cmp(%r, %r) = %r but cmp(%r, %r) = %r' % (vals[a], vals[b], x, vals[b], vals[a], y), dict(kind='cmp_seq', names=[a, b]))
    for a in names:
        for b in names:
            ab = m[(a, b)]
            if ab is None or ab > 0:
                continue
            for z in names:
                bz = m[(b, z)]
                if bz is None or bz > 0:
                    continue
                az = m[(a, z)]
                if az is None:
                    continue
                if not (az <= 0 and (az < 0 or (ab == 0 and bz == 0))):
                    c.check(False, 'C07:cmp:transitivity', 'cmp(%r,%r)=%d, cmp(%r,%r)=%d but cmp(%r,%r)=%d (x, y, z = %s, %s, %s; NaN objects of different names are '
                            'different objects)' % (vals[a], vals[b], ab, vals[b], vals[z], bz, vals[a], vals[z], az, a, b, z), dict(kind='cmp_seq', names=[a, b, z]))
    return m


# ----------------------------------------------------------------------------------------------------------------- sort
def check_sort(c, vals, m, idx, names, xs_idx, kind):
    """vals: list of objects (the element universe); m: matrix over indices; xs_idx: tuple of indices"""
    from pyg_base import sort
    xs = [vals[i] for i in xs_idx]
    call = dict(kind=kind, xs=[names[i] for i in xs_idx])
    try:
        r = sort(xs)
    except Exception as e:          # noqa
        return c.check(False, 'C07:sort:raises', 'sort(%r) raised %r' % (xs, e), call)
    try:
        ri = [idx[id(v)] for v in r]
    except KeyError:
        return c.check(False, 'C07:sort:permutation', 'sort(%r) = %r contains an object that was not in the input' % (xs, r), call)
    ok = c.check(isinstance(r, list) and sorted(ri) == sorted(xs_idx), 'C07:sort:permutation', 'sort(%r) = %r is not a permutation' % (xs, r), call)
    # non-decreasing: no element is above a later one (every pair, not only neighbours: ties through different NaN objects must not hide an inversion)
    nd = all(m[(ri[i], ri[j])] is not None and m[(ri[i], ri[j])] <= 0 for i in range(len(ri)) for j in range(i + 1, len(ri)))
    if not nd:
        key = K_D2 if has_nan(xs) and natively_sortable(xs) else 'C07:sort:nondecreasing'
        ok = c.check(False, key, 'sort(%r) = %r is not non-decreasing under cmp' % (xs, r), call)
    return ok


SORT_SCALARS = ['None', 'i0', 'i1', 'i-3', 'f1.0', 'f2.5', 'f-1.5', 'nan_a', 'nan_b', 's_a', 's_aa', 's_b', 'dt1', 'dt2']
SORT_SMALL = ['None', 'i1', 'f2.5', 'nan_a', 's_a', 'dt1']
TUPLE_SCALARS_Q = ['None', 'i1', 'f1.0', 'nan_a', 's_a']
TUPLE_SCALARS_T = ['None', 'i1', 'f1.0', 'f2.5', 'nan_a', 's_a', 'dt1']


def index_matrix(c, vals):
    from pyg_base import cmp
    m = {}
    for i, x in enumerate(vals):
        for j, y in enumerate(vals):
            try:
                m[(i, j)] = cmp(x, y)
            except Exception:       # noqa  (reported by the cmp laws where the pair belongs to the universe)
                m[(i, j)] = None
    return m


def run_sort(c, u, rng, quick):
    # scalars
    names = SORT_SCALARS
    vals = [u[n] for n in names]
    idx = {id(v): i for i, v in enumerate(vals)}
    if len(idx) != len(vals):           # small ints / interned strings may share identity only if equal names were listed twice
        raise RuntimeError('universe objects are not distinct')
    m = index_matrix(c, vals)
    n_all = 4 if quick else 5
    for n in range(0, n_all + 1):
        for xs in itertools.product(range(len(vals)), repeat=n):
            check_sort(c, vals, m, idx, names, xs, 'sort')
            c.case(('sort', xs), nontrivial=len(set(xs)) > 1, sample=dict(sort=[names[i] for i in xs]) if xs in ((7, 1), (0, 2, 9, 12)) else None)
    if quick:
        sub = [names.index(n) for n in SORT_SMALL]
        for xs in itertools.product(sub, repeat=5):
            check_sort(c, vals, m, idx, names, xs, 'sort')
            c.case(('sort', xs), nontrivial=len(set(xs)) > 1)
    # equal-length tuples
    tsc = TUPLE_SCALARS_Q if quick else TUPLE_SCALARS_T
    tnames = ['%s|%s' % (a, b) for a in tsc for b in tsc]
    tvals = [(u[a], u[b]) for a in tsc for b in tsc]
    tidx = {id(v): i for i, v in enumerate(tvals)}
    tm = index_matrix(c, tvals)
    for n in range(0, 4):
        for xs in itertools.product(range(len(tvals)), repeat=n):
            check_sort(c, tvals, tm, tidx, tnames, xs, 'sort_tuples')
            c.case(('sort2', xs), nontrivial=len(set(xs)) > 1, sample=dict(sort=[tnames[i] for i in xs]) if xs == (3, 8) else None)
    for _ in range(3000 if quick else 60000):
        xs = tuple(rng.randrange(len(tvals)) for _ in range(rng.choice([4, 5])))
        check_sort(c, tvals, tm, tidx, tnames, xs, 'sort_tuples')
        c.case(('sort2', xs), nontrivial=len(set(xs)) > 1)
    # 3-tuples, sampled
    t3names = ['%s|%s|%s' % (a, b, d) for a in tsc for b in tsc for d in tsc]
    t3vals = [(u[a], u[b], u[d]) for a in tsc for b in tsc for d in tsc]
    t3idx = {id(v): i for i, v in enumerate(t3vals)}
    from pyg_base import cmp

    class Lazy(dict):
        def __missing__(self, k):
            try:
                r = cmp(t3vals[k[0]], t3vals[k[1]])
            except Exception:       # noqa
                r = None
            self[k] = r
            return r
    t3m = Lazy()
    for _ in range(3000 if quick else 60000):
        xs = tuple(rng.randrange(len(t3vals)) for _ in range(rng.choice([2, 3, 4])))
        check_sort(c, t3vals, t3m, t3idx, t3names, xs, 'sort_tuples3')
        c.case(('sort3', xs), nontrivial=len(set(xs)) > 1)


SORT_SEQ_NAN = ['i1', 'f2.5', 'nan_a', 'nan_b']                   # all lists of <= 3 of the 16 2-tuples
SORT_SEQ_WIDE = ['None', 'i1', 'f2.5', 'nan_a', 'nan_b', 's_a']   # seeded lists of 3-5 of the 36 2-tuples
SORT_SEQ3 = ['None', 'i1', 'nan_a', 'nan_b']                      # seeded lists of 2-4 of the 64 3-tuples
SORT_LIST2 = ['i1', 'nan_a', 'nan_b']                             # all lists of <= 3 of the 9 2-lists


def run_sort_seq(c, u, rng, quick):
    """sort() over lists of equal-length tuples / lists that hold NaN objects of distinct identity next to finite numbers, None and
    strings (the property keeps +-inf and bools out of sort)"""
    from pyg_base import cmp

    def universe_of(kind, scalars, n):
        names = ['%s:%s' % (kind, '|'.join(p)) for p in itertools.product(scalars, repeat=n)]
        vals = [seq_value(u, x) for x in names]
        return names, vals, {id(v): i for i, v in enumerate(vals)}

    class Lazy(dict):
        def __init__(self, vals):
            dict.__init__(self)
            self.vals = vals

        def __missing__(self, k):
            try:
                r = cmp(self.vals[k[0]], self.vals[k[1]])
            except Exception:       # noqa
                r = None
            self[k] = r
            return r
    for tag, kind, scalars, n, upto in (('t2nan', 't', SORT_SEQ_NAN, 2, 3), ('l2nan', 'l', SORT_LIST2, 2, 3)):
        names, vals, idx = universe_of(kind, scalars, n)
        m = Lazy(vals)
        for k in range(2, upto + 1):
            for xs in itertools.product(range(len(vals)), repeat=k):
                check_sort(c, vals, m, idx, names, xs, 'sort_seq')
                c.case(('sort_seq', tag, xs), nontrivial=len(set(xs)) > 1, sample=dict(sort=[names[i] for i in xs]) if (tag, xs) == ('t2nan', (9, 12, 8)) else None)
    for tag, kind, scalars, n, lens, reps in (('t2wide', 't', SORT_SEQ_WIDE, 2, (3, 4, 5), 1200 if quick else 30000), ('t3', 't', SORT_SEQ3, 3, (2, 3, 4), 1000 if quick else 30000),
                                              ('t2nan', 't', SORT_SEQ_NAN, 2, (4, 5, 6), 800 if quick else 30000)):
        names, vals, idx = universe_of(kind, scalars, n)
        m = Lazy(vals)
        for _ in range(reps):
            xs = tuple(rng.randrange(len(vals)) for _ in range(rng.choice(lens)))
            check_sort(c, vals, m, idx, names, xs, 'sort_seq')
            c.case(('sort_seq', tag, xs), nontrivial=len(set(xs)) > 1)


# ----------------------------------------------------------------------------------------------------------------- dictable.sort
A_MIXED = ['None', 'i1', 'f1.0', 'i2', 's_x']
A_NAN = ['nan_a', 'i1', 'i0', 'f2.5', 'nan_b']
B_VALS = [0, 1]
BY = ['a', 'b', 'a,b', 'b,a', 'list:a,b', 'fn:-b', 'fn:(b,a)', 'fn:b,col:a']
BYVAL = [dict(a=['s_x', 'i1']), dict(a=['i2']), dict(a=['None', 's_x', 'i2', 'i1']), dict(a=[]), dict(b=[1, 0]), dict(b=[1]),
         dict(a=['s_x', 'i1'], b=[1, 0]), dict(b=[1, 0], a=['i2', 'None'])]


def by_args(by):
    """positional arguments for dictable.sort and the matching oracle key function row -> key tuple"""
    if by == 'a':
        return ('a',), lambda r: (r['a'],)
    if by == 'b':
        return ('b',), lambda r: (r['b'],)
    if by == 'a,b':
        return ('a', 'b'), lambda r: (r['a'], r['b'])
    if by == 'b,a':
        return ('b', 'a'), lambda r: (r['b'], r['a'])
    if by == 'list:a,b':
        return (['a', 'b'],), lambda r: (r['a'], r['b'])
    if by == 'fn:-b':
        return (lambda b: -b,), lambda r: (-r['b'],)
    if by == 'fn:(b,a)':
        return (lambda a, b: (b, a),), lambda r: ((r['b'], r['a']),)
    if by == 'fn:b,col:a':
        return (lambda b: b, 'a'), lambda r: (r['b'], r['a'])
    raise ValueError(by)


def same(x, y):
    return x is y or (x == y and type(x) is type(y))


def check_dsort(c, u, a_names, b_vals, by):
    from pyg_base import dictable, cmp
    n = len(a_names)
    a = [u[k] for k in a_names]
    call = dict(kind='dsort', a=list(a_names), b=list(b_vals), by=by)
    args, keyf = by_args(by)
    rows = [dict(a=a[i], b=b_vals[i], i=i) for i in range(n)]
    try:
        d = dictable(a=list(a), b=list(b_vals), i=list(range(n)))
        r = d.sort(*args)
        ri = list(r['i']) if n else []
        ra, rb = (list(r['a']), list(r['b'])) if n else ([], [])
    except Exception as e:      # noqa
        return c.check(False, 'C07:dictable.sort:raises', 'dictable(a=%r,b=%r).sort(%s) raised %r' % (a, b_vals, by, e), call)
    desc = 'dictable(a=%r, b=%r, i=0..).sort(%s) gives rows i=%r' % (a, list(b_vals), by, ri)
    ok = c.check(len(r) == n and sorted(ri) == list(range(n)) and all(same(ra[j], a[ri[j]]) and rb[j] == b_vals[ri[j]] for j in range(len(ri))),
                 'C07:dictable.sort:permutation', desc + ': not a permutation of the rows', call)
    if not ok:
        return False
    keys = [keyf(rows[i]) for i in ri]
    ordered, stable = True, True
    for j in range(len(keys) - 1):
        k = cmp(keys[j], keys[j + 1])
        ordered &= k <= 0
        if k == 0:
            stable &= ri[j] < ri[j + 1]
    if not ordered:
        nat = has_nan([list(k) for k in keys]) and natively_sortable([(keyf(rows[i]), i) for i in range(n)])
        ok = c.check(False, K_D2_TABLE if nat else 'C07:dictable.sort:ordered', desc + ': keys are not non-decreasing under cmp', call)
    ok &= c.check(stable, 'C07:dictable.sort:stable', desc + ': rows with equal keys do not keep their original order', call)
    try:
        r2 = r.sort(*args)
        ok &= c.check(list(r2['i']) == ri if n else len(r2) == 0, 'C07:dictable.sort:idempotent', desc + ' and sorting again gives %r' % (list(r2['i']) if n else None), call)
    except Exception as e:      # noqa
        ok = c.check(False, 'C07:dictable.sort:raises', desc + ' and sorting again raised %r' % e, call)
    return ok


def check_dsort_byval(c, u, a_names, b_vals, byval):
    from pyg_base import dictable
    n = len(a_names)
    a = [u[k] for k in a_names]
    call = dict(kind='dsort_byval', a=list(a_names), b=list(b_vals), byval=[[k, list(v)] for k, v in byval.items()])
    orders = {k: [u[x] if k == 'a' else x for x in v] for k, v in byval.items()}

    def rank(col, v):
        for j, x in enumerate(orders[col]):
            if x is v or x == v:
                return j
        return len(orders[col])
    rows = [dict(a=a[i], b=b_vals[i], i=i) for i in range(n)]
    expected = [i for _, i in sorted((tuple(rank(k, rows[i][k]) for k in orders), i) for i in range(n))]     # ints only: listed first in the given order, the rest last, ties by position
    try:
        r = dictable(a=list(a), b=list(b_vals), i=list(range(n))).sort(**orders)
        ri = list(r['i']) if n else []
    except Exception as e:      # noqa
        return c.check(False, 'C07:dictable.sort:byval:raises', 'dictable(a=%r,b=%r).sort(**%r) raised %r' % (a, b_vals, orders, e), call)
    return c.check(ri == expected, 'C07:dictable.sort:byval:order', 'dictable(a=%r, b=%r, i=0..).sort(**%r) gives rows %r, expected %r' % (a, list(b_vals), orders, ri, expected), call)


def run_dsort(c, u, rng, quick):
    n_all = 3 if quick else 4
    for A, tag in ((A_MIXED, 'mixed'), (A_NAN, 'nan')):
        for n in range(0, n_all + 1):
            for an in itertools.product(A, repeat=n):
                for bv in itertools.product(B_VALS, repeat=n):
                    bys = BY if (n <= 2 or not quick) else ['a', 'a,b'] + rng.sample(BY[1:2] + BY[3:], 2)
                    for by in bys:
                        check_dsort(c, u, an, bv, by)
                        c.case(('dsort', an, bv, by), nontrivial=n > 1, sample=dict(a=list(an), b=list(bv), by=by) if (n == 3 and len(c.samples) < 7 and len(set(an)) == 3) else None)
        for _ in range(400 if quick else 4000):
            n = rng.choice([4, 5]) if quick else 5
            an = tuple(rng.choice(A) for _ in range(n))
            bv = tuple(rng.choice(B_VALS) for _ in range(n))
            by = rng.choice(BY)
            check_dsort(c, u, an, bv, by)
            c.case(('dsort', an, bv, by))
    for n in range(0, n_all + 1):
        for an in itertools.product(A_MIXED, repeat=n):
            for bv in itertools.product(B_VALS, repeat=n):
                for bi in (range(len(BYVAL)) if (n <= 2 or not quick) else rng.sample(range(len(BYVAL)), 2)):
                    check_dsort_byval(c, u, an, bv, BYVAL[bi])
                    c.case(('dsort_byval', an, bv, bi), nontrivial=n > 1)
    for _ in range(300 if quick else 4000):
        n = rng.choice([4, 5])
        an = tuple(rng.choice(A_MIXED) for _ in range(n))
        bv = tuple(rng.choice(B_VALS) for _ in range(n))
        bi = rng.randrange(len(BYVAL))
        check_dsort_byval(c, u, an, bv, BYVAL[bi])
        c.case(('dsort_byval', an, bv, bi))


ORD_POOL = ['None', 'i1', 'i2', 's_x', 's_a', 'f2.5']                  # table values; pairwise different under ==
ORD_BASE = ['s_x', 'i2', 'None', 's_a', 'i1']
ORD_A = [ORD_BASE[:k] for k in range(1, 6)] + [ORD_BASE[::-1][:3], ORD_BASE[::-1], ORD_BASE + ['f2.5']]      # 1..6 listed values, 'f2.5' unlisted but in the last
ORD_POOL2 = ['None', 'i1', 's_x', 'f2.5']
ORD_A2 = [['s_x'], ['i1', 's_x', 'None'], ['f2.5', 'i2', 's_a', 'None', 'i1']]         # the last lists values the table cannot hold
ORD_B2 = [[2, 0], [1], [0, 1, 2], [3, 2, 4, 5, 0]]
B3_VALS = [0, 1, 2]


def run_dsort_orders(c, u, rng, quick):
    """dictable.sort(**explicit value orders): order lists of 1..6 values against tables of 0..7 rows (shorter than / as long as / longer than the
    order list), tables over a pool that always holds values the order does not list, every listed value at every position of the list (all
    tables of <= 3 rows, seeded longer ones); one and two ordered columns (both keyword orders)"""
    n_all = 3 if quick else 4
    for n in range(0, n_all + 1):
        for an in itertools.product(ORD_POOL, repeat=n):
            bv = tuple(rng.choice(B_VALS) for _ in range(n))
            for oi, order in enumerate(ORD_A):
                check_dsort_byval(c, u, an, bv, dict(a=order))
                c.case(('dsort_order', an, bv, oi), nontrivial=n > 1, sample=dict(a=list(an), order=order) if (n, oi) == (2, 4) and an == ('f2.5', 'i1') else None)
    for _ in range(2500 if quick else 40000):
        n = rng.choice([4, 4, 5, 6, 7])
        an = tuple(rng.choice(ORD_POOL) for _ in range(n))
        bv = tuple(rng.choice(B_VALS) for _ in range(n))
        oi = rng.randrange(len(ORD_A))
        check_dsort_byval(c, u, an, bv, dict(a=ORD_A[oi]))
        c.case(('dsort_order', an, bv, oi))
    combos = [(i, j, first) for i in range(len(ORD_A2)) for j in range(len(ORD_B2)) for first in 'ab']
    for n in range(0, n_all + 1):
        for an in itertools.product(ORD_POOL2, repeat=n):
            for bv in itertools.product(B3_VALS, repeat=n):
                for i, j, first in (combos if (n <= 2 or not quick) else rng.sample(combos, 2)):
                    byval = dict(a=ORD_A2[i], b=ORD_B2[j]) if first == 'a' else dict(b=ORD_B2[j], a=ORD_A2[i])
                    check_dsort_byval(c, u, an, bv, byval)
                    c.case(('dsort_order2', an, bv, i, j, first), nontrivial=n > 1)
    for _ in range(800 if quick else 20000):
        n = rng.choice([4, 5, 6])
        an = tuple(rng.choice(ORD_POOL2) for _ in range(n))
        bv = tuple(rng.choice(B3_VALS) for _ in range(n))
        i, j, first = rng.choice(combos)
        byval = dict(a=ORD_A2[i], b=ORD_B2[j]) if first == 'a' else dict(b=ORD_B2[j], a=ORD_A2[i])
        check_dsort_byval(c, u, an, bv, byval)
        c.case(('dsort_order2', an, bv, i, j, first))


# ----------------------------------------------------------------------------------------------------------------- entry points
def run(tier, seed):
    rng = random.Random(seed)
    quick = tier == 'quick'
    u = universe()
    names = list(u)
    c = Collector('C07',
                  rule='cmp laws: all %d^2 pairs and %d^3 triples of a fixed universe (None, bools, ints, floats, three NaN objects of different identity, +-inf, '
                       'strings, datetimes/date, numpy int/float/bool/datetime64 scalars, empty tuple/list and two distinct empty dicts, nested tuples/lists/dicts, '
                       'equal copies, a dict with mixed-type keys): range, never raises, antisymmetry, transitivity, int==float, NaN above finite, agreement with the '
                       'native order inside numbers/strings/datetimes; the zero / NaN / native-order rules again for the one differing slot of two containers of the same shape '
                       '(1-tuple, list, pair, dict value, dict in list, list in dict, dict in dict, tuple in dict). Dicts and insertion order: all %d^2 pairs and %d^3 triples of a second universe holding, for the key sets '
                       '{a,b} (values 1,2,x), {a,b,c} (values 1,2) and {1,a} (values 1,2), every assignment of values in every insertion order (so crossing values such as '
                       '{a:1,b:2} / {b:1,a:2} meet in both orders), the same dicts inside tuples, lists and dict values, and neighbours with other key sets: range, never '
                       'raises, antisymmetry, transitivity, cmp == 0 whenever the two values are ==. Equal-length sequences: all pairs and triples of the 64 2-tuples over '
                       '{None, 1, 2.5, two NaN objects of distinct identity, +inf, -inf, a string} with the 25 2-lists over {None, 1, the two NaN objects, +inf}, and of the 64 '
                       '3-tuples over {1, the two NaN objects, +inf} with the 27 3-lists over {1, the two NaN objects} (a NaN object keeps its identity across sequences): range, '
                       'never raises, antisymmetry, transitivity. sort(): all lists of length <= %d over 14 scalars (None, ints, finite floats, two NaN objects, '
                       'strings, datetimes)%s, all lists of length <= 3 over the %d 2-tuples of %d scalars, seeded lists of 4-5 2-tuples and 2-4 3-tuples, all lists of <= 3 of the 16 2-tuples over '
                       '{1, 2.5, two NaN objects} and of the 9 2-lists over {1, two NaN objects}, seeded lists of 3-6 2-tuples / 2-4 3-tuples over {None, 1, 2.5, two NaN objects, a '
                       'string}: permutation (by identity) and non-decreasing under cmp (no element above a later one, every pair). dictable.sort: all tables of <= %d rows with a in 5 mixed values (and separately 5 numeric values '
                       'incl. two NaN objects) x b in {0,1} x 8 key choices (columns, lists, functions), seeded tables of 4-5 rows: permutation, ordered, stable, '
                       'idempotent; 8 explicit value orders against a rank oracle; explicit value orders of 1..6 listed values (prefixes of two permutations) against all tables of <= %d '
                       'rows and seeded tables of 4-7 rows over 6 values of which at least one is never listed (tables shorter than / as long as / longer than the order list), '
                       'and two ordered columns (3 x 4 order lists, both keyword orders, lists longer than the table and listing absent values) over all tables of <= %d rows of '
                       '4 x 3 values and seeded 4-6 rows: listed values in the given order, unlisted last, ties by position. A case is non-trivial when the inputs are not all the same object.'
                       % (len(names), len(names), len(dict_order_universe()), len(dict_order_universe()), 4 if quick else 5, ', length 5 over 6 of them' if quick else '', 25 if quick else 49, 5 if quick else 7, 3 if quick else 4, 3 if quick else 4, 3 if quick else 4),
                  exhaustive=False, scope='universe of %d values + %d dicts/neighbours in every insertion order; lists <= %d; tables <= %d rows (all) and 5 rows (sampled)' % (len(names), len(dict_order_universe()), 5, 3 if quick else 4))
    m = cmp_matrix(c, u, names)
    check_cmp_laws(c, u, names, m)
    check_dict_order(c)
    check_wrapped(c)
    for seq_names in seq_universes():
        check_seq_laws(c, u, seq_names)
    run_sort(c, u, rng, quick)
    run_sort_seq(c, u, random.Random(seed + 7001), quick)
    run_dsort(c, u, rng, quick)
    run_dsort_orders(c, u, random.Random(seed + 7002), quick)
    # ints beyond the float range (cmp converts ints to float first): outside the deductive contract's |i| <= 2**53 universe
    from pyg_base import cmp as _cmp
    for big in (10 ** 400, -10 ** 400):
        try:
            r = _cmp(big, 1)
            ok = r in (-1, 0, 1)
        except OverflowError:
            ok = False
        c.check(ok, 'C07:cmp:never-raises:int-beyond-float-range', 'cmp(%s10**400, 1) raised OverflowError (int too large to convert to float)' % ('-' if big < 0 else ''), None)
        c.case(('bigint', big > 0))
    return c.result()


def replay(call):
    u = universe()
    c = Collector('C07', 'replay')
    kind = call.get('kind')
    if kind in ('cmp', 'cmp3'):
        names = [call['x'], call['y']] + ([call['z']] if kind == 'cmp3' else [])
        names = list(dict.fromkeys(names))
        m = cmp_matrix(c, u, names)
        laws = Collector('C07', 'replay')
        try:
            restricted = {k: v for k, v in m.items()}
            for a in names:
                for b in names:
                    x, y = restricted[(a, b)], restricted[(b, a)]
                    if x is not None and y is not None:
                        laws.check(x == -y, 'antisymmetry', 'cmp(%r, %r) = %r but cmp(%r, %r) = %r' % (u[a], u[b], x, u[b], u[a], y))
            for a, b in NUM_EQUAL + SAME_VALUE:
                if a in names and b in names and m[(a, b)] is not None:
                    laws.check(m[(a, b)] == 0, 'zero', 'cmp(%r, %r) = %r, expected 0' % (u[a], u[b], m[(a, b)]))
            for a in names:
                for b in names:
                    if a in NANS and b in FINITE:
                        laws.check(m[(a, b)] == 1, 'nan', 'cmp(%r, %r) = %r, expected 1' % (u[a], u[b], m[(a, b)]))
                    for grp in NATIVE:
                        if a in grp and b in grp:
                            laws.check(m[(a, b)] == sgn(u[a], u[b]), 'native', 'cmp(%r, %r) = %r' % (u[a], u[b], m[(a, b)]))
            if kind == 'cmp3':
                a, b, z = call['x'], call['y'], call['z']
                ab, bz, az = m[(a, b)], m[(b, z)], m[(a, z)]
                if None not in (ab, bz, az) and ab <= 0 and bz <= 0:
                    laws.check(az <= 0 and (az < 0 or (ab == 0 and bz == 0)), 'transitivity', 'cmp(%r,%r)=%d, cmp(%r,%r)=%d but cmp(%r,%r)=%d' % (u[a], u[b], ab, u[b], u[z], bz, u[a], u[z], az))
        finally:
            for k, v in laws.violations.items():
                c.violations.setdefault(k, v)
    elif kind == 'cmp_wrapped':
        check_wrapped(c, only=(call['w'], call['x'], call['y']))
    elif kind == 'cmp_order':
        check_dict_order(c, names=list(dict.fromkeys(call['names'])))
    elif kind == 'cmp_seq':
        check_seq_laws(c, u, list(dict.fromkeys(call['names'])), count=False)
    elif kind == 'sort_seq':
        names = list(dict.fromkeys(call['xs']))
        vals = [seq_value(u, n) for n in names]
        check_sort(c, vals, index_matrix(c, vals), {id(v): i for i, v in enumerate(vals)}, names, tuple(names.index(n) for n in call['xs']), kind)
    elif kind in ('sort', 'sort_tuples', 'sort_tuples3'):
        names = list(dict.fromkeys(call['xs']))
        vals = [tuple(u[p] for p in n.split('|')) if kind != 'sort' else u[n] for n in names]
        idx = {id(v): i for i, v in enumerate(vals)}
        m = index_matrix(c, vals)
        check_sort(c, vals, m, idx, names, tuple(names.index(n) for n in call['xs']), kind)
    elif kind == 'dsort':
        check_dsort(c, u, tuple(call['a']), tuple(call['b']), call['by'])
    elif kind == 'dsort_byval':
        check_dsort_byval(c, u, tuple(call['a']), tuple(call['b']), {k: v for k, v in call['byval']})
    else:
        return dict(fails=None, detail='no replay for kind %r' % kind)
    v = list(c.violations.values())
    return dict(fails=bool(v), detail=v[0]['what'] if v else 'all clauses hold on the real code for this input')
