"""Verdict cache for replay batteries (rac/Cxx_ded.py of the pandas-wrapper properties).

An obligation generated once per path fails on several paths at once; each failure is replayed in its own process with the same call
description, i.e. the same native battery on the same source tree.  The verdict is therefore cached on disk, keyed by the replay module, the
call (without solver model values that the battery does not use) and the content of the source files of the tree the battery runs against."""
import hashlib, json, os, tempfile

REPO = os.environ.get('PYG_REPO', '/repo')
FILES = ('_pandas.py', '_reducer.py', '_bitemporal.py')


def _tree_key(deps=()):
    h = hashlib.sha256(REPO.encode())
    for f in deps:
        try:
            h.update(open(f, 'rb').read())
        except OSError:
            h.update(b'missing')
    for f in FILES:
        try:
            h.update(open(os.path.join(REPO, 'src', 'pyg_base', f), 'rb').read())
        except OSError:
            h.update(b'missing')
    return h.hexdigest()[:24]


def cached(module, call, fn, uses=(), deps=()):
    """fn() -> verdict dict; `uses`: the keys of `call` the battery depends on besides 'kind'; `deps`: source files of the battery itself"""
    desc = {k: call.get(k) for k in ('kind', 'name', 'which') + tuple(uses) if k in call}
    key = hashlib.sha256(json.dumps([module, desc, _tree_key(deps)], sort_keys=True, default=str).encode()).hexdigest()[:32]
    d = os.path.join(tempfile.gettempdir(), 'pyvc_replay_cache')
    path = os.path.join(d, key + '.json')
    try:
        return json.load(open(path))
    except (OSError, ValueError):
        pass
    v = fn()
    try:
        os.makedirs(d, exist_ok=True)
        tmp = path + '.%d' % os.getpid()
        json.dump(v, open(tmp, 'w'))
        os.replace(tmp, path)
    except OSError:
        pass
    return v
