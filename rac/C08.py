"""C08 bounded stand-in: add_/sub_/mul_/div_/pow_/gt_/ge_/lt_/le_/min_/max_ equal the plain pointwise operation on the operands
aligned by the join policy; scalars broadcast; lists reduce left to right; with column policy 'oj' a column missing on one side
acts as the neutral element; division by zero is NaN; add_/mul_ commute; df_sum/df_mean/df_count (df_std) skip NaN on the union.

The oracle works on abstract values made of python dicts only:
    ('num', v) | ('ser', [positions], {pos: v}) | ('frm', [positions], [columns], {col: {pos: v}})
and never calls pandas or the library.  Operands are described by a JSON spec (the `call`):
    {"num": v} | {"ts": {"idx": [grid positions], "cols": null | [names], "vals": [[...] per column]}}      ('nan' spells NaN)
Scope notes: frames have 2 or 3 columns out of {a,b,c} (the library documents that a one-column frame behaves like a Series, its
column name being ignored - those are not enumerated); when a list reduction would pass through an intermediate frame with fewer
than two columns the case is dropped for the same reason; for pow_/comparisons/min_/max_ (no neutral element stated) frames are
combined under column policy 'ij' only.
List operands: add_/mul_/min_/max_ concatenate the two sides and reduce left to right; sub_ and div_ reduce each side that is a list
first (with add_ resp. mul_, under the same join / column policy) and then apply the operation once: sub_([a, b], [c, d]) is
(a + b) - (c + d).  A job carries `split` (how many operands belong to the left side) and `wrap` (which single-operand sides are
passed as one-element lists: '', 'l', 'r', 'lr')."""
import datetime, itertools, json, math, random, warnings
from rac.common import Collector

D = datetime.datetime
NAN = float('nan')
GRID = [D(2020, 1, 1) + datetime.timedelta(days=i) for i in range(5)]
POS = {t: i for i, t in enumerate(GRID)}
SUBSETS = [[p for p in range(5) if (m >> p) & 1] for m in range(32)]
VALUES = [0.0, 1.0, -2.0, 'nan']
COLSETS = [['a', 'b'], ['a', 'c'], ['b', 'c'], ['a', 'b', 'c'], ['b', 'a']]
ARITH = ['add', 'sub', 'mul', 'div']
OTHER = ['pow', 'gt', 'ge', 'lt', 'le', 'min', 'max']
FOLD = ['add', 'mul', 'min', 'max']
AGG = ['df_sum', 'df_mean', 'df_count', 'df_std']
NEUTRAL = dict(add=0.0, sub=0.0, mul=1.0, div=1.0)
K_D7 = 'C08:div-by-zero-scalar:shape'


class OutOfScope(Exception):
    pass


def isn(x):
    return isinstance(x, float) and x != x


def dec(v):
    return NAN if v == 'nan' else float(v)


def same(x, y):
    if isinstance(y, bool):
        return bool(x) == y and not isn(x)
    x, y = float(x), float(y)
    return (x != x and y != y) or x == y


# ------------------------------------------------------------------ the pointwise operations (plain python / IEEE)
def point(op, p, q):
    if op == 'add':
        return p + q
    if op == 'sub':
        return p - q
    if op == 'mul':
        return p * q
    if op == 'div':
        return NAN if q == 0 else p / q
    if op == 'pow':
        if isn(q):
            return 1.0 if p == 1 else NAN
        if isn(p):
            return 1.0 if q == 0 else NAN
        if p == 0 and q < 0:
            return math.inf
        if p < 0 and q != int(q):
            return NAN
        return float(p ** q)
    if op == 'gt':
        return p > q
    if op == 'ge':
        return p >= q
    if op == 'lt':
        return p < q
    if op == 'le':
        return p <= q
    if op in ('min', 'max'):
        if isn(p) or isn(q):
            return NAN
        return min(p, q) if op == 'min' else max(p, q)
    raise ValueError(op)


def to_av(spec):
    if 'num' in spec:
        return ('num', dec(spec['num']))
    s = spec['ts']
    if s['cols'] is None:
        return ('ser', list(s['idx']), {p: dec(v) for p, v in zip(s['idx'], s['vals'][0])})
    return ('frm', list(s['idx']), list(s['cols']), {c: {p: dec(v) for p, v in zip(s['idx'], vs)} for c, vs in zip(s['cols'], s['vals'])})


def joint(indices, join):
    sets = [set(i) for i in indices]
    return sorted(set.intersection(*sets)) if join[0] == 'i' else sorted(set.union(*sets))


def binop(op, x, y, join, colpolicy):
    """the statement's semantics for one binary application"""
    if x[0] == 'num' and y[0] == 'num':
        if op == 'pow' and x[1] == 0 and y[1] < 0:
            raise OutOfScope('plain python 0.0 ** negative raises; no timeseries involved')
        return ('num', point(op, x[1], y[1]))
    idx = joint([v[1] for v in (x, y) if v[0] != 'num'], join)
    frames = [v for v in (x, y) if v[0] == 'frm']
    if not frames:
        get = [(lambda p, v=v: v[1]) if v[0] == 'num' else (lambda p, v=v: v[2].get(p, NAN)) for v in (x, y)]
        return ('ser', idx, {p: point(op, get[0](p), get[1](p)) for p in idx})
    if len(frames) == 2:
        ca, cb = frames[0][2], frames[1][2]
        if colpolicy[0] == 'i':
            cols = [c for c in ca if c in cb]
        else:
            cols = ca + [c for c in cb if c not in ca]
            if set(ca) != set(cb) and op not in NEUTRAL:
                raise OutOfScope('no neutral element stated for %s' % op)
    else:
        cols = list(frames[0][2])

    def cell(v, c, p):
        if v[0] == 'num':
            return v[1]
        if v[0] == 'ser':
            return v[2].get(p, NAN)
        if c not in v[2]:
            return NEUTRAL[op]
        return v[3][c].get(p, NAN)
    return ('frm', idx, cols, {c: {p: point(op, cell(x, c, p), cell(y, c, p)) for p in idx} for c in cols})


def fold(op, avs, join, colpolicy):
    """lists reduce left to right"""
    res = avs[0]
    for i, v in enumerate(avs[1:]):
        if res[0] == 'frm' and len(res[2]) < 2:
            raise OutOfScope('intermediate frame with fewer than two columns')
        res = binop(op, res, v, join, colpolicy)
    return res


def sync_all(op, avs, join, colpolicy):
    """min_/max_: all operands are aligned at once, then reduced"""
    ts = [v for v in avs if v[0] != 'num']
    if not ts:
        return fold(op, avs, join, colpolicy)
    idx = joint([v[1] for v in ts], join)
    frames = [v for v in ts if v[0] == 'frm']
    if frames:
        sets = [set(f[2]) for f in frames]
        if colpolicy[0] != 'i' and any(s != sets[0] for s in sets):
            raise OutOfScope('no neutral element stated for %s' % op)
        cols = [c for c in frames[0][2] if all(c in s for s in sets)]

    def cell(v, c, p):
        return v[1] if v[0] == 'num' else v[2].get(p, NAN) if v[0] == 'ser' else v[3][c].get(p, NAN)

    def red(c, p):
        r = cell(avs[0], c, p)
        for v in avs[1:]:
            r = point(op, r, cell(v, c, p))
        return r
    if not frames:
        return ('ser', idx, {p: red(None, p) for p in idx})
    return ('frm', idx, cols, {c: {p: red(c, p) for p in idx} for c in cols})


def aggregate(fn, avs, columns='oj'):
    """df_sum / df_mean / df_count / df_std: union index, NaN operands skipped; union of the columns, or - with columns='ij' - the common columns"""
    idx = joint([v[1] for v in avs], 'oj')
    frames = [v for v in avs if v[0] == 'frm']
    cols = None
    if frames:
        cols = []
        for f in frames:
            cols += [c for c in f[2] if c not in cols]
        if columns == 'ij':
            cols = [c for c in cols if all(c in f[2] for f in frames)]

    def data(c, p):
        out = []
        for v in avs:
            x = v[2].get(p, NAN) if v[0] == 'ser' else v[3].get(c, {}).get(p, NAN)
            if not isn(x):
                out.append(x)
        return out

    def val(c, p):
        xs = data(c, p)
        n = len(xs)
        if fn == 'df_count':
            return n
        if n == 0:
            return NAN
        if fn == 'df_sum':
            return sum(xs)
        if fn == 'df_mean':
            return sum(xs) / n
        if n < 2:
            return None         # df_std of a single observation: not stated, not checked
        m = sum(xs) / n
        return (sum((x - m) ** 2 for x in xs) / n) ** 0.5
    if cols is None:
        return ('ser', idx, {p: val(None, p) for p in idx})
    return ('frm', idx, cols, {c: {p: val(c, p) for p in idx} for c in cols})


# ------------------------------------------------------------------ the real call
def build(spec):
    import pandas as pd
    if 'num' in spec:
        return dec(spec['num'])
    s = spec['ts']
    index = pd.DatetimeIndex([GRID[p] for p in s['idx']])
    dtype = 'int64' if s.get('int') else float
    if s['cols'] is None:
        return pd.Series([dec(v) for v in s['vals'][0]], index, dtype=dtype)
    return pd.DataFrame({c: pd.Series([dec(v) for v in vs], index, dtype=dtype) for c, vs in zip(s['cols'], s['vals'])}, index=index, columns=list(s['cols']))


def from_result(r):
    import numpy as np, pandas as pd
    if isinstance(r, pd.DataFrame):
        if not all(t in POS for t in r.index):
            return ('odd', 'DataFrame indexed by %s' % list(r.index)[:4])
        idx = [POS[t] for t in r.index]
        return ('frm', idx, list(r.columns), {c: dict(zip(idx, r[c].values.tolist())) for c in r.columns})
    if isinstance(r, pd.Series):
        if not all(t in POS for t in r.index):
            return ('odd', 'Series indexed by %s' % list(r.index)[:4])
        idx = [POS[t] for t in r.index]
        return ('ser', idx, dict(zip(idx, r.values.tolist())))
    if isinstance(r, (int, float, bool, np.number, np.bool_)):
        return ('num', r.item() if hasattr(r, 'item') else r)
    return ('odd', '%s: %r' % (type(r).__name__, r))


def call_real(fn, objs, split, join, columns, wrap=''):
    import pyg_base._pandas as P
    f = getattr(P, fn if fn in AGG else fn + '_')
    if fn in AGG:
        kw = dict(columns='ij') if wrap == 'agg-ij' else {}
        return f(objs, **kw) if split is None else f(objs[:split] if split > 1 else objs[0], objs[split:] if len(objs) - split > 1 else objs[split], **kw)
    if (fn in FOLD or fn in PRE) and (len(objs) != 2 or wrap):
        a = objs[:split] if (split > 1 or 'l' in wrap) else objs[0]
        b = None if split == len(objs) else objs[split:] if (len(objs) - split > 1 or 'r' in wrap) else objs[split]
        return f(a, b, join=join, columns=columns)
    if fn in FOLD and (len(objs) != 2 or split != 1):
        a = objs[:split] if split > 1 else objs[0]
        b = None if split == len(objs) else objs[split:] if len(objs) - split > 1 else objs[split]
        return f(a, b, join=join, columns=columns)
    return f(objs[0], objs[1], join=join, columns=columns)


def diff(exp, got, fn):
    """list of (clause, text) where the result departs from the expectation"""
    if exp[0] != got[0]:
        return [('shape', 'expected a %s, got %s' % (dict(num='scalar', ser='Series', frm='DataFrame')[exp[0]], got[1] if got[0] == 'odd' else dict(num='the scalar %r' % (got[1],), ser='a Series', frm='a DataFrame')[got[0]]))]
    if exp[0] == 'num':
        return [] if same(got[1], exp[1]) else [('value:' + fn, 'scalar result %r, expected %r' % (got[1], exp[1]))]
    if got[1] != exp[1]:
        return [('index', 'result index %s, expected %s' % ([str(GRID[p])[5:10] for p in got[1]], [str(GRID[p])[5:10] for p in exp[1]]))]
    if exp[0] == 'ser':
        cells = [(None, p, got[2][p], exp[2][p]) for p in exp[1]]
    else:
        if set(got[2]) != set(exp[2]) or len(got[2]) != len(exp[2]):
            return [('columns', 'result columns %s, expected the set %s' % (got[2], sorted(exp[2])))]
        cells = [(c, p, got[3][c][p], exp[3][c][p]) for c in exp[2] for p in exp[1]]
    for c, p, g, e in cells:
        if e is None:
            continue
        ok = same(g, e) if fn != 'df_std' else ((isn(e) and isn(float(g))) or abs(float(g) - e) < 1e-9)
        if not ok:
            return [('value:' + fn, 'cell %s%s is %r, expected %r' % ('' if c is None else c + '@', str(GRID[p])[5:10], g, e))]
    return []


PRE = dict(sub='add', div='mul')


def expected(fn, avs, join, columns, split=1):
    if fn in AGG:
        return aggregate(fn, avs, 'ij' if columns == 'ij:agg' else 'oj')
    if fn in ('min', 'max'):
        return sync_all(fn, avs, join, columns)
    if fn in PRE and len(avs) > 2:
        # a list on either side is reduced first (add_ for sub_, mul_ for div_) under the same policies, then the operation is applied once
        sides = [fold(PRE[fn], avs[:split], join, columns), fold(PRE[fn], avs[split:], join, columns)]
        if any(v[0] == 'frm' and len(v[2]) < 2 for v in sides):
            raise OutOfScope('intermediate frame with fewer than two columns')
        return binop(fn, sides[0], sides[1], join, columns)
    return fold(fn, avs, join, columns)


def run_job(job):
    warnings.filterwarnings('ignore')
    fn, ops, split, join, columns = job['fn'], job['ops'], job.get('split'), job.get('join') or 'ij', job.get('columns') or 'ij'
    wrap = job.get('wrap') or ''
    cls = ':list-operand' if fn in PRE and (len(ops) > 2 or wrap) else ''        # sub_/div_ with a list on either side (pre-reduction)
    avs = [to_av(o) for o in ops]
    try:
        exp = expected(fn, avs, join, 'ij:agg' if (fn in AGG and wrap == 'agg-ij') else columns, split)
    except OutOfScope:
        return None
    objs = [build(o) for o in ops]
    before = [from_result(o) for o in objs]
    d7 = fn == 'div' and len(avs) == 2 and avs[1] == ('num', 0.0) and avs[0][0] != 'num'
    out = []
    try:
        got = from_result(call_real(fn, objs, split, join, columns, wrap))
    except Exception as e:      # noqa
        return [(K_D7 if d7 else 'C08:raises' + cls, '%s raised %s: %s' % (fn, type(e).__name__, e))]
    if exp[0] == 'frm' and not exp[2]:
        return []               # empty common column set: nothing stated about the shape of the result
    for clause, text in diff(exp, got, fn):
        out.append((K_D7 if (d7 and clause == 'shape') else 'C08:' + clause + cls, '%s: %s' % (fn, text)))
    if fn in ('add', 'mul') and not out and not wrap:
        try:
            if len(objs) == 2:          # add_(x, y) against add_(y, x) for two plain operands (a reduction over lists is not
                # associative once scalars meet outer-joined columns, so swapping whole lists is not what commutativity states)
                rev = from_result(call_real(fn, objs[::-1], 1, join, columns))
                for clause, text in diff(got, rev, fn):
                    out.append(('C08:commutative:' + fn, 'operands swapped: %s' % text))
        except Exception as e:      # noqa
            out.append(('C08:commutative:' + fn, 'operands swapped: raised %r' % e))
    for b, o in zip(before, objs):
        if diff(b, from_result(o), fn) if b[0] != 'num' else False:
            out.append(('C08:input-modified', '%s modified an operand' % fn))
    return out


# ------------------------------------------------------------------ enumerators
def mk_ser(rng, idx):
    return {'ts': dict(idx=list(idx), cols=None, vals=[[rng.choice(VALUES) for _ in idx]])}


def mk_frm(rng, idx, cols):
    return {'ts': dict(idx=list(idx), cols=list(cols), vals=[[rng.choice(VALUES) for _ in idx] for _ in cols])}


def mk_any(rng, kind):
    idx = SUBSETS[rng.randrange(32)]
    if kind == 's':
        return mk_ser(rng, idx)
    if kind == 'f':
        return mk_frm(rng, idx, rng.choice(COLSETS))
    return {'num': rng.choice([0.0, 1.0, -2.0, 2.5])}


def jobs_for(tier, seed):
    rng = random.Random(seed)
    quick = tier == 'quick'
    jobs = []

    def add(fn, ops, split=1, join='ij', columns='ij'):
        jobs.append(dict(fn=fn, ops=ops, split=split, join=join, columns=columns))
    # A. two Series over every pair of index sets (quick: every set against 6 seeded partners), both joins, all 11 operators
    pairs = [(i, j) for i in range(32) for j in (range(32) if not quick else sorted(set(rng.sample(range(32), 6)) | {0, 31}))]
    for i, j in pairs:
        for jn in ('ij', 'oj'):
            ops_here = ARITH + OTHER if not quick else ARITH + rng.sample(OTHER, 2)
            for fn in ops_here:
                add(fn, [mk_ser(rng, SUBSETS[i]), mk_ser(rng, SUBSETS[j])], 1, jn)
    # B. frames: two frames / frame and Series, both index and both column policies
    for _ in range(2500 if quick else 60000):
        kinds = rng.choice(['ff', 'ff', 'ff', 'fs', 'sf'])
        ops = [mk_any(rng, k) for k in kinds]
        fn = rng.choice(ARITH * 3 + OTHER)
        add(fn, ops, 1, rng.choice(['ij', 'oj']), rng.choice(['ij', 'oj']))
    # C. scalars on either side (division by the scalar zero included)
    for _ in range(1500 if quick else 30000):
        t = mk_any(rng, rng.choice('ssf'))
        n = {'num': rng.choice([0.0, 0.0, 1.0, -2.0, 2.5])}
        fn = rng.choice(ARITH * 2 + OTHER)
        add(fn, [t, n] if rng.random() < .5 else [n, t], 1, rng.choice(['ij', 'oj']), rng.choice(['ij', 'oj']))
    for fn in ARITH + OTHER:
        for p in (0.0, 1.0, -2.0):
            for q in (0.0, 1.0, -2.0):
                add(fn, [{'num': p}, {'num': q}])
    # C'. integer-valued operands (dtype int64: a missing timestamp of an outer join has to become NaN all the same, 1/0 is NaN, results are the same numbers)
    rng_i = random.Random(seed + 31)
    INTS = [0.0, 1.0, -2.0, 3.0]

    def int_ts(kind):
        idx = SUBSETS[rng_i.randrange(32)]
        cols = None if kind == 's' else rng_i.choice(COLSETS)
        vals = [[rng_i.choice(INTS) for _ in idx] for _ in (cols or [0])]
        return {'ts': dict(idx=list(idx), cols=None if cols is None else list(cols), vals=vals, int=True)}
    for _ in range(600 if quick else 12000):
        kinds = rng_i.choice(['ss', 'ss', 'ff', 'fs', 'sn', 'ns'])
        ops = [int_ts(k) if k != 'n' else {'num': rng_i.choice([0.0, 1.0, -2.0])} for k in kinds]
        fn = rng_i.choice([f for f in ARITH * 2 + OTHER if f != 'pow'])
        add(fn, ops, 1, rng_i.choice(['ij', 'oj']), rng_i.choice(['ij', 'oj']))
    # D. lists of 3-4 operands reduce left to right (add_, mul_, min_, max_), scalars allowed as members
    for _ in range(1200 if quick else 30000):
        k = rng.choice([3, 3, 4])
        family = rng.choice(['s', 's', 'f'])
        ops = [mk_any(rng, rng.choice(family * 4 + 'n')) for _ in range(k)]
        if all('num' in o for o in ops):
            continue
        add(rng.choice(FOLD), ops, rng.choice([1, 2, k, k]), rng.choice(['ij', 'oj']), rng.choice(['ij', 'oj']))
    # E. aggregates over 2-4 Series or 2-4 frames
    for _ in range(800 if quick else 20000):
        k = rng.choice([2, 3, 4])
        family = rng.choice('ssf')
        ops = [mk_any(rng, family) for _ in range(k)]
        for fn in (AGG if not quick else rng.sample(AGG, 2)):
            add(fn, ops, rng.choice([None, None, 1]) if k == 2 else None)
    # E'. the aggregates over frames with different column sets under the column policy 'ij': only the common columns
    rng_e = random.Random(seed + 53)
    for _ in range(300 if quick else 6000):
        k = rng_e.choice([2, 3])
        ops = [mk_any(rng_e, 'f') for _ in range(k)]
        for fn in AGG:
            jobs.append(dict(fn=fn, ops=ops, split=None, join='ij', columns='ij', wrap='agg-ij'))
    # F. lists of operands on either side, for every operator that accepts lists, under both join policies. sub_ / div_ reduce each list side
    #    first; add_ / mul_ / min_ / max_ concatenate.  (k operands, how many on the left, which single sides are one-element lists.)
    #    Index sets are drawn independently per operand, so timestamps that occur in only some elements of a list (and not on the other
    #    side) are the common case; the first draws of every shape force one: every list element owns a private timestamp.
    shapes = [(2, 1, 'r'), (2, 1, 'l'), (2, 1, 'lr'), (3, 1, ''), (3, 2, ''), (3, 1, 'l'), (3, 2, 'r'), (4, 2, ''), (4, 1, ''), (4, 3, '')]
    for fn in ['sub', 'div'] + FOLD:
        pre = fn in PRE
        for k, split, wrap in shapes:
            for jn in ('ij', 'oj'):
                for draw in range((20 if pre else 5) if quick else (400 if pre else 150)):
                    family = 's' if draw % 3 else 'f'
                    ops = [mk_any(rng, rng.choice(family * 5 + 'n')) for _ in range(k)]
                    if draw < 3 and k <= 4:                               # private timestamps: operand i owns grid position i, all share position 4
                        for i, o in enumerate(ops):
                            if 'ts' in o:
                                ops[i] = (mk_ser if o['ts']['cols'] is None else (lambda r, ix: mk_frm(r, ix, o['ts']['cols'])))(rng, sorted({i, 4} | set(rng.sample(range(4), 1))))
                    if all('num' in o for o in ops):
                        continue
                    add(fn, ops, split, jn, rng.choice(['ij', 'oj']))
                    jobs[-1]['wrap'] = wrap
    return jobs


def ident(job):
    return json.dumps([job['fn'], job['ops'], job.get('split'), job.get('join'), job.get('columns'), job.get('wrap') or ''], sort_keys=True)


def run(tier, seed):
    quick = tier == 'quick'
    c = Collector('C08', '2-4 operands: Series / 2-3 column frames (columns out of a,b,c) whose indices are subsets of a 5-day grid (all 32, empty '
                  'included; two-Series cases over %s pairs of index sets x {ij,oj} x 11 operators), cell values in {0,1,-2,NaN}, scalars in {0,1,-2,2.5} on '
                  'either side, index policy in {ij,oj}, column policy in {ij,oj}; lists of 3-4 operands for add_/mul_/min_/max_; lists on either or both sides '
                  '(2-4 operands split 1|1..3|1, single operands also as one-element lists) for sub_/div_ (each list side reduced first with add_/mul_) and '
                  'add_/mul_/min_/max_ under both index policies, with timestamps owned by single list elements; df_sum/df_mean/df_count/'
                  'df_std over 2-4 Series or frames; commutativity of add_/mul_ re-evaluated with the operands reversed; seeded choices from '
                  'random.Random(seed). Distinct by (operator, operands, split, join, columns); non-trivial when the expected result has at least one cell'
                  % ('all 1024' if not quick else '~250 seeded'), exhaustive=False,
                  scope='index sets: subsets of 5 timestamps; <=4 operands; columns subsets (size 2-3) of {a,b,c}; values {0,1,-2,NaN}')
    jobs = jobs_for(tier, seed)
    if quick:
        results = map(run_job, jobs)
    else:
        import multiprocessing as mp
        pool = mp.get_context('fork').Pool(14)
        results = pool.imap(run_job, jobs, chunksize=50)
    for job, fails in zip(jobs, results):
        if fails is None:
            continue            # outside the stated scope (see module docstring)
        call = dict(fn=job['fn'], ops=job['ops'], split=job.get('split'), join=job.get('join'), columns=job.get('columns'), wrap=job.get('wrap') or '')
        nontrivial = any('ts' in o and o['ts']['idx'] for o in job['ops'])
        c.case(ident(job), nontrivial=nontrivial, sample=dict(fn=job['fn'], join=job.get('join'), columns=job.get('columns'), operands=json.dumps(job['ops'])[:300]))
        for key, what in fails:
            c.check(False, key, what, call)
    if not quick:
        pool.close()
        pool.join()
    return c.result()


def replay(call):
    fails = run_job(dict(fn=call['fn'], ops=call['ops'], split=call.get('split'), join=call.get('join'), columns=call.get('columns'), wrap=call.get('wrap') or ''))
    if fails is None:
        return dict(fails=None, detail='input outside the enumerated scope')
    return dict(fails=bool(fails), detail='; '.join('%s: %s' % f for f in fails)[:600] if fails else 'all clauses hold on the real code for this input')
