"""Bounded stand-in (`rac`): the contracts evaluated at run time around the real functions, over inputs produced by
deterministic enumerators.  Everything here is labelled *bounded* and never counted as proved."""
import json, math, time, datetime


class Collector:
    def __init__(self, prop, rule, exhaustive=False, scope=None, max_samples=8):
        self.prop, self.rule, self.exhaustive, self.scope = prop, rule, exhaustive, scope
        self.evaluations = 0
        self.distinct = set()
        self.samples = []
        self.violations = {}
        self.max_samples = max_samples
        self.t0 = time.time()

    def case(self, ident, nontrivial=True, sample=None):
        """count one explored case; ident must be hashable and identifies the case for distinctness"""
        self.evaluations += 1
        if nontrivial:
            self.distinct.add(ident)
        if sample is not None and len(self.samples) < self.max_samples:
            self.samples.append(sample)

    def check(self, cond, key, what, call=None):
        """run-time contract clause: cond must hold; key names the clause / input class (stable across runs)"""
        if cond:
            return True
        if key not in self.violations:
            self.violations[key] = dict(key=key, what=str(what)[:600], call=call, count=1)
        else:
            self.violations[key]['count'] += 1
        return False

    def result(self):
        return dict(property_id=self.prop, evaluations=self.evaluations, distinct_nontrivial=len(self.distinct), rule=self.rule,
                    samples=self.samples, exhaustive=self.exhaustive, scope=self.scope, violations=list(self.violations.values()),
                    wall_s=round(time.time() - self.t0, 2))


def jsonable(x):
    if isinstance(x, (datetime.datetime, datetime.date)):
        return x.isoformat()
    if isinstance(x, float) and math.isnan(x):
        return 'nan'
    if isinstance(x, (list, tuple)):
        return [jsonable(i) for i in x]
    if isinstance(x, dict):
        return {str(k): jsonable(v) for k, v in x.items()}
    if isinstance(x, (int, float, str, bool)) or x is None:
        return x
    return repr(x)


def call_with_timeout(fn, args=(), kwargs=None, timeout=5.0):
    """run fn in a forked child with a hard kill timeout (the library swallows in-process alarms).
    returns ('ok', value) | ('raise', 'ExcName: msg') | ('hang', None).  The value must be picklable."""
    import multiprocessing as mp
    ctx = mp.get_context('fork')
    q = ctx.Queue()

    def target():
        try:
            q.put(('ok', fn(*args, **(kwargs or {}))))
        except BaseException as e:       # noqa
            q.put(('raise', '%s: %s' % (type(e).__name__, e)))
    p = ctx.Process(target=target)
    p.start()
    try:
        res = q.get(timeout=timeout)
    except Exception:
        res = ('hang', None)
    if p.is_alive():
        p.kill()
    p.join()
    return res


def implementation_identifiers(modules=('_dictable', '_dict', '_dictattr', '_perdictable')):
    """parameter names of every function and lambda in the given pyg_base modules, read from the source of the tree under test.  Tables and
    mappings hand their columns / items to callables by *name*; a column that happens to be called like a parameter of one of the
    implementation's own helpers (`lambda v: [v]`, `key`, `value`, `function` ...) is the input class that exposes a name leaking from the
    implementation into the data."""
    import ast, os, keyword
    src = os.path.join(os.environ.get('PYG_REPO', '/repo'), 'src', 'pyg_base')
    names = set()
    for m in modules:
        try:
            tree = ast.parse(open(os.path.join(src, m + '.py')).read())
        except (OSError, SyntaxError):
            continue
        for n in ast.walk(tree):
            if isinstance(n, (ast.Lambda, ast.FunctionDef)):
                a = n.args
                for q in a.posonlyargs + a.args + a.kwonlyargs:
                    names.add(q.arg)
    return sorted(n for n in names - {'self', 'cls'} if n.isidentifier() and not keyword.iskeyword(n))


def known_finding_keys(prop):
    """keys listed as `finding:` for this property in /verif/known_findings.txt (a native battery must not report those again)"""
    import os, re
    out = set()
    try:
        for line in open(os.path.join(os.path.dirname(os.path.dirname(os.path.abspath(__file__))), 'known_findings.txt')):
            m = re.match(r'finding:\s*property=(\S+)\s+(?:key=)?(\S+)', line)
            if m and m.group(1) == prop:
                out.add(m.group(2))
    except OSError:
        pass
    return out
