"""Replay for the deductive C03 obligations.  Counterexamples of these obligations are interpretations of uninterpreted pandas operations and
cannot be concretised; what is replayed is the clause: each obligation family maps to a fixed battery of discriminating native inputs
(indices of equal length and end points that differ inside, an empty series among others, frames with partially-NaN rows under ffill / bfill,
arrays longer / shorter / equal / truncated to zero) evaluated on the real code against the set-algebra / as-of oracle of the bounded stand-in
(rac/C03.py)."""
import warnings

from rac import C03 as B

KNOWN = set()          # none of the bounded module's input-class keys is a listed finding any more (all fixed): every key counts


def ser(idx, vals=None):
    return dict(ts=dict(idx=idx, cols=None, vals=[vals or [float(p + 1) for p in idx]]))


def frm(idx, cols, vals):
    return dict(ts=dict(idx=idx, cols=cols, vals=vals))


def _jobs(jobs):
    bad = []
    for job in jobs:
        bad += ['%s: %s' % (k, w) for k, w in B.run_job(job) if k not in KNOWN]
    return bad


IRREG = [ser([0, 1, 3, 4]), ser([0, 2, 3, 4]), ser([0, 1, 2, 4])]                    # same length, same first and last label, different inside
WITH_EMPTY = [ser([1, 2, 3]), ser([]), ser([2, 3, 4])]
PARTIAL = frm([0, 1, 3, 5], ['a', 'b'], [[1.0, 'nan', 3.0, 'nan'], [10.0, 20.0, 'nan', 40.0]])


def replay_index(call):
    jobs = []
    for tree in (IRREG, IRREG[:2], WITH_EMPTY, WITH_EMPTY[::-1], [ser([0, 1, 2]), ser([3, 4, 5])], [ser([1, 2, 3]), {'lit': 'x'}, {'d': {'k': ser([2, 3, 5])}}]):
        for join in B.JOINS + [[0, 2, 5]]:
            for fn in ('df_sync', 'df_reindex'):
                jobs.append(dict(fn=fn, tree=tree, join=join, method=None))
    jobs += [dict(fn='presync', tree=IRREG, join=j, method=None) for j in B.JOINS]
    return _jobs(jobs)


def replay_reducing(call):
    from pyg_base import reducing
    bad = []
    cat = lambda x, y: '(%s%s)' % (x, y)
    if reducing(cat)(['a', 'b', 'c']) != '((ab)c)' or reducing(cat)('a', 'b') != '(ab)' or reducing('__add__')([1, 2, 3, 4]) != 10 or reducing(cat)([], default='D') != 'D':
        bad.append('reducing does not fold from the left / apply once / use the default')
    return bad + replay_index(call)


def replay_reindex_pandas(call):
    jobs = []
    for method in (None, 'ffill', 'bfill'):
        for join in B.JOINS + [[0, 1, 2, 3, 4, 5], [1, 3, 5]]:
            jobs.append(dict(fn='df_sync', tree=[PARTIAL, ser([1, 2, 4], [1.0, 'nan', 5.0])], join=join, method=method))
            jobs.append(dict(fn='df_reindex', tree=[IRREG[0], IRREG[1]], join=join, method=method))
            jobs.append(dict(fn='df_reindex', tree=PARTIAL, join=join if isinstance(join, list) else [0, 1, 2, 3, 4, 5], method=method))
    return _jobs(jobs)


def replay_reindex_numpy(call):
    jobs = []
    arrs = [{'arr1': [1.0, 2.0, 3.0, 4.0]}, {'arr1': [5.0, 'nan']}, {'arr': [[1.0, 2.0, 3.0], [4.0, 5.0, 6.0]]}, {'arr1': [7.0, 8.0, 9.0]}]
    for tree in (arrs, arrs[:2], arrs[::-1], [arrs[0], arrs[0]], [arrs[0], {'arr1': []}]):
        for join in B.JOINS:
            jobs.append(dict(fn='df_sync', tree=tree, join=join, method=None))
            jobs.append(dict(fn='df_reindex', tree=tree, join=join, method=None))
    return _jobs(jobs)


def replay_columns(call):
    fa = frm([0, 1, 2], ['a', 'b'], [[1.0, 2.0, 3.0], [4.0, 5.0, 6.0]])
    fb = frm([1, 2, 3], ['b', 'c'], [[7.0, 8.0, 9.0], [1.0, 1.0, 1.0]])
    one = frm([0, 1, 2], ['x'], [[1.0, 2.0, 3.0]])
    jobs = [dict(fn='df_sync', tree=tree, join=j, method=m, columns=c) for tree in ([fa, fb], [fa, fb, one, ser([0, 2])]) for j in ('ij', 'oj') for m in (None, 'ffill')
            for c in ('ij', 'oj', 'lj', 'rj')]
    return _jobs(jobs)


def _replay(call):
    kind = call.get('kind')
    fn = dict(df_index=replay_index, df_index_top=replay_index, np_index=replay_reindex_numpy, reducing=replay_reducing, df_reindex=replay_reindex_pandas,
              reindex_pandas=replay_reindex_pandas, reindex_numpy=replay_reindex_numpy, recolumn=replay_columns, df_sync=lambda c: replay_index(c) + replay_columns(c)).get(kind)
    if fn is None:
        return dict(fails=None, detail='no native battery for %r' % kind)
    warnings.filterwarnings('ignore')
    bad = fn(call)
    return dict(fails=bool(bad), detail=('; '.join(bad))[:600] if bad else 'the clause holds on the real code for the whole battery of this obligation family')


def replay(call):
    from rac.ded_cache import cached
    return cached(__name__, call, lambda: _replay(call), uses=(), deps=(__file__, B.__file__))
