"""C09 bounded stand-in: the property's clauses evaluated natively on the real dt_bump.
Oracles count day by day (business days) or do plain calendar arithmetic; nothing here reads the implementation."""
import datetime, random, re, calendar
from rac.common import Collector

D = datetime.datetime
DAY = datetime.timedelta(days=1)
T0, T1 = D(1900, 1, 1), D(2300, 1, 1)
UNITS = 'dwmqyhnsb'
K_MONO = 'C09:monotone:weekend-start-later-time-of-day'


def is_wd(t):
    return t.weekday() < 5


def roll(t):
    while not is_wd(t):
        t += DAY
    return t


def nth_weekday(t, n):
    """oracle by counting: from a weekend roll forward to Monday, then step n weekdays"""
    t = roll(t)
    step = DAY if n > 0 else -DAY
    k = abs(n)
    while k:
        t += step
        if is_wd(t):
            k -= 1
    return t


def month_shift(t, k):
    """oracle: move k months keeping the day when it exists, else roll the excess days into the following month"""
    tot = t.year * 12 + (t.month - 1) + k
    y, m = divmod(tot, 12)
    m += 1
    dim = calendar.monthrange(y, m)[1]
    if t.day <= dim:
        return D(y, m, t.day)
    y2, m2 = divmod(tot + 1, 12)
    return D(y2, m2 + 1, t.day - dim)


def expected(t, n, u):
    if u == 'b':
        return nth_weekday(t, n)
    if u == 'd':
        return t + n * DAY
    if u == 'w':
        return t + 7 * n * DAY
    if u == 'h':
        return t + datetime.timedelta(hours=n)
    if u == 'n':
        return t + datetime.timedelta(minutes=n)
    if u == 's':
        return t + datetime.timedelta(seconds=n)
    k = {'m': n, 'q': 3 * n, 'y': 12 * n}[u]
    return month_shift(t, k)


def check_token(c, dt_bump, t, n, u, call=None):
    tenor = '%d%s' % (n, u)
    call = call or dict(kind='token', ordinal=t.toordinal(), us=int((t - D(t.year, t.month, t.day)).total_seconds() * 10 ** 6), tenor=tenor)
    if u in 'mqy' and t != D(t.year, t.month, t.day):
        return True
    try:
        r = dt_bump(t, tenor)
    except Exception as e:          # noqa
        return c.check(False, 'C09:token:%s:raises' % u, 'dt_bump(%s,%r) raised %r' % (t, tenor, e), call)
    ok = c.check(r == expected(t, n, u), 'C09:token:%s:value' % u, 'dt_bump(%s,%r) = %s, expected %s' % (t, tenor, r, expected(t, n, u)), call)
    if u == 'b':
        ok &= c.check(is_wd(r), 'C09:token:b:weekday', 'dt_bump(%s,%r) = %s is not a weekday' % (t, tenor, r), call)
    return ok


def days_sample(rng, count):
    """start days covering every weekday / month end / leap day combination plus seeded random days"""
    days = []
    for y in (1900, 1999, 2000, 2001, 2004, 2100, 2299):
        for m in range(1, 13):
            for d in (1, 15, 28, calendar.monthrange(y, m)[1]):
                days.append(D(y, m, d))
    for k in range(14):
        days.append(D(2024, 2, 20) + k * DAY)
    span = (T1 - T0).days
    for _ in range(count):
        days.append(T0 + rng.randrange(span) * DAY)
    return days


def split_tokens(s):
    """independent tokenizer for the A1/A2 cross-check"""
    out = []
    m = re.match(r'^([-+]?[0-9]+)([dbwmqyhns])', s)
    while m:
        out.append((int(m.group(1)), m.group(2)))
        s = s[m.end():]
        m = re.match(r'^([-+]?[0-9]+)([dbwmqyhns])', s)
    return out, s


def run(tier, seed):
    from pyg_base import dt_bump
    import pyg_base._dates as _dates
    rng = random.Random(seed)
    quick = tier == 'quick'
    c = Collector('C09', 'start days: fixed grid (7 years x 12 months x {1,15,28,last}, 14 consecutive days) + %d seeded random days of 1900-2300; '
                  'n in [-60,60] (all for business days on the grid, sampled elsewhere); every unit letter; two/three-part compound tenors sampled; '
                  'a case is non-trivial when n != 0; distinct by (start, tenor)' % (150 if quick else 3000))
    days = days_sample(rng, 150 if quick else 3000)
    ns_all = list(range(-60, 61))
    for i, t in enumerate(days):
        ns = ns_all if (i % (6 if quick else 2) == 0) else rng.sample(ns_all, 12)
        for n in ns:
            for u in (UNITS if i % 3 == 0 or not quick else rng.sample(UNITS, 3) + ['b']):
                tt = t if u in 'mqy' else t + datetime.timedelta(seconds=rng.choice([0, 0, 3600 * 9 + 1, 86399]), microseconds=rng.choice([0, 999999]))
                check_token(c, dt_bump, tt, n, u)
                c.case((tt, n, u), nontrivial=n != 0, sample=dict(t=tt, tenor='%d%s' % (n, u)))
                # round trips
                if u in 'dwhns' or (u == 'b' and is_wd(tt)) or (u in 'mqy' and tt.day <= 28):
                    try:
                        back = dt_bump(dt_bump(tt, '%d%s' % (n, u)), '%d%s' % (-n, u))
                        c.check(back == tt, 'C09:roundtrip:%s' % u, 'dt_bump(dt_bump(%s,%d%s),%d%s) = %s' % (tt, n, u, -n, u, back),
                                dict(kind='lemma', which='roundtrip', unit=u, o=tt.toordinal(), us=0, n=n, iso=tt.isoformat()))
                    except Exception as e:      # noqa
                        c.check(False, 'C09:roundtrip:%s' % u, 'raised %r' % e)
        # ints and timedeltas
        n = rng.randrange(-60, 61)
        c.check(dt_bump(t, n) == t + n * DAY, 'C09:int', 'dt_bump(%s,%d)' % (t, n), dict(kind='int', o=t.toordinal(), us=0, n=n))
        td = datetime.timedelta(days=rng.randrange(-5, 6), seconds=rng.randrange(86400), microseconds=rng.randrange(10 ** 6))
        c.check(dt_bump(t, td) == t + td, 'C09:timedelta', 'dt_bump(%s,%r)' % (t, td))
        c.check(dt_bump(t, '%dd' % n) == dt_bump(t, n), 'C09:nd_equals_int', 'dt_bump(%s,"%dd")' % (t, n))
        c.case((t, 'scalar', n), sample=None)
        # business-day composition and monotonicity
        if is_wd(t):
            a, b = rng.randrange(0, 30), rng.randrange(0, 30)
            for sg in (1, -1):
                lhs = dt_bump(dt_bump(t, '%db' % (sg * a)), '%db' % (sg * b))
                rhs = dt_bump(t, '%db' % (sg * (a + b)))
                c.check(lhs == rhs, 'C09:compose:b', '%s: %db then %db = %s, %db = %s' % (t, sg * a, sg * b, lhs, sg * (a + b), rhs),
                        dict(kind='lemma', which='compose', unit='b', o=t.toordinal(), us=0, a=sg * a, b=sg * b))
        for n in rng.sample(ns_all, 6):
            for dlt, ua, ub in ((1, 0, 0), (2, 0, 0), (0, 0, 3600), (1, 7200, 3600), (3, 86399, 0)):
                ta = t + datetime.timedelta(seconds=ua)
                tb = t + dlt * DAY + datetime.timedelta(seconds=ub)
                if ta > tb:
                    continue
                ra, rb = dt_bump(ta, '%db' % n), dt_bump(tb, '%db' % n)
                key = 'C09:monotone:b'
                if not is_wd(ta) and ua > ub:
                    key = K_MONO
                c.check(ra <= rb, key, 'dt_bump(%s,%db)=%s > dt_bump(%s,%db)=%s' % (ta, n, ra, tb, n, rb),
                        dict(kind='lemma', which='monotone', unit='b', o=ta.toordinal(), us=ua * 10 ** 6, o2=tb.toordinal(), us2=ub * 10 ** 6, n=n))
                c.case((ta, tb, n, 'mono'))
    # compound tenors: parts applied left to right; A1/A2 against the real regex
    period = _dates.period
    for _ in range(400 if quick else 6000):
        k = rng.choice([2, 2, 3])
        parts = [(rng.randrange(-60, 61), rng.choice(UNITS)) for _ in range(k)]
        tenor = ''.join(('%+d%s' % p) if rng.random() < .3 else ('%d%s' % p) for p in parts)
        if not re.match(r'^[-+]?[0-9]', tenor):
            continue
        toks, rest = split_tokens(tenor)
        # abstraction cross-check: the repo's own regex yields the same token sequence
        s, mine = tenor.lower(), []
        while period.search(s) is not None:
            g = period.search(s).group()
            s = s[len(g):]
            mine.append((int(g[:-1]), g[-1]))
        c.check(mine == toks and s == rest, 'C09:A1A2:tokenisation', 'tenor %r: regex gives %r + %r, abstraction %r + %r' % (tenor, mine, s, toks, rest))
        t = rng.choice(days)
        seq = t
        try:
            for n, u in toks:
                seq = dt_bump(seq, '%d%s' % (n, u))
            got = dt_bump(t, tenor)
            c.check(got == seq, 'C09:compound:left_to_right', 'dt_bump(%s,%r) = %s but part by part = %s' % (t, tenor, got, seq),
                    dict(kind='compound', o=t.toordinal(), tenor=tenor))
        except Exception as e:      # noqa
            c.check(False, 'C09:compound:raises', 'dt_bump(%s,%r) raised %r' % (t, tenor, e))
        c.case((t, tenor), sample=dict(t=t, tenor=tenor))
    for nm, k in dict(spot=0, on=1, tn=2, sn=3).items():
        for t in days[:200]:
            c.check(dt_bump(t, nm) == nth_weekday(t, k) if k else dt_bump(t, nm) == roll(t), 'C09:named:%s' % nm, 'dt_bump(%s,%r)' % (t, nm),
                    dict(kind='token', ordinal=t.toordinal(), us=0, tenor=nm))
            c.case((t, nm))
    return c.result()


def replay(call):
    from pyg_base import dt_bump
    c = Collector('C09', 'replay')
    kind = call.get('kind')
    if kind == 'token':
        t = D.fromordinal(int(call['ordinal'])) + datetime.timedelta(microseconds=int(call.get('us') or 0))
        tenor = call['tenor']
        m = re.match(r'^(-?[0-9]+)([a-z])$', tenor)
        if m:
            check_token(c, dt_bump, t, int(m.group(1)), m.group(2), call)
        else:
            k = dict(spot=0, on=1, tn=2, sn=3).get(tenor.replace('/', ''), None)
            if k is not None:
                c.check(dt_bump(t, tenor) == (nth_weekday(t, k) if k else roll(t)), 'named', 'dt_bump(%s,%r) = %s' % (t, tenor, dt_bump(t, tenor)))
    elif kind == 'lemma':
        u = call['unit']
        Y, M, Dd = call.get('Y'), call.get('M'), call.get('D')
        t = D(Y, M, Dd) if Y and M and Dd else D.fromordinal(int(call['o']))
        t += datetime.timedelta(microseconds=int(call.get('us') or 0))
        if call['which'] == 'roundtrip':
            n = int(call['n'])
            back = dt_bump(dt_bump(t, '%d%s' % (n, u)), '%d%s' % (-n, u))
            c.check(back == t, 'roundtrip', 'dt_bump(dt_bump(%s,%d%s),%d%s) = %s' % (t, n, u, -n, u, back))
        elif call['which'] == 'compose':
            a, b = int(call['a']), int(call['b'])
            lhs = dt_bump(dt_bump(t, '%db' % a), '%db' % b)
            rhs = dt_bump(t, '%db' % (a + b))
            c.check(lhs == rhs, 'compose', '%s: %db then %db = %s but %db = %s' % (t, a, b, lhs, a + b, rhs))
        elif call['which'] == 'monotone':
            t2 = D.fromordinal(int(call['o2'])) + datetime.timedelta(microseconds=int(call.get('us2') or 0))
            n = int(call['n'])
            ra, rb = dt_bump(t, '%db' % n), dt_bump(t2, '%db' % n)
            c.check(not (t <= t2) or ra <= rb, 'monotone', 'dt_bump(%s,%db) = %s > dt_bump(%s,%db) = %s' % (t, n, ra, t2, n, rb))
    elif kind == 'int':
        t = D.fromordinal(int(call['o'])) + datetime.timedelta(microseconds=int(call.get('us') or 0))
        n = int(call['n'])
        c.check(dt_bump(t, n) == t + n * DAY, 'int', 'dt_bump(%s,%d) = %s' % (t, n, dt_bump(t, n)))
    elif kind == 'timedelta':
        t = D.fromordinal(int(call['o'])) + datetime.timedelta(microseconds=int(call.get('us') or 0))
        td = datetime.timedelta(days=int(call['dd']), microseconds=int(call['du']))
        c.check(dt_bump(t, td) == t + td, 'timedelta', 'dt_bump(%s,%r)' % (t, td))
    elif kind == 'compound':
        t = D.fromordinal(int(call['o']))
        toks, rest = split_tokens(call['tenor'].lower())
        seq = t
        for n, u in toks:
            seq = dt_bump(seq, '%d%s' % (n, u))
        c.check(dt_bump(t, call['tenor']) == seq, 'compound', 'dt_bump(%s,%r)' % (t, call['tenor']))
    else:
        return dict(fails=None, detail='no replay for kind %r' % kind)
    v = list(c.violations.values())
    return dict(fails=bool(v), detail=v[0]['what'] if v else 'all clauses hold on the real code for this input')
