"""Replay of solver counterexamples for the C07 obligations: the model's handles (identity, type tag, payload) are turned into
real Python objects - equal handles become one object, so two NaN handles are two distinct float('nan') objects - and the
property's clauses are evaluated natively on the real cmp / cmparr / sort.  One nesting level of tuples / lists (up to three
elements) is rebuilt; deeper models are reported as not concretisable."""
import datetime, math

NONE_T, BOOL_T, INT_T, FLOAT_T, STR_T, DT_T, TUPLE_T, LIST_T, DICT_T = range(9)


class Unbuildable(Exception):
    pass


class Builder:
    def __init__(self, call):
        self.m = call
        self.objs = {}
        ranks = sorted({v for k, v in call.items() if k.endswith('_s') and isinstance(v, int)
                        and call.get(k[:-2] + '_tag') == STR_T})
        self.strs = {r: chr(97 + i // 26) + chr(97 + i % 26) for i, r in enumerate(ranks)}      # fixed width: order preserving

    def get(self, p, nested=True):
        m = self.m
        if (p + '_tag') not in m:
            raise Unbuildable('no field %s_tag in the model' % p)
        ident, t = m.get(p + '_id'), m[p + '_tag']
        if t == NONE_T:
            return None
        if t == BOOL_T:
            return bool(m[p + '_b'])
        if ident in self.objs and self.objs[ident][0] == t:
            return self.objs[ident][1]
        if t == INT_T:
            v = int(m[p + '_i'])
        elif t == FLOAT_T:
            k = m[p + '_fk']
            v = float(m[p + '_r']) if k == 0 else float('nan') if k == 1 else float('inf') if k == 2 else float('-inf')
        elif t == STR_T:
            v = self.strs[m[p + '_s']]
        elif t == DT_T:
            v = datetime.datetime.fromordinal(int(m[p + '_do'])) + datetime.timedelta(microseconds=int(m[p + '_du']))
        elif t in (TUPLE_T, LIST_T):
            n = int(m[p + '_len'])
            if not nested or n > 3:
                raise Unbuildable('%s is a container the replay cannot rebuild (len %d, nesting)' % (p, n))
            items = [self.get('%s%d' % (p, k), nested=False) for k in range(n)]
            v = tuple(items) if t == TUPLE_T else items
        else:
            raise Unbuildable('tag %r' % t)
        self.objs[ident] = (t, v)
        return v


def _isnan(v):
    return isinstance(v, float) and math.isnan(v)


def _finite(v):
    return (isinstance(v, int) and not isinstance(v, bool)) or (isinstance(v, float) and not math.isnan(v) and not math.isinf(v))


def _has_nan_oracle(v):
    if isinstance(v, (list, tuple)):
        return any(_has_nan_oracle(i) for i in v)
    return _isnan(v)


def replay_sort(call):
    from pyg_base._sort import cmp, sort, _has_nan
    b = Builder(call)
    kind = call.get('kind', '')
    try:
        x = b.get('x')
        y = b.get('y') if 'y_tag' in call else None
    except Unbuildable as e:
        return dict(fails=None, detail='model not concretisable: %s' % e)
    try:
        if kind == 'has_nan':
            got, exp = _has_nan(x), _has_nan_oracle(x)
            return dict(fails=got != exp, detail='_has_nan(%r) = %r, expected %r' % (x, got, exp))
        if kind.startswith('sort.lemma'):
            if _has_nan_oracle(x) or _has_nan_oracle(y):
                return dict(fails=False, detail='NaN present: outside the lemma')
            c = cmp(x, y)
            try:
                lt = x < y
            except TypeError:
                return dict(fails=False, detail='native < undefined on %r, %r' % (x, y))
            same = x is y or x == y
            bad = (bool(lt) != (c < 0)) or (not isinstance(x, (list, tuple)) and (same != (c == 0)))
            return dict(fails=bad, detail='x=%r y=%r: x<y is %r, x==y is %r, cmp(x,y) = %r' % (x, y, lt, same, c))
        if not isinstance(x, (list, tuple)):
            return dict(fails=False, detail='sort input is not a list in the model')
        res = sort(x)
        probs = []
        if sorted(map(id, res)) != sorted(map(id, x)):
            probs.append('not a permutation (by identity)')
        for i in range(len(res) - 1):
            if cmp(res[i], res[i + 1]) > 0:
                probs.append('cmp(res[%d], res[%d]) = 1' % (i, i + 1))
        return dict(fails=bool(probs), detail='sort(%r) = %r: %s' % (x, res, '; '.join(probs) or 'permutation, non-decreasing under cmp'))
    except Exception as e:      # noqa
        return dict(fails=True, detail='%s raised %r on %r' % (kind, e, x))


def replay_table(call):
    """dictable.sort on a one-key-column table built from the model's key list (the keys of the rows are the values x0, x1, ...)"""
    from pyg_base import dictable
    from pyg_base._sort import cmp
    b = Builder(call)
    try:
        n = int(call.get('N', call.get('x_len', 0)))
        if n > 3:
            raise Unbuildable('%d rows' % n)
        keys = [b.get('x%d' % k, nested=False) for k in range(n)]
    except Unbuildable as e:
        return dict(fails=None, detail='model not concretisable: %s' % e)
    try:
        d = dictable(k=keys, row=list(range(n)))
        r = d.sort('k')
        rows = list(r.row) if n else []
        probs = []
        if sorted(rows) != list(range(n)) or len(r) != n:
            probs.append('rows %r are not a permutation of the %d rows' % (rows, n))
        else:
            if [id(v) for v in r.k] != [id(keys[i]) for i in rows]:
                probs.append('columns are not permuted alike')
            for a in range(n - 1):
                c = cmp((keys[rows[a]],), (keys[rows[a + 1]],))
                if c > 0 or (c == 0 and rows[a] > rows[a + 1]):
                    probs.append('rows %d,%d out of order / tie not in original order' % (rows[a], rows[a + 1]))
            again = list(r.sort('k').row)
            if again != rows:
                probs.append('not idempotent: %r then %r' % (rows, again))
        return dict(fails=bool(probs), detail='dictable(k=%r).sort("k") gives rows %r: %s' % (keys, rows, '; '.join(probs) or 'stable, ordered by cmp'))
    except Exception as e:      # noqa
        return dict(fails=True, detail='dictable(k=%r).sort("k") raised %r' % (keys, e))


def _same_leaves(r, v):
    """r is v itself for a scalar; for a tuple / list a container of the same class and length whose elements have the same leaves"""
    if isinstance(v, (tuple, list)):
        return type(r) is type(v) and len(r) == len(v) and all(_same_leaves(p, q) for p, q in zip(r, v))
    return r is v


def replay_as_primitive(call):
    """as_primitive on the model's value (when it can be rebuilt) and on a fixed battery of the deductive universe: every scalar must come back as
    the very same object, tuples / lists as containers of the same class and shape with the very same leaves; nothing may raise"""
    from pyg_base._as_primitive import as_primitive
    D_ = datetime.datetime
    nan = float('nan')
    big = 2 ** 53
    scalars = [None, True, False, 0, 1, -7, big, -big, 0.0, -0.0, 1.5, nan, float('inf'), float('-inf'), '', 'a', 'ab', D_(2000, 1, 1), D_(2024, 2, 29, 13, 5, 7, 11)]
    battery = list(scalars) + [(), [], (1, 'a', None), [nan, (2.5, [True, D_(2001, 1, 1)])], ([], ()), [[1], [2.0, 'x']]]
    try:
        battery.insert(0, Builder(call).get('x'))
    except (Unbuildable, KeyError, TypeError, ValueError):
        pass
    probs = []
    for v in battery:
        try:
            r = as_primitive(v)
        except Exception as e:      # noqa
            probs.append('as_primitive(%r) raised %r' % (v, e))
            continue
        if not _same_leaves(r, v):
            probs.append('as_primitive(%r) = %r (%s): not the same object / not the same leaves' % (v, r, type(r).__name__))
    return dict(fails=bool(probs), detail='; '.join(probs[:3]) if probs else 'as_primitive returns the very same leaves on %d values of the universe' % len(battery))


def replay(call):
    from pyg_base._sort import cmp, cmparr
    if call.get('kind', '') == 'as_primitive':
        return replay_as_primitive(call)
    if call.get('kind', '') == 'dictable.sort':
        return replay_table(call)
    if call.get('kind', '') in ('sort', 'has_nan') or call.get('kind', '').startswith('sort.lemma'):
        return replay_sort(call)
    b = Builder(call)
    try:
        x, y = b.get('x'), b.get('y')
        z = b.get('z') if 'z_tag' in call else None
    except Unbuildable as e:
        return dict(fails=None, detail='model not concretisable: %s' % e)
    have_z = 'z_tag' in call
    kind = call.get('kind', '')
    probs = []

    def c(a, bb):
        return cmp(a, bb)
    try:
        if kind == 'cmparr':
            if not (isinstance(x, (list, tuple)) and isinstance(y, (list, tuple))):
                return dict(fails=False, detail='not sequences')
            got = cmparr(x, y)
            exp = 0
            for p, q in zip(x, y):
                exp = cmp(p, q)
                if exp != 0:
                    break
            if got != exp:
                probs.append('cmparr(%r,%r) = %r, first non-zero element comparison is %r' % (x, y, got, exp))
        else:
            r1, r2 = c(x, y), c(y, x)
            if r1 not in (-1, 0, 1):
                probs.append('cmp(%r,%r) = %r not in {-1,0,1}' % (x, y, r1))
            if r1 != -r2:
                probs.append('cmp(%r,%r) = %r but cmp(%r,%r) = %r' % (x, y, r1, y, x, r2))
            if x is y and r1 != 0:
                probs.append('cmp(v, v) = %r for v = %r' % (r1, x))
            if isinstance(x, int) and not isinstance(x, bool) and isinstance(y, float) and _finite(y) and x == y and r1 != 0:
                probs.append('cmp(%r,%r) = %r for numerically equal int and float' % (x, y, r1))
            if _isnan(x) and _finite(y) and r1 != 1:
                probs.append('cmp(nan,%r) = %r, NaN must rank above every finite number' % (y, r1))
            if _isnan(y) and _finite(x) and r1 != -1:
                probs.append('cmp(%r,nan) = %r, NaN must rank above every finite number' % (x, r1))
            if _isnan(x) and _isnan(y) and r1 != 0:
                probs.append('cmp(nan,nan) = %r for two NaN objects' % r1)
            if have_z:
                r3, r4 = c(y, z), c(x, z)
                if r1 <= 0 and r3 <= 0 and not r4 <= 0:
                    probs.append('not transitive: cmp(x,y)=%r cmp(y,z)=%r cmp(x,z)=%r for x=%r y=%r z=%r' % (r1, r3, r4, x, y, z))
                if r1 <= 0 and r3 <= 0 and (r1 < 0 or r3 < 0) and not r4 < 0:
                    probs.append('not strictly transitive: cmp(x,y)=%r cmp(y,z)=%r cmp(x,z)=%r for x=%r y=%r z=%r' % (r1, r3, r4, x, y, z))
    except Exception as e:      # noqa
        return dict(fails=True, detail='cmp raised %r on x=%r y=%r%s' % (e, x, y, (' z=%r' % (z,)) if have_z else ''))
    return dict(fails=bool(probs), detail='; '.join(probs) if probs else 'the laws hold on x=%r y=%r%s' % (x, y, (' z=%r' % (z,)) if have_z else ''))
