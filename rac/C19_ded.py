"""Native re-check of failed C19 deductive / frame obligations.  The obligations live in abstractions (ownership levels, an uninterpreted value
sort with container tags), so a counterexample is looked for on the real code over a small enumerated scope that exercises the same clause.
replay(call) -> dict(fails=bool, detail=str); runs under /venv/bin/python with the real pyg_base importable."""
import copy, itertools

ATOMS = [None, 5, 'ab', [], [1], [1, 2], (), (1,), (1, 2), ([1, 2],), ([1, 2], 3), [[1, 2]], [[1], [2]], ((1, 2),), ([],), [[]], [(1, 2)], range(3), range(0),
         ([[1, 2]],), [[[1]]], (None,), [None], ('ab',), 0, '', (([1],),), {'a': 1}, ({'a': 1},), [{'a': 1}]]


def same(a, b):
    if type(a) is not type(b):
        return False
    if isinstance(a, (list, tuple)):
        return len(a) == len(b) and all(same(x, y) for x, y in zip(a, b))
    if isinstance(a, dict):
        return list(a) == list(b) and all(same(a[k], b[k]) for k in a)
    return a == b


def as_list_check(call):
    from pyg_base import as_list, as_tuple
    name = call.get('name') or 'as_list'
    fn, tp = (as_list, list) if name == 'as_list' else (as_tuple, tuple)
    for v in ATOMS:
        for none in (False, True):
            try:
                once = fn(copy.deepcopy(v), none)
                twice = fn(once, none)
            except Exception as e:      # noqa
                return dict(fails=True, detail='%s(%r, %r) raised %r' % (name, v, none, e))
            if type(once) is not tp:
                return dict(fails=True, detail='%s(%r, %r) = %r is not a %s' % (name, v, none, once, tp.__name__))
            w = v[0] if isinstance(v, tuple) and len(v) == 1 and isinstance(v[0], list) else v
            known = name == 'as_tuple' and isinstance(w, list) and len(w) == 1 and isinstance(w[0], list)
            if not same(once, twice) and not known and not isinstance(v, range):
                return dict(fails=True, detail='%s(%r) = %r but applied again = %r' % (name, v, once, twice))
            # exact summary
            if v is None:
                exp = [None] if none else []
            elif isinstance(v, tuple) and len(v) == 1 and isinstance(v[0], list):
                exp = list(v[0])
            elif isinstance(v, (list, tuple, range)):
                exp = list(v)
            else:
                exp = [v]
            if list(once) != exp:
                return dict(fails=True, detail='%s(%r, %r) = %r, expected the elements %r' % (name, v, none, once, exp))
            if name == 'as_list' and isinstance(v, list) and once is not v:
                pass
    return dict(fails=False, detail='%s agrees with its summary and is idempotent on %d values' % (name, len(ATOMS)))


def as_tuple_known(call):
    from pyg_base import as_tuple
    once = as_tuple([[1, 2]])
    twice = as_tuple(once)
    return dict(fails=once != twice, detail='as_tuple([[1, 2]]) = %r, applied again = %r' % (once, twice))


SEQS = [5, 'ab', None, [], [1], [1, 2], [1, 2, 3], (7,), (7, 8), (7, 8, 9), range(2), {'a': 1, 'b': 2}]


def lens_check(call):
    from pyg_base import lens
    for k in (0, 1, 2, 3):
        for vals in itertools.product(SEQS, repeat=k):
            ls = [len(v) if isinstance(v, (list, tuple, range, dict)) else 0 for v in vals]
            L = set(ls) - {1}
            try:
                got = lens(*vals)
            except ValueError:
                if len(L) <= 1:
                    return dict(fails=True, detail='lens%r raised ValueError although the lengths %r agree' % (vals, ls))
                continue
            except Exception as e:      # noqa
                return dict(fails=True, detail='lens%r raised %r' % (vals, e))
            exp = 0 if k == 0 else (list(L)[0] if len(L) == 1 else 1)
            if len(L) > 1 or got != exp:
                return dict(fails=True, detail='lens%r = %r, lengths %r, expected %s' % (vals, got, ls, 'ValueError' if len(L) > 1 else exp))
    return dict(fails=False, detail='lens agrees with its specification on all tuples of <= 3 values')


def zipper_check(call):
    from pyg_base import zipper
    for k in (0, 1, 2, 3):
        for vals in itertools.product(SEQS, repeat=k):
            seqs = [list(v) if isinstance(v, (list, tuple, range, dict)) else [v] for v in vals]
            L = set(len(s) for s in seqs) - {1}
            try:
                got = list(zipper(*[copy.deepcopy(v) for v in vals]))
            except ValueError:
                if len(L) <= 1:
                    return dict(fails=True, detail='zipper%r raised ValueError although all lengths other than 1 agree' % (vals,))
                continue
            except Exception as e:      # noqa
                return dict(fails=True, detail='zipper%r raised %r' % (vals, e))
            if len(L) > 1:
                return dict(fails=True, detail='zipper%r = %r although the lengths differ' % (vals, got))
            n = 0 if k == 0 else (list(L)[0] if L else 1)
            exp = [tuple(s[i] if len(s) == n else s[0] for s in seqs) for i in range(n)]
            if got != exp:
                return dict(fails=True, detail='zipper%r = %r, expected %r' % (vals, got, exp))
    return dict(fails=False, detail='zipper agrees with its specification on all tuples of <= 3 values')


def _lift(x, comps, kw, f, types):
    """oracle: map f over the nesting of x; a companion of the same length / keys is matched, anything else broadcast"""
    if isinstance(x, dict) and type(x) in types:
        return type(x)({k: _lift(v, [c[k] if isinstance(c, dict) and sorted(c) == sorted(x) else c for c in comps],
                                 {q: (c[k] if isinstance(c, dict) and sorted(c) == sorted(x) else c) for q, c in kw.items()}, f, types) for k, v in x.items()})
    if isinstance(x, types) and not isinstance(x, dict):
        n = len(x)
        sel = lambda c, i: c[i] if isinstance(c, (list, tuple)) and len(c) == n else c
        return type(x)([_lift(v, [sel(c, i) for c in comps], {q: sel(c, i) for q, c in kw.items()}, f, types) for i, v in enumerate(x)])
    return f(x, *comps, **kw)


def wrapped_check(call):
    from pyg_base import loop
    f = lambda x, y=0, z=0: (x, y, z)
    firsts = [1, [1, 2], (1, 2), [[1, 2], [3, 4]], {'a': 1, 'b': 2}, {'a': [1, 2], 'b': [3, 4]}, [{'a': 1}, {'a': 2}], ([1, 2], [3, 4]), [], {}]
    comps = [10, [10, 20], (10, 20), [[10, 20], [30, 40]], {'a': 10, 'b': 20}, {'a': [10, 20], 'b': [30, 40]}, 'txt', None, [10, 20, 30]]
    for types in ((list, tuple, dict), (list,), (dict,)):
        g = loop(*types)(f)
        tps = g.types
        for x in firsts:
            for c in comps:
                for mode in ('pos', 'kw', 'both'):
                    if isinstance(c, list) and len(c) == 3:
                        continue                                   # unmatched container holding containers: the recorded finding's neighbourhood
                    a, kw = ([c], {}) if mode == 'pos' else ([], dict(y=c)) if mode == 'kw' else ([c], dict(z=c))
                    x0, c0 = copy.deepcopy(x), copy.deepcopy(c)
                    try:
                        got = g(x, *a, **kw)
                        exp = _lift(x0, copy.deepcopy(a), copy.deepcopy(kw), f, tps)
                    except Exception as e:      # noqa
                        return dict(fails=True, detail='loop%r(f)(%r, *%r, **%r) raised %r' % (tuple(t.__name__ for t in types), x0, a, kw, e))
                    if not same(got, exp):
                        return dict(fails=True, detail='loop%r(f)(%r, *%r, **%r) = %r, expected %r' % (tuple(t.__name__ for t in types), x0, a, kw, got, exp))
                    if x != x0 or c != c0:
                        return dict(fails=True, detail='the lifted call changed its arguments: %r -> %r, %r -> %r' % (x0, x, c0, c))
    return dict(fails=False, detail='lifted calls agree with the element-wise oracle on %d x %d argument pairs' % (len(firsts), len(comps)))


def item_by_check(call):
    from pyg_base._loop import _item_by_i, _item_by_key
    vals = [5, 'ab', None, [1, 2], (1, 2), [1, 2, 3], [[1, 2], [3, 4], [5, 6]], {'a': 1, 'b': 2}, []]
    for v in vals:
        for n in (2, 3):
            for i in range(n):
                got = _item_by_i(copy.deepcopy(v), i, n)
                if isinstance(v, (list, tuple)) and len(v) == n:
                    exp = v[i]
                elif isinstance(v, (list, tuple)):
                    exp = type(v)([_item_by_i(x, i, n) for x in v])
                else:
                    exp = v
                if not same(got, exp):
                    return dict(fails=True, detail='_item_by_i(%r, %d, %d) = %r, expected %r' % (v, i, n, got, exp))
    keys = ['a', 'b']
    for v in vals + [{'b': 5, 'a': 6}, {'x': {'a': 1, 'b': 2}, 'y': 3}]:
        for key in keys:
            got = _item_by_key(copy.deepcopy(v), key, keys)
            if isinstance(v, dict) and sorted(v) == keys:
                exp = v[key]
            elif isinstance(v, dict):
                exp = type(v)({k: _item_by_key(x, key, keys) for k, x in v.items()})
            else:
                exp = v
            if not same(got, exp):
                return dict(fails=True, detail='_item_by_key(%r, %r, %r) = %r, expected %r' % (v, key, keys, got, exp))
    return dict(fails=False, detail='_item_by_i / _item_by_key agree with their contracts on the sample')


def frame_check(call):
    """linearity / frame of loops._wrapped: depth-2 nestings with positional companions must not exhaust a generator, arguments must not change"""
    r = wrapped_check(call)
    if r['fails']:
        return r
    from pyg_base import loop
    g = loop(list)(lambda x, y: (x, y))
    try:
        got = g([[1, 2], [3, 4]], [[10, 20], [30, 40]])
    except Exception as e:      # noqa
        return dict(fails=True, detail='loop(list)(f)([[1,2],[3,4]], [[10,20],[30,40]]) raised %r' % e)
    return dict(fails=got != [[(1, 10), (2, 20)], [(3, 30), (4, 40)]], detail='depth-2 positional companions: %r' % (got,))


def predicates_check(call):
    """is_iterable / len0 on one value of every class of the value datatype (None, list, tuple, the four range-like kinds, dict, strings, other scalars):
    is_iterable is True exactly for list / tuple / range-like / dict; len0 is len(x) for the sized containers and 0 for None, strings, scalars and zip objects"""
    import datetime
    from pyg_base._types import is_iterable
    from pyg_base._loop import len0
    d = {'a': 1, 'b': 2}
    mk = [lambda: None, lambda: [], lambda: [1, 2], lambda: (), lambda: (1, 2, 3), lambda: range(0), lambda: range(4), lambda: d.keys(), lambda: d.values(),
          lambda: zip([1, 2], [3, 4]), lambda: zip(), lambda: {}, lambda: dict(d), lambda: '', lambda: 'abc', lambda: 0, lambda: 5, lambda: 2.5, lambda: float('nan'),
          lambda: True, lambda: datetime.datetime(2020, 1, 1), lambda: len]
    bad = []
    for f in mk:
        v = f()
        container = isinstance(v, (list, tuple, range, type(d.keys()), type(d.values()), zip, dict))
        want_len = len(v) if container and not isinstance(v, zip) else 0
        try:
            got_it, got_len = is_iterable(f()), len0(f())
        except Exception as e:      # noqa
            bad.append('%r: raised %r' % (v, e))
            continue
        if got_it is not container:
            bad.append('is_iterable(%r) = %r' % (v, got_it))
        if got_len != want_len or isinstance(got_len, bool):
            bad.append('len0(%r) = %r, expected %r' % (v, got_len, want_len))
    which = call.get('kind')
    bad = [b for b in bad if which is None or which in b or 'raised' in b] or []
    return dict(fails=bool(bad), detail='; '.join(bad[:4]) or 'is_iterable / len0 agree with their contract on %d values' % len(mk))


def wrapped_prelude_check(call):
    """loops.wrapped with positional arguments: the first one is looped over, the other positionals and the keywords are its companions"""
    from pyg_base import loop

    @loop(list, tuple)
    def f(a, b=0, c=0):
        return (a, b, c)
    cases = [((3,), {}, (3, 0, 0)), (([1, 2],), {}, [(1, 0, 0), (2, 0, 0)]), (([1, 2], 10), {}, [(1, 10, 0), (2, 10, 0)]),
             (([1, 2], [10, 20]), dict(c=[5, 6]), [(1, 10, 5), (2, 20, 6)]), (((1, [2]), 7, 8), {}, ((1, 7, 8), [(2, 7, 8)])),
             ((4, [1, 2]), {}, (4, [1, 2], 0)), (([], 1), dict(c=2), [])]
    bad = []
    for args, kw, want in cases:
        try:
            got = f(*copy.deepcopy(args), **copy.deepcopy(kw))
        except Exception as e:      # noqa
            bad.append('f(*%r, **%r) raised %r' % (args, kw, e))
            continue
        if not same(got, want):
            bad.append('f(*%r, **%r) = %r, expected %r' % (args, kw, got, want))
    return dict(fails=bool(bad), detail='; '.join(bad[:3]) or 'a lifted function called with positional arguments loops over the first one (%d cases)' % len(cases))


def replay(call):
    kind = call.get('kind')
    if kind in ('is_iterable', 'len0'):
        return predicates_check(call)
    if kind == 'wrapped_prelude':
        return wrapped_prelude_check(call)
    fn = {'as_list': as_list_check, 'as_tuple_known': as_tuple_known, 'lens': lens_check, 'zipper': zipper_check, 'wrapped': wrapped_check,
          'item_by_i': item_by_check, 'item_by_key': item_by_check, 'frame': frame_check}.get(kind)
    if fn is None:
        return dict(fails=None, detail='no replay for kind %r' % kind)
    return fn(call)
