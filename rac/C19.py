"""C19 bounded stand-in: container lifting (loop / lower, upper, strip, proper, replace, split, f12, as_float), zipper / lens,
as_list / as_tuple, waiter under every completion order.

Structures are JSON-able specs: ['L', child, ...] list, ['T', ...] tuple, ['D', [[key, child], ...]] dict, ['DD', [[key, child], ...]]
pyg Dict; anything that is not a JSON list is a leaf.  For waiter ['A', i] is the i-th awaitable.
The lifting oracle is a plain recursion written from the statement: a further argument is matched element by element iff it is a
list/tuple of the same length (list/tuple first argument) or a dict with the same keys (dict first argument), everything else is
broadcast; leaves are f(leaf, companions)."""
import asyncio, functools, itertools, random
from rac.common import Collector

K_D5 = 'C19:nested-positional-companion:raises'
K_D5V = 'C19:nested-positional-companion:value'
K_INNER = 'C19:lift:value:unmatched-companion-holding-a-matching-container'


# ----------------------------------------------------------------------------------------------- specs
def is_spec(s):
    return isinstance(s, list)


def build(s, leaf=lambda v: v):
    if not is_spec(s):
        return leaf(s)
    k = s[0]
    if k == 'L':
        return [build(i, leaf) for i in s[1:]]
    if k == 'T':
        return tuple(build(i, leaf) for i in s[1:])
    if k in ('D', 'DD'):
        d = {key: build(v, leaf) for key, v in s[1]}
        if k == 'DD':
            from pyg_base import Dict
            return Dict(d)
        return d
    if k == 'A':
        return leaf(s)
    raise ValueError(s)


def children(s):
    return [v for _, v in s[1]] if s[0] in ('D', 'DD') else s[1:]


def with_children(s, kids):
    return [s[0], [[k, v] for (k, _), v in zip(s[1], kids)]] if s[0] in ('D', 'DD') else [s[0]] + list(kids)


def depth(s):
    return 0 if not is_spec(s) or s[0] == 'A' else 1 + max([depth(i) for i in children(s)], default=0)


def map_leaves(s, fn, counter=None):
    counter = counter if counter is not None else [0]
    if not is_spec(s) or s[0] == 'A':
        counter[0] += 1
        return fn(counter[0] - 1, s)
    return with_children(s, [map_leaves(i, fn, counter) for i in children(s)])


def _compositions(n, k):
    if k == 0:
        if n == 0:
            yield ()
        return
    if k == 1:
        if n >= 1:
            yield (n,)
        return
    for i in range(1, n - k + 2):
        for r in _compositions(n - i, k - 1):
            yield (i,) + r


@functools.lru_cache(None)
def shapes(m, d, kinds='LTD', root=True):
    """every structure with exactly m nodes (a node = a container or a leaf), nesting <= d, container kinds from `kinds`;
    leaves are the placeholder 0; a root is always a container; as JSON strings (lru_cache wants hashables)"""
    import json
    out = []
    if m == 1 and not root:
        out.append(json.dumps(0))
    if d >= 1:
        for j in range(0, m):
            for comp in _compositions(m - 1, j):
                opts = [shapes(c, d - 1, kinds, False) for c in comp]
                for choice in itertools.product(*opts):
                    kids = [json.loads(x) for x in choice]
                    for k in kinds:
                        out.append(json.dumps(['D', [['k%d' % i, v] for i, v in enumerate(kids)]] if k == 'D' else [k] + kids))
    return tuple(out)


def random_struct(rng, d, kinds=('L', 'T', 'D', 'L', 'D', 'DD'), leaf=0, p_leaf=.3, width=(0, 1, 2, 2, 3)):
    if d == 0 or rng.random() < p_leaf:
        return leaf
    k = rng.choice(kinds)
    kids = [random_struct(rng, d - 1, kinds, leaf, p_leaf, width) for _ in range(rng.choice(width))]
    return [k, [['k%d' % i, v] for i, v in enumerate(kids)]] if k in ('D', 'DD') else [k] + kids


def strict_same(a, b):
    """same container types at every level, == at the leaves"""
    if isinstance(a, (list, tuple)) or isinstance(b, (list, tuple)):
        return type(a) is type(b) and len(a) == len(b) and all(strict_same(x, y) for x, y in zip(a, b))
    if isinstance(a, dict) or isinstance(b, dict):
        return type(a) is type(b) and list(a.keys()) == list(b.keys()) and all(strict_same(a[k], b[k]) for k in a)
    return type(a) is type(b) and a == b


# ----------------------------------------------------------------------------------------------- lifting oracle
def holds_match(a, test):
    """does the unmatched container a hold (at any depth) a container that would match?"""
    kids = list(a.values()) if isinstance(a, dict) else list(a) if isinstance(a, (list, tuple)) else []
    return any(test(k) or holds_match(k, test) for k in kids)


def lift(f, x, pos, kw, flag):
    if isinstance(x, (list, tuple)):
        n = len(x)
        test = lambda a: isinstance(a, (list, tuple)) and len(a) == n      # noqa
        sel = lambda a, i: a[i] if test(a) else a                          # noqa
        if n and any(not test(a) and holds_match(a, test) for a in list(pos) + list(kw.values())):
            flag.append(1)
        return type(x)([lift(f, x[i], [sel(a, i) for a in pos], {k: sel(v, i) for k, v in kw.items()}, flag) for i in range(n)])
    if isinstance(x, dict):
        keys = set(x.keys())
        test = lambda a: isinstance(a, dict) and set(a.keys()) == keys     # noqa
        sel = lambda a, k: a[k] if test(a) else a                          # noqa
        if keys and any(not test(a) and holds_match(a, test) for a in list(pos) + list(kw.values())):
            flag.append(1)
        return type(x)({k: lift(f, x[k], [sel(a, k) for a in pos], {kk: sel(v, k) for kk, v in kw.items()}, flag) for k in x})
    return f(x, *pos, **kw)


# ----------------------------------------------------------------------------------------------- functions under lifting
def _user(n):
    return eval('lambda x, %s: ("f", x, %s)' % (', '.join('y%d' % i for i in range(n)), ', '.join('y%d' % i for i in range(n)))) if n else (lambda x: ('f', x))


def functions():
    """name -> (lifted callable, leaf function used by the oracle, leaf pool)"""
    import pyg_base as pb
    text = [' Ab c ', 'x,Y z', None, 5, 'hello world', 1.5, '']
    out = {}
    for n in (0, 1, 2):
        raw = _user(n)
        out['user%d' % n] = (pb.loop(list, tuple, dict)(raw), raw, [1, 'a', None, 2.5, 'b', 7])
    for name in ('lower', 'upper', 'strip', 'proper', 'replace', 'split'):
        out[name] = (getattr(pb, name), getattr(pb, name), text)
    out['f12'] = (pb.f12, pb.f12, [1.234, 2, 'a', None, 0.5])
    out['as_float'] = (pb.as_float, pb.as_float, ['1k', '2%', 'abc', None, 5, '1,000', '3.5m'])
    return out


ANCHORS = [('lower', ('AbC',), 'abc'), ('upper', ('AbC',), 'ABC'), ('strip', (' a b ',), 'a b'), ('proper', ('hello world',), 'Hello World'), ('lower', (5,), 5), ('upper', (None,), None),
           ('replace', ('a b c', ' ', '_'), 'a_b_c'), ('replace', ('a b', ' '), 'ab'), ('split', ('a b',), ['a', 'b']), ('split', ('a,b', ','), ['a', 'b']), ('f12', (1.234,), '1.23'), ('f12', ('a',), 'a'),
           ('as_float', ('1k',), 1000.0), ('as_float', ('2%',), 0.02), ('as_float', ('1,000',), 1000.0), ('as_float', ('abc',), 'abc'), ('as_float', (5,), 5), ('as_float', ('3.5m',), 3500000.0)]

COMPANION_NAMES = dict(user1=['y0'], user2=['y0', 'y1'], replace=['old', 'new'], split=['sep'])
COMPANION_LEAVES = dict(user1=[10, 'q', None], user2=[10, 'q', None], replace=[' ', ',', 'b'], split=[' ', ','])


def companion_spec(kind, spec, leaves, rng):
    """a companion argument for the first argument `spec`"""
    cyc = lambda off: (lambda i, _: leaves[(i + off) % len(leaves)])      # noqa
    top = children(spec)
    if kind == 'scalar':
        return leaves[0]
    if kind == 'same-shape':
        return map_leaves(spec, cyc(1))
    if kind == 'longer-flat':            # a list one longer than the first argument, holding scalars: broadcast as a whole
        return ['L'] + [leaves[i % len(leaves)] for i in range(len(top) + 1)]
    if kind == 'top-only':               # matches at the top level, scalars below
        return with_children(spec, [leaves[i % len(leaves)] for i in range(len(top))])
    if kind == 'other-kind':             # same length / keys but list <-> tuple at the top, or a dict with other keys
        if spec[0] in ('D', 'DD'):
            return ['D', [['zz%d' % i, leaves[i % len(leaves)]] for i in range(len(top))]]
        return [dict(L='T', T='L')[spec[0]]] + [leaves[i % len(leaves)] for i in range(len(top))]
    if kind == 'overlapping-keys':       # a dict of the same size sharing some but not all keys (a list: one element shorter): broadcast as a whole
        if spec[0] in ('D', 'DD') and len(top) >= 2:
            keys = [k for k, _ in spec[1]]
            return ['D', [[keys[0], leaves[0]]] + [['zz%d' % i, leaves[i % len(leaves)]] for i in range(1, len(top))]]
        if spec[0] in ('D', 'DD'):
            return ['D', [['zz0', leaves[0]]]]
        return [spec[0]] + [leaves[i % len(leaves)] for i in range(max(len(top) - 1, 0))] if len(top) != 2 else [spec[0]] + [leaves[0], leaves[1], leaves[0]]
    if kind == 'deep-mismatch':          # same shape but one inner container has one more element
        done = [False]

        def grow(s, lvl):
            if is_spec(s) and lvl > 0 and not done[0] and s[0] in ('L', 'T'):
                done[0] = True
                return s + [leaves[0]]
            if is_spec(s):
                return with_children(s, [grow(i, lvl + 1) for i in children(s)])
            return s
        return grow(map_leaves(spec, cyc(2)), 0)
    if kind == 'inner-match':            # different length / keys at the top, but holding containers with the matching length / keys
        inner = with_children(spec, [leaves[i % len(leaves)] for i in range(len(top))])
        if spec[0] in ('D', 'DD'):
            return ['D', [['zz', inner]]]
        return ['L'] + [inner] * (len(top) + 1)
    raise ValueError(kind)


KINDS = ['scalar', 'same-shape', 'longer-flat', 'top-only', 'other-kind', 'deep-mismatch', 'inner-match', 'overlapping-keys']


def check_lift(c, fname, spec, comps, offset=0):
    """comps: list of [name, 'pos' | 'kw', companion spec]; positional ones come first and in parameter order"""
    lifted, leaf_f, pool = functions()[fname]
    leaf = lambda i, _: pool[(i + offset) % len(pool)]       # noqa
    xs = map_leaves(spec, leaf)
    call = dict(kind='lift', f=fname, spec=spec, comps=comps, offset=offset)
    x = build(xs)
    pos = [build(s) for _, how, s in comps if how == 'pos']
    kw = {n: build(s) for n, how, s in comps if how == 'kw'}
    txt = '%s(%r%s%s)' % (fname if not fname.startswith('user') else 'loop(list,tuple,dict)(lambda x,*y: ("f",x,*y))', x,
                          ''.join(', %r' % (a,) for a in pos), ''.join(', %s=%r' % (k, v) for k, v in kw.items()))
    flag = []
    try:
        exp = lift(leaf_f, build(xs), [build(s) for _, how, s in comps if how == 'pos'], {n: build(s) for n, how, s in comps if how == 'kw'}, flag)
    except Exception as e:      # noqa  the leaf function itself rejects this companion (e.g. replace with new containing old): not a lifting case
        return None
    d5 = fname.startswith('user') and depth(spec) >= 2 and len(pos) > 0
    order = ':dict-companion-in-another-insertion-order' if in_other_order(spec, comps) else ''
    try:
        got = lifted(x, *pos, **kw)
    except Exception as e:      # noqa
        c.check(False, 'C19:lift:raises' + order if order else K_D5 if d5 else 'C19:lift:raises', '%s raised %r, expected %r' % (txt, e, exp), call)
        return False
    key = K_INNER if flag else 'C19:lift:value' + order if order else K_D5V if d5 else 'C19:lift:value'
    return c.check(strict_same(got, exp), key, '%s = %r, leaf-wise expected %r' % (txt, got, exp), call)


def lift_cases(rng, quick):
    import json
    specs = [json.loads(s) for m in range(1, 5 if quick else 6) for s in shapes(m, 4)]
    if quick:
        specs += [json.loads(s) for s in rng.sample(shapes(5, 4), 250)]
    for _ in range(60 if quick else 1500):
        s = random_struct(rng, 4)
        if is_spec(s):
            specs.append(s)
    fns = ['user0', 'lower', 'upper', 'strip', 'proper', 'f12', 'as_float']
    for n, spec in enumerate(specs):
        # one-argument functions
        for fname in (fns if n % 4 == 0 or not quick else [fns[n % len(fns)], 'user0']):
            yield fname, spec, [], n
        # companions
        for fname in ('user1', 'replace', 'split', 'user2'):
            names, leaves = COMPANION_NAMES[fname], COMPANION_LEAVES[fname if fname != 'user2' else 'user1']
            for kind in KINDS:
                if quick and fname in ('split', 'user2') and (n + KINDS.index(kind)) % 3:
                    continue
                comp = companion_spec(kind, spec, leaves, rng)
                if fname == 'user1':
                    yield fname, spec, [['y0', 'pos', comp]], n
                    yield fname, spec, [['y0', 'kw', comp]], n
                elif fname == 'user2':
                    other = companion_spec(KINDS[(KINDS.index(kind) + 1 + n) % len(KINDS)], spec, leaves, rng)
                    yield fname, spec, [['y0', 'pos', comp], ['y1', 'kw', other]], n
                    yield fname, spec, [['y0', 'kw', comp], ['y1', 'kw', other]], n
                    if n % 3 == 0:
                        yield fname, spec, [['y0', 'pos', comp], ['y1', 'pos', other]], n
                elif fname == 'replace':
                    yield fname, spec, [['old', 'pos', comp], ['new', 'pos', '_']], n
                    yield fname, spec, [['old', 'kw', comp]], n
                    if kind in ('scalar', 'same-shape', 'top-only'):
                        new = companion_spec(kind, spec, ['_', '-', ''], rng)
                        yield fname, spec, [['old', 'pos', ' '], ['new', 'kw', new]], n
                else:
                    yield fname, spec, [['sep', 'pos', comp]], n
                    yield fname, spec, [['sep', 'kw', comp]], n


# ----------------------------------------------------------------------------------------------- dicts: insertion order
def order_cases(quick):
    """dict first arguments with dict companions over the SAME key set in every insertion order (2 and 3 keys), the companion values
    tied to the key (not to the position) so that a positional match is told apart from a match by key; children of the first argument:
    leaves, lists of two leaves, nested dicts (inner orders permuted as well); first argument / companion a plain dict or a pyg Dict;
    the same one level down (a list of two dicts, a dict of two dicts); companions positional and by keyword, through user functions and
    through replace / split.  Yields (function, first-argument spec, companions)."""
    def dspec(kind, keys, perm, child):
        return [kind, [[keys[i], child(keys[i])] for i in perm]]
    kids = dict(leaf=lambda k: 0, pair=lambda k: ['L', 0, 0], inner=lambda k: ['D', [['p', 0], ['q', 0]]], inner_rev=lambda k: ['D', [['q', 0], ['p', 0]]])
    for keys in (['x', 'y'], ['x', 'y', 'z'], ['y', 'x', 'w']):
        perms = list(itertools.permutations(range(len(keys))))
        srt = sorted(keys)
        for pa in perms:
            for pb in perms:
                for kid in kids:
                    if quick and len(keys) == 3 and kid in ('inner', 'inner_rev') and (perms.index(pa) + perms.index(pb)) % 2:
                        continue
                    for ka, kb in (('D', 'D'), ('DD', 'D'), ('D', 'DD')) if kid == 'leaf' else (('D', 'D'),):
                        spec = dspec(ka, keys, pa, kids[kid])
                        for fname in ('user1', 'user2', 'replace', 'split'):
                            leaves = COMPANION_LEAVES[fname if fname != 'user2' else 'user1']
                            val = lambda k, off=0: leaves[(srt.index(k) + off) % len(leaves)]         # noqa
                            comp = dspec(kb, keys, pb, val)
                            if kid.startswith('inner'):       # the companion's inner dicts in the other inner order
                                deep = dspec(kb, keys, pb, lambda k: ['D', [['q', val(k, 1)], ['p', val(k)]]])
                            else:
                                deep = None
                            if fname == 'user1':
                                yield fname, spec, [['y0', 'pos', comp]]
                                yield fname, spec, [['y0', 'kw', comp]]
                                if deep:
                                    yield fname, spec, [['y0', 'pos', deep]]
                                    yield fname, spec, [['y0', 'kw', deep]]
                            elif fname == 'user2':
                                other = dspec('D', keys, pa[::-1], lambda k: val(k, 1))
                                yield fname, spec, [['y0', 'pos', comp], ['y1', 'kw', other]]
                                yield fname, spec, [['y0', 'kw', other], ['y1', 'kw', comp]]
                                yield fname, spec, [['y0', 'pos', other], ['y1', 'pos', comp]]
                            elif fname == 'replace':
                                yield fname, spec, [['old', 'pos', comp]]
                                yield fname, spec, [['old', 'kw', comp]]
                                new = dspec('D', keys, pb[::-1], lambda k: ['_', '-', ''][srt.index(k) % 3])
                                yield fname, spec, [['old', 'pos', comp], ['new', 'pos', new]]
                                yield fname, spec, [['old', 'pos', ' '], ['new', 'kw', new]]
                            elif kid != 'pair' or not quick:
                                yield fname, spec, [['sep', 'pos', comp]]
                                yield fname, spec, [['sep', 'kw', comp]]
    # one level down: the dicts sit inside a list / a dict; both levels are matched, the inner dicts in all four order combinations
    keys = ['x', 'y']
    for outer in ('L', 'T', 'D'):
        for p1, p2, q1, q2 in itertools.product([(0, 1), (1, 0)], repeat=4):
            a1, a2 = dspec('D', keys, p1, lambda k: 0), dspec('D', keys, p2, lambda k: 0)
            for fname in ('user1', 'replace'):
                leaves = COMPANION_LEAVES[fname]
                b1, b2 = dspec('D', keys, q1, lambda k: leaves[keys.index(k)]), dspec('D', keys, q2, lambda k: leaves[keys.index(k) + 1])
                if outer == 'D':
                    spec, comp = ['D', [['m', a1], ['n', a2]]], ['D', [['n', b2], ['m', b1]]]
                else:
                    spec, comp = [outer, a1, a2], [outer, b1, b2]
                name = COMPANION_NAMES[fname][0]
                yield fname, spec, [[name, 'pos', comp]]
                yield fname, spec, [[name, 'kw', comp]]


def in_other_order(spec, comps):
    """is some dict companion (at any depth) keyed like the dict it meets in the first argument but inserted in another order?"""
    def walk(a, b):
        if not (is_spec(a) and is_spec(b)):
            return False
        if a[0] in ('D', 'DD') and b[0] in ('D', 'DD'):
            ka, kb = [k for k, _ in a[1]], [k for k, _ in b[1]]
            if sorted(ka) != sorted(kb):
                return False
            return ka != kb or any(walk(dict(map(tuple, a[1]))[k], dict(map(tuple, b[1]))[k]) for k in ka)
        if a[0] in ('L', 'T') and b[0] in ('L', 'T') and len(a) == len(b):
            return any(walk(x, y) for x, y in zip(a[1:], b[1:]))
        return False
    return any(walk(spec, cs) for _, _, cs in comps)


# ----------------------------------------------------------------------------------------------- zipper / lens / as_list
ZIP_POOL = [5, 'ab', None, ['L'], ['L', 1], ['L', 1, 2], ['T', 1, 2], ['L', 1, 2, 3], ['R', 2], ['T', 'x'], ['L', ['L', 1, 2], 'y'], ['R', 3], ['T']]


def zbuild(v):
    if isinstance(v, list):
        return range(v[1]) if v[0] == 'R' else [zbuild(i) for i in v[1:]] if v[0] == 'L' else tuple(zbuild(i) for i in v[1:])
    return v


def check_zipper(c, idx):
    from pyg_base import zipper, lens
    vals = [zbuild(ZIP_POOL[i]) for i in idx]
    call = dict(kind='zipper', idx=list(idx))
    seqs = [list(v) if isinstance(v, (list, tuple, range)) else [v] for v in vals]
    L = set(len(s) for s in seqs) - {1}
    txt = 'zipper(%s)' % ', '.join(repr(v) for v in vals)
    try:
        got = list(zipper(*[zbuild(ZIP_POOL[i]) for i in idx]))
    except ValueError as e:
        c.check(len(L) > 1, 'C19:zipper:raises', '%s raised %r although all lengths other than 1 agree' % (txt, e), call)
        got = None
    except Exception as e:      # noqa
        c.check(False, 'C19:zipper:raises', '%s raised %r' % (txt, e), call)
        return
    if got is not None:
        if len(L) > 1:
            c.check(False, 'C19:zipper:no-ValueError', '%s = %r although the lengths %r differ and neither is 1' % (txt, got, sorted(L)), call)
        else:
            n = (L.pop() if L else 1) if seqs else 0
            exp = [tuple(s[i] if len(s) == n else s[0] for s in seqs) for i in range(n)]
            c.check(got == exp, 'C19:zipper:value', '%s = %r, expected %r' % (txt, got, exp), call)
    L = set(len(s) for s in seqs) - {1}
    try:
        n = lens(*[zbuild(ZIP_POOL[i]) if isinstance(zbuild(ZIP_POOL[i]), (list, tuple, range)) else [zbuild(ZIP_POOL[i])] for i in idx])
        c.check(len(L) <= 1 and n == ((list(L)[0] if L else 1) if seqs else 0), 'C19:lens', 'lens of lengths %r = %r' % ([len(s) for s in seqs], n), call)
    except ValueError:
        c.check(len(L) > 1, 'C19:lens', 'lens of lengths %r raised ValueError' % [len(s) for s in seqs], call)


ASLIST_POOL = [None, 5, 'ab', ['L'], ['L', 1], ['L', 1, 2], ['T'], ['T', 1], ['T', 1, 2], ['T', ['L', 1, 2]], ['T', ['L', 1, 2], 3], ['L', ['L', 1, 2]], ['L', ['L', 1], ['L', 2]],
               ['T', ['T', 1, 2]], ['T', ['L']], ['L', ['L']], ['L', ['T', 1, 2]], ['R', 3], ['R', 0], ['T', ['L', ['L', 1, 2]]], ['L', ['L', ['L', 1]]], ['T', None], ['L', None], ['T', 'ab'], 0, '', ['T', ['T', ['L', 1]]]]


def check_as_list(c, i, none):
    from pyg_base import as_list, as_tuple
    v = zbuild(ASLIST_POOL[i])
    call = dict(kind='as_list', i=i, none=none)
    w = v[0] if isinstance(v, tuple) and len(v) == 1 and isinstance(v[0], list) else v      # as_tuple unwraps a 1-tuple holding a list first
    single_list = isinstance(w, list) and len(w) == 1 and isinstance(w[0], list)
    for name, fn, tp in (('as_list', as_list, list), ('as_tuple', as_tuple, tuple)):
        try:
            once = fn(zbuild(ASLIST_POOL[i]), none) if none else fn(zbuild(ASLIST_POOL[i]))
            twice = fn(once, none) if none else fn(once)
            key = 'C19:%s:idempotent' % name + (':list-holding-one-list' if single_list and name == 'as_tuple' else '')
            c.check(type(once) is tp and type(twice) is tp and strict_same(once, twice), key, '%s(%r) = %r but applied again = %r' % (name, v, once, twice), call)
        except Exception as e:      # noqa
            c.check(False, 'C19:%s:raises' % name, '%s(%r) raised %r' % (name, v, e), call)


# ----------------------------------------------------------------------------------------------- waiter
def n_awaitables(s):
    if not is_spec(s):
        return 0
    return 1 if s[0] == 'A' else sum(n_awaitables(i) for i in children(s))


async def _scenario(template, order, pre):
    from pyg_base import waiter
    loop = asyncio.get_running_loop()
    k = n_awaitables(template)
    futs = [loop.create_future() for _ in range(k)]

    async def co(i):
        v = await futs[i]
        await asyncio.sleep(0)
        return v

    def leaf(s):
        if is_spec(s):
            i = s[1]
            return futs[i] if i % 2 == 0 else co(i)       # bare futures and coroutines that await a future
        return s
    struct = build(template, leaf)
    for i in order[:pre]:                                  # completed before waiter even starts
        futs[i].set_result(('r', i))
    task = asyncio.ensure_future(waiter(struct))
    for i in order[pre:]:
        for _ in range(3):
            await asyncio.sleep(0)                         # let everything that can run, run
        if task.done():
            break
        futs[i].set_result(('r', i))
    return await asyncio.wait_for(task, timeout=10)


async def _scenario_dependent(template, reverse):
    """every awaitable is a coroutine that can only finish once the next one (in written order; the previous one when `reverse`) has run: all
    of them have to be started before any can be waited for to the end"""
    from pyg_base import waiter
    k = n_awaitables(template)
    ev = [asyncio.Event() for _ in range(k)]

    async def co(i):
        j = i - 1 if reverse else i + 1
        if 0 <= j < k:
            await ev[j].wait()
        ev[i].set()
        return ('r', i)
    struct = build(template, lambda s: co(s[1]) if is_spec(s) else s)
    return await asyncio.wait_for(waiter(struct), timeout=3)


def check_waiter_dependent(c, template, reverse):
    call = dict(kind='waiter_dependent', template=template, reverse=reverse)
    if not _LOOP:
        _LOOP.append(asyncio.new_event_loop())
    exp = build(template, lambda s: ('r', s[1]) if is_spec(s) else s)
    txt = 'waiter(%r) where every coroutine waits for the %s one to have run' % (template, 'previous' if reverse else 'next')
    try:
        got = _LOOP[0].run_until_complete(_scenario_dependent(template, reverse))
    except asyncio.TimeoutError:
        return c.check(False, 'C19:waiter:hangs:awaitables-not-started-together', '%s did not finish: the awaitables are waited for one after another' % txt, call)
    except Exception as e:      # noqa
        return c.check(False, 'C19:waiter:raises', '%s raised %r' % (txt, e), call)
    return c.check(strict_same(got, exp), 'C19:waiter:value', '%s = %r, expected %r' % (txt, got, exp), call)


_LOOP = []


def check_waiter(c, template, order, pre=0):
    call = dict(kind='waiter', template=template, order=list(order), pre=pre)
    if not _LOOP:
        _LOOP.append(asyncio.new_event_loop())
    exp = build(template, lambda s: ('r', s[1]) if is_spec(s) else s)
    txt = 'waiter(%r) with awaitables completing in order %r (%d before the call)' % (template, list(order), pre)
    try:
        got = _LOOP[0].run_until_complete(_scenario(template, list(order), pre))
    except asyncio.TimeoutError:
        return c.check(False, 'C19:waiter:hangs', '%s did not finish' % txt, call)
    except Exception as e:      # noqa
        return c.check(False, 'C19:waiter:raises', '%s raised %r' % (txt, e), call)
    return c.check(strict_same(got, exp), 'C19:waiter:value', '%s = %r, expected %r' % (txt, got, exp), call)


def waiter_templates(rng, kmax, quick):
    import json
    out = []
    # every small shape, all leaves awaitable / alternating plain and awaitable
    for m in range(1, 6):
        for s in shapes(m, 4):
            spec = json.loads(s)
            n = [0]

            def all_a(i, _):
                n[0] += 1
                return ['A', i]
            t = map_leaves(spec, all_a)
            if n_awaitables(t) <= kmax:
                out.append(t)
            cnt = [0]

            def alt(i, _):
                if i % 2:
                    return 'plain%d' % i
                cnt[0] += 1
                return ['A', cnt[0] - 1]
            t2 = map_leaves(spec, alt)
            if 0 < n_awaitables(t2) <= kmax and n_awaitables(t2) != n_awaitables(t):
                out.append(t2)
    if quick:
        small = [t for t in out if n_awaitables(t) <= 2]
        big = [t for t in out if n_awaitables(t) > 2]
        out = small[::3] + rng.sample(big, min(len(big), 120))
    for k in range(1, kmax + 1):                # flat containers of k awaitables
        out += [['L'] + [['A', i] for i in range(k)], ['T'] + [['A', i] for i in range(k)], ['D', [['k%d' % i, ['A', i]] for i in range(k)]]]
    # seeded deeper structures with exactly k awaitables, k up to kmax
    for k in range(0, kmax + 1):
        made = 0
        while made < (6 if quick else 25):
            s = random_struct(rng, 4, kinds=('L', 'T', 'D', 'DD'), leaf=0, p_leaf=.35, width=(1, 2, 2, 3))
            if not is_spec(s):
                continue
            leaves = [0]
            map_leaves(s, lambda i, _: leaves.__setitem__(0, i + 1) or 0)
            if leaves[0] < k or leaves[0] > k + 3:
                continue
            pick = set(rng.sample(range(leaves[0]), k))
            ids = {p: j for j, p in enumerate(sorted(pick))}
            out.append(map_leaves(s, lambda i, _: ['A', ids[i]] if i in ids else ('plain%d' % i if i % 2 else i)))
            made += 1
    return out


# ----------------------------------------------------------------------------------------------- driver
def run(tier, seed):
    import pyg_base as pb
    rng = random.Random(seed)
    quick = tier == 'quick'
    kmax = 4 if quick else 6
    c = Collector('C19', rule='lifting: every structure with <= %d nodes (containers + leaves), nesting <= 4, containers list/tuple/dict, %splus %d seeded structures of depth <= 4 incl. pyg Dict and empty '
                  'containers; functions: loop(list,tuple,dict) of f(x), f(x,y), f(x,y,z) and lower, upper, strip, proper, replace, split, f12, as_float; companions of 8 kinds (scalar, same shape, a dict of the same size sharing some but not all keys, '
                  'longer flat list, matching only at the top, other container kind / other keys, same shape with one inner container longer, unmatched container holding matching containers) '
                  'passed positionally and by keyword; dict first arguments (2-3 keys, children leaves / lists / nested dicts, plain dict or pyg Dict) with dict companions over the '
                  'same key set in EVERY pair of insertion orders, companion values tied to the key, positional and by keyword, through f(x,y), f(x,y,z), replace, split, also one level '
                  'down inside list / tuple / dict; zipper/lens: every tuple of <= %d values from 13 (scalars, strings, sequences of length 0-3, ranges); as_list/as_tuple: 27 values x none flag; '
                  'waiter: %ssmall structure (<= %d nodes) with all / alternate leaves awaitable, flat containers of k awaitables and seeded deeper ones, <= %d awaitables (bare futures and coroutines; also coroutines each of which waits for its written neighbour to have run, so that all have to be started together), resolved by a '
                  'scripted scheduler in EVERY completion order, also with a prefix completed before the call. Non-trivial: a structure with at least one leaf (lifting), at least two values '
                  '(zipper), at least two awaitables (waiter); distinct by input' % (4 if quick else 5, '250 seeded ones with 5 nodes, ' if quick else '', 60 if quick else 1500, 3 if quick else 4, 'a seeded subset of the ' if quick else 'every ', 5, kmax),
                  exhaustive=False, scope='structures <= %d nodes x 7 companion kinds x positional/keyword; zipper tuples <= %d over 13 values; waiter <= %d awaitables x all orders' % (4 if quick else 5, 3 if quick else 4, kmax))
    # anchors: the scalar behaviour of the library functions built with loop
    for name, args, exp in ANCHORS:
        try:
            got = getattr(pb, name)(*args)
            c.check(strict_same(got, exp), 'C19:leaf:%s' % name, '%s%r = %r, expected %r' % (name, args, got, exp), dict(kind='anchor', name=name, args=list(args)))
        except Exception as e:      # noqa
            c.check(False, 'C19:leaf:%s' % name, '%s%r raised %r' % (name, args, e), dict(kind='anchor', name=name, args=list(args)))
        c.case(('anchor', name, args))
    for fname, spec, comps, n in lift_cases(rng, quick):
        r = check_lift(c, fname, spec, comps, n)
        if r is not None:
            c.case(('lift', fname, repr(spec), repr(comps)), nontrivial=spec != ['L'] and len(repr(spec)) > 6, sample=dict(f=fname, x=spec, companions=comps) if c.evaluations % 9973 == 0 else None)
    for n, (fname, spec, comps) in enumerate(order_cases(quick)):
        r = check_lift(c, fname, spec, comps, n % 5)
        if r is not None:
            c.case(('lift', fname, repr(spec), repr(comps)), nontrivial=True, sample=dict(f=fname, x=spec, companions=comps) if n == 7 else None)
    for k in range(0, (3 if quick else 4) + 1):
        for idx in itertools.product(range(len(ZIP_POOL)), repeat=k):
            check_zipper(c, idx)
            c.case(('zipper', idx), nontrivial=k >= 2, sample=dict(zipper=[ZIP_POOL[i] for i in idx]) if idx == (5, 1, 0) else None)
    for i in range(len(ASLIST_POOL)):
        for none in (False, True):
            check_as_list(c, i, none)
            c.case(('as_list', i, none))
    for t in waiter_templates(rng, kmax, quick):
        k = n_awaitables(t)
        for order in itertools.permutations(range(k)):
            pres = [0] if (k == 0 or sum(order[:2]) % 3) else [0, 1, k]
            for pre in pres:
                check_waiter(c, t, order, pre)
                c.case(('waiter', repr(t), order, pre), nontrivial=k >= 2, sample=dict(template=t, order=list(order)) if order[:1] == (2,) else None)
        if k >= 2:
            for reverse in (False, True):           # coroutines that depend on one another: all must be started together, whatever the container
                check_waiter_dependent(c, t, reverse)
                c.case(('waiter_dependent', repr(t), reverse), nontrivial=True)
    if _LOOP:
        _LOOP.pop().close()
    return c.result()


def replay(call):
    import pyg_base as pb
    c = Collector('C19', 'replay')
    kind = call.get('kind')
    if kind == 'lift':
        check_lift(c, call['f'], call['spec'], call['comps'], call.get('offset', 0))
    elif kind == 'zipper':
        check_zipper(c, call['idx'])
    elif kind == 'as_list':
        check_as_list(c, call['i'], call['none'])
    elif kind == 'waiter_dependent':
        check_waiter_dependent(c, call['template'], call['reverse'])
    elif kind == 'waiter':
        check_waiter(c, call['template'], call['order'], call.get('pre', 0))
        if _LOOP:
            _LOOP.pop().close()
    elif kind == 'anchor':
        exp = [e for n, a, e in ANCHORS if n == call['name'] and list(a) == call['args']]
        got = getattr(pb, call['name'])(*call['args'])
        c.check(bool(exp) and strict_same(got, exp[0]), 'anchor', '%s%r = %r' % (call['name'], tuple(call['args']), got))
    else:
        return dict(fails=None, detail='no replay for kind %r' % kind)
    v = list(c.violations.values())
    return dict(fails=bool(v), detail=v[0]['what'] if v else 'all clauses hold on the real code for this input')
