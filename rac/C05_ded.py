"""Replay of solver counterexamples for the C05 obligations: the model's holiday / weekend tables are turned into a real
Calendar and the property's clause is evaluated natively with a day-by-day oracle."""
import datetime, itertools

D = datetime.datetime
DAY = datetime.timedelta(days=1)
_ctr = itertools.count()


def build(call):
    from pyg_base import Calendar
    o = int(call['o'])
    hol = [D.fromordinal(o + int(k[1:])) for k, v in call.items() if k.startswith('H') and k[1:].lstrip('-').isdigit() and v is True]
    we = [int(k[2:]) for k, v in call.items() if k.startswith('WE') and v is True]
    t0, t1 = D.fromordinal(int(call['T0'])), D.fromordinal(int(call['T1']))
    cal = Calendar('replay_%d' % next(_ctr), holidays=hol, weekend=we, t0=t0, t1=t1, adj='f')
    return cal, set(hol), set(we), t0, t1


def replay_registry(call):
    from pyg_base import calendar
    key = 'replay_reg_%d' % next(_ctr)
    d1, d2 = D(2020, 1, 1), D(2020, 1, 2)
    if call.get('registered'):
        calendar(key, holidays=[d1], weekend=[4, 5], t0=D(2019, 1, 1), t1=D(2021, 1, 1))
    hol = None if not call.get('holidays_given') else ([d2] if call.get('holidays_truthy') else [])
    we = None if not call.get('weekend_given') else ([6] if call.get('weekend_truthy') else [])
    got = calendar(key, holidays=hol, weekend=we)
    exp_h = [d1] if (hol is None and we is None and call.get('registered')) else (hol or [])
    exp_w = [4, 5] if (hol is None and we is None and call.get('registered')) else (we if we is not None else [5, 6])
    ok = list(got.holidays.keys()) == exp_h and list(got.weekend) == exp_w and calendar(key) is got
    return dict(fails=not ok, detail='calendar(%r, holidays=%r, weekend=%r) after %s gives holidays %s weekend %s, expected %s / %s' % (
        key, hol, we, 'a registration with [2020-01-01]/[4,5]' if call.get('registered') else 'no registration', list(got.holidays.keys()), list(got.weekend), exp_h, exp_w))


def replay_weekend_sets(call):
    """every weekend set of one or two days, no holidays: the indexed operations (add with |n| > 1, bdays, drange('1b')) against day-by-day counting"""
    from pyg_base import Calendar
    bad, tried = [], 0
    t0, t1 = D(2021, 1, 1), D(2021, 3, 1)
    for we in [[i] for i in range(7)] + [[i, (i + 1) % 7] for i in range(7)]:
        cal = Calendar('replay_we_%d' % next(_ctr), holidays=[], weekend=we, t0=t0, t1=t1, adj='f')
        is_bd = lambda x: x.weekday() not in we      # noqa
        days = [t0 + k * DAY for k in range((t1 - t0).days + 1)]
        bds = [x for x in days if is_bd(x)]
        for start in bds[3:10]:
            i = bds.index(start)
            for n in (2, 3, -2, 5):
                tried += 1
                try:
                    got = cal.add(start, n)
                except Exception as e:      # noqa
                    bad.append('weekend %s: add(%s, %d) raised %r' % (we, start.date(), n, e))
                    continue
                if got != bds[i + n]:
                    bad.append('weekend %s: add(%s, %d) = %s, counting business days gives %s' % (we, start.date(), n, got.date(), bds[i + n].date()))
        try:
            got = cal.drange(bds[2], bds[12], '1b')
            if got != bds[2:13]:
                bad.append('weekend %s: drange(%s, %s, "1b") = %s' % (we, bds[2].date(), bds[12].date(), [x.date() for x in got]))
            nb = cal.bdays(bds[2], bds[12])
            if nb != 10:
                bad.append('weekend %s: bdays(%s, %s) = %s, expected 10' % (we, bds[2].date(), bds[12].date(), nb))
        except Exception as e:      # noqa
            bad.append('weekend %s: drange / bdays raised %r' % (we, e))
    return dict(fails=bool(bad), detail='; '.join(bad[:3]) or '%d indexed operations over 14 weekend sets agree with day-by-day counting' % tried)


def replay_constructor(call):
    """native battery of the constructor clause: Calendar(key, holidays, weekend, t0, t1, adj) holds exactly the six items, weekend as a list
    (default [5, 6]), holidays keyed by themselves, t0 / t1 the date range of the arguments, key / adj unchanged"""
    from pyg_base import Calendar, as_list
    from pyg_base._drange import date_range
    from pyg_base._dates import TMIN, TMAX
    bad, tried = [], 0
    d1, d2, d3 = D(2020, 1, 1), D(2020, 1, 2), D(2020, 7, 3)
    for hol in (None, [], [d1], [d2, d1], (d1, d3), d3, [d1, d1]):
        for we in (None, [], [6], [4, 5], (0,), 3, [6, 5]):
            for t0, t1 in ((None, None), (D(2019, 1, 1), None), (None, D(2021, 6, 1)), (D(2019, 3, 5), D(2021, 1, 1))):
                for adj in ('m', 'f', 'p'):
                    tried += 1
                    key = 'replay_ctor_%d' % next(_ctr)
                    try:
                        cal = Calendar(key, holidays=hol, weekend=we, t0=t0, t1=t1, adj=adj)
                    except Exception as e:      # noqa
                        bad.append('Calendar(%r, holidays=%r, weekend=%r, t0=%r, t1=%r) raised %r' % (key, hol, we, t0, t1, e))
                        continue
                    hs = as_list(hol)
                    e0, e1 = date_range(TMIN if t0 is None else t0, TMAX if t1 is None else t1)
                    exp = dict(weekend=[5, 6] if we is None else as_list(we), holidays=dict(zip(hs, hs)), key=key, t0=e0, t1=e1, adj=adj)
                    if dict(cal) != exp or list(cal['holidays']) != list(exp['holidays']) or type(cal) is not Calendar:
                        bad.append('Calendar(%r, holidays=%r, weekend=%r, t0=%r, t1=%r, adj=%r) holds %r, expected %r' % (key, hol, we, t0, t1, adj, dict(cal), exp))
    return dict(fails=bool(bad), detail='; '.join(bad[:2]) or '%d constructor calls hold exactly the six items prescribed' % tried)


def replay(call):
    if call.get('kind') == 'constructor':
        return replay_constructor(call)
    if call.get('kind') == 'registry':
        return replay_registry(call)
    if call.get('kind') == 'weekend_sets':
        return replay_weekend_sets(call)
    cal, hol, we, t0, t1 = build(call)
    o = int(call['o'])
    t = D.fromordinal(o) + datetime.timedelta(microseconds=int(call.get('us') or 0))
    day = D.fromordinal(o)
    is_bd = lambda x: x.weekday() not in we and x not in hol
    lo, hi = D.fromordinal(int(call['LO'])), D.fromordinal(int(call['HI']))
    if not (t0 <= lo <= day <= hi <= t1 and is_bd(lo) and is_bd(hi)):
        return dict(fails=False, detail='model violates the range precondition after concretisation (window too small)')

    def adj(x, mode):
        x = D(x.year, x.month, x.day)
        if mode == 'f':
            while not is_bd(x):
                x += DAY
            return x
        if mode == 'p':
            while not is_bd(x):
                x -= DAY
            return x
        f = adj(x, 'f')
        return adj(x, 'p') if f.month != x.month else f

    def count(a, n):
        step = DAY if n > 0 else -DAY
        k = abs(n)
        while k:
            a += step
            if is_bd(a):
                k -= 1
        return a
    kind, mode = call.get('kind'), call.get('mode') or 'f'
    try:
        if kind == 'is_bday':
            got = (cal.is_bday(t), cal.is_holiday(t))
            exp = (is_bd(day), not is_bd(day))
            return dict(fails=got != exp, detail='is_bday/is_holiday(%s) = %s, expected %s; holidays %s weekend %s' % (t, got, exp, sorted(hol), sorted(we)))
        if kind == 'adjust':
            got, exp = cal.adjust(t, mode), adj(t, mode)
            return dict(fails=got != exp, detail='adjust(%s,%r) = %s, expected %s; holidays %s weekend %s' % (t, mode, got, exp, sorted(hol), sorted(we)))
        if kind == 'add':
            n = int(call.get('days', call.get('n', 0)))
            exp = count(adj(t, mode), n)
            if not (lo <= exp <= hi):
                return dict(fails=False, detail='expected result outside the witness range')
            got = cal.add(t, n, adj=mode)
            return dict(fails=got != exp, detail='add(%s,%d,adj=%r) = %s, expected %s; holidays %s weekend %s' % (t, n, mode, got, exp, sorted(hol), sorted(we)))
        if kind in ('bdays', 'drange'):
            t2 = D.fromordinal(int(call['o2']))
            a, b = adj(day, 'f'), adj(t2, 'f')
            days = [a + k * DAY for k in range((b - a).days + 1) if is_bd(a + k * DAY)] if b >= a else []
            if kind == 'bdays':
                exp = len(days) - 1 if b >= a else -(len([b + k * DAY for k in range((a - b).days + 1) if is_bd(b + k * DAY)]) - 1)
                got = cal.bdays(day, t2, adj='f')
                return dict(fails=got != exp, detail='bdays(%s,%s) = %s, expected %s' % (day, t2, got, exp))
            got = cal.drange(day, t2, '1b')
            return dict(fails=got != days, detail='Calendar.drange(%s,%s,"1b") = %s, expected %s' % (day, t2, got, days))
    except Exception as e:      # noqa
        return dict(fails=True, detail='%s raised %r inside the calendar range; holidays %s weekend %s' % (kind, e, sorted(hol), sorted(we)))
    return dict(fails=None, detail='no replay for kind %r' % kind)
