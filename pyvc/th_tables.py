"""dictable as a map from column names to columns.

A table is (dom : Key -> Bool, clen : Key -> Int, carr : Key -> (Int -> Val)): which columns exist, how long each is and what
it holds.  `wf(t, n)` (rectangular with n rows) is  forall k. dom[k] => clen[k] == n.  Column names are terms of the
uninterpreted sort Key; string literals are distinct constants of it."""
import ast
import z3
from z3 import (And, Or, Not, If, Implies, IntVal, BoolVal, IntSort, BoolSort, ArraySort, Array, Store, Select, Lambda, K,
                Function, DeclareSort, Const, ForAll, Exists, Int, simplify)

from .front import OutOfSubset
from .sv import SV, I, B, T, NONE, S, fresh_name, fresh_int
from .th_lists import Val, NONEV, VAL, INT, LIST, fresh_list, as_list_sv, to_rep, V

Key = DeclareSort('Key')
_lits = {}


def key_of(lit):
    if lit not in _lits:
        _lits[lit] = Const('key!%s' % lit, Key)
    return _lits[lit]


def distinct_literals():
    ks = list(_lits.values())
    return [z3.Distinct(*ks)] if len(ks) > 1 else []


def KEY(t):
    return SV('key', t)


def fresh_table(name):
    return SV('table', None, dom=Array(fresh_name(name + '_dom'), Key, BoolSort()), clen=Array(fresh_name(name + '_len'), Key, IntSort()),
              carr=Array(fresh_name(name + '_col'), Key, ArraySort(IntSort(), Val)), cls='dictable')


def wf(t, n):
    k = Const('k!wf', Key)
    return And(n >= 0, ForAll([k], Implies(t.dom[k], t.clen[k] == n)))


def no_columns(t):
    k = Const('k!nc', Key)
    return ForAll([k], Not(t.dom[k]))


def nrows(t, n):
    """len(table) for a rectangular table with n rows per column: 0 when it has no columns"""
    return If(no_columns(t), 0, n)


def column(t, k):
    return SV('list', t.clen[k], ety=VAL, arrs=[t.carr[k]])


def same_table(a, b):
    k = Const('k!same', Key)
    return ForAll([k], And(a.dom[k] == b.dom[k], Implies(a.dom[k], And(a.clen[k] == b.clen[k], a.carr[k] == b.carr[k]))))


class Tables:
    """dict-level operations of a dictable (the methods inherited from dict and called through super()), `lens` by contract"""

    def __init__(self, lens_contract=True):
        self.lens_contract = lens_contract

    def to_key(self, v):
        if v.kind == 'key':
            return v.t
        if v.kind == 'str' and v.t is None:
            return key_of(v.lit)
        raise OutOfSubset('column name of kind %s' % v.kind)

    def call(self, ex, st, e, fname, args, kwargs):
        if fname == 'super' and len(args) == 2 and args[1].kind == 'table':
            node = e.args[1]
            return SV('super', None, of=args[1], name=node.id if isinstance(node, ast.Name) else None)
        if fname == 'str' and len(args) == 1 and args[0].kind == 'key':
            return args[0]
        if fname == 'len' and len(args) == 1 and args[0].kind == 'tkeys':
            t = args[0].f['of']
            c = fresh_int('ncols')
            ex.fact(And(c >= 0, (c == 0) == no_columns(t)))
            ex.use('axiom:len(d.keys()) == 0 iff d has no key')
            return I(c)
        return NotImplemented

    def pre_call(self, ex, st, e):
        if isinstance(e.func, ast.Name) and e.func.id == 'super' and len(e.args) == 2 and isinstance(e.args[1], ast.Name):
            obj = ex.eval(st, e.args[1])
            if obj.kind == 'table':
                return SV('super', None, of=obj, name=e.args[1].id)
        # lens(*self.values()): callee contract of lens on the multiset of column lengths (proved on the body of lens in C19)
        if isinstance(e.func, ast.Name) and e.func.id == 'lens' and len(e.args) == 1 and isinstance(e.args[0], ast.Starred) and self.lens_contract:
            vals = ex.eval(st, e.args[0].value)
            if vals.kind != 'tvalues':
                return NotImplemented
            t = vals.f['of']
            ex.use('callee contract:lens(*values) is 0 for no values, raises ValueError iff two lengths other than 1 differ, else the common length or 1 (proved in C19)')
            k1, k2 = Const('k1!lens', Key), Const('k2!lens', Key)
            clash = Exists([k1, k2], And(t.dom[k1], t.dom[k2], t.clen[k1] != 1, t.clen[k2] != 1, t.clen[k1] != t.clen[k2]))
            ex.raise_if(st, clash, 'ValueError')
            r = fresh_int('lens')
            ex.fact(Implies(no_columns(t), r == 0))
            ex.fact(ForAll([k1], Implies(And(t.dom[k1], t.clen[k1] != 1, Not(clash)), r == t.clen[k1])))
            ex.fact(Implies(And(Not(no_columns(t)), ForAll([k1], Implies(t.dom[k1], t.clen[k1] == 1))), r == 1))
            return I(r)
        return NotImplemented

    def method(self, ex, st, e, recv, mname, args, kwargs):
        if recv.kind == 'table':
            if mname == 'values' and not args:
                return SV('tvalues', None, of=recv)
            if mname == 'keys' and not args:
                return SV('tkeys', None, of=recv)
            if mname == 'items' and not args:
                return SV('titems', None, of=recv)
        if recv.kind == 'super' and mname == '__setitem__' and len(args) == 2:
            t = recv.f['of']
            k = self.to_key(args[0])
            v = as_list_sv(args[1], VAL)
            new = SV('table', None, dom=Store(t.dom, k, BoolVal(True)), clen=Store(t.clen, k, v.t), carr=Store(t.carr, k, v.arrs[0]), cls=t.f.get('cls'))
            ex.use('axiom:dict.__setitem__ stores one key and leaves the others')
            if recv.f.get('name'):
                st.env[recv.f['name']] = new
            else:
                raise OutOfSubset('super().__setitem__ on an unnamed receiver')
            return NONE
        if recv.kind == 'super' and mname == '__getitem__' and len(args) == 1 and args[0].kind in ('key', 'str'):
            t = recv.f['of']
            k = self.to_key(args[0])
            ex.raise_if(st, Not(t.dom[k]), 'KeyError')
            return column(t, k)
        return NotImplemented

    def compare(self, ex, st, e, op, a, b):
        if op in ('In', 'NotIn') and b.kind in ('table', 'tkeys') and a.kind in ('key', 'str'):
            t = b if b.kind == 'table' else b.f['of']
            r = t.dom[self.to_key(a)]
            return r if op == 'In' else Not(r)
        return NotImplemented

    def binop(self, ex, st, e, op, a, b):
        # list * n : repeat.  The length is an uninterpreted product constrained by the instances the code relies on
        if op == 'Mult' and a.kind == 'list' and b.kind == 'int':
            lst = as_list_sv(a, VAL)
            r = fresh_int('replen')
            ex.fact(And(Implies(lst.t == 1, r == If(b.t > 0, b.t, 0)), Implies(lst.t == 0, r == 0), Implies(b.t == 1, r == lst.t), Implies(b.t <= 0, r == 0), r >= 0))
            j = Int('j!rep')
            ex.use('axiom:xs * n repeats xs n times (length constrained for len(xs) in {0,1} or n <= 1; content for len(xs) == 1)')
            arr = Array(fresh_name('rep_a'), IntSort(), lst.arrs[0].sort().range())
            ex.fact(Implies(lst.t == 1, ForAll([j], Implies(And(0 <= j, j < r), arr[j] == lst.arrs[0][0]))))
            ex.fact(Implies(b.t == 1, arr == lst.arrs[0]))
            return SV('list', r, ety=lst.ety, arrs=[arr])
        return NotImplemented

    def fresh_like(self, ex, st, name, v):
        if v.kind == 'table':
            t = fresh_table(name)
            t.f['cls'] = v.f.get('cls')
            return t
        if v.kind == 'key':
            return KEY(Const(fresh_name(name), Key))
        return NotImplemented

    def truth(self, ex, st, v):
        if v.kind == 'table':
            raise OutOfSubset('truth value of a table')
        return NotImplemented
