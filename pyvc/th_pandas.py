"""pandas / numpy wrappers: opaque values with uninterpreted operations.

pandas and numpy are outside the verifier's reach.  What *is* within reach is the pure-Python decision logic of the thin wrappers
around them: which operation is called, on which receiver, with which arguments, on which branch, in which order; how lists of
operands / bounds are manipulated; which arguments are forwarded.  This theory makes that logic executable by the symbolic executor:

* every pandas / numpy / unknown value is a term of the uninterpreted sort PV (SV kind 'pv');
* every operation on such a value - method call, attribute, item access / store, arithmetic, comparison, free function - is an
  application of an uninterpreted function whose *name* is the operation together with its call shape
  (`M.reindex/1/limit,method` = method reindex with 1 positional and the keywords limit, method), so two code paths agree on a result
  iff they build the same term from the same operations.  Nothing is assumed about what an operation computes;
* Python-level facts the wrappers rely on are modelled exactly: None, literal strings (injective constants), ints, bools, truth values
  (TRUTH : PV -> Bool, uninterpreted), `is None`, isinstance (uninterpreted predicate per type name), lists of PV in the (len, array)
  style with display, concatenation, slicing with symbolic bounds, reversal, indexing with IndexError, iteration;
* functions of the repo that are *called* by the function under contract are taken by contract: `R.<name>(arguments bound by the real
  signature, defaults read from the source)`.  Their bodies are under contract elsewhere or listed as assumed.

Every entry used registers itself with ex.use(...)."""
import ast, hashlib
import z3
from z3 import (And, Or, Not, If, Implies, BoolVal, IntVal, IntSort, BoolSort, ArraySort, DeclareSort, Function, Const, Lambda, Select,
                Store, K, simplify, is_true, is_false, is_int_value, Int)

from .front import OutOfSubset, SelectorError, walk_no_defs
from .sv import SV, I, B, S, T, NONE, fresh_name, fresh_int, zi, merge_sv

PV = DeclareSort('PV')
PArr = ArraySort(IntSort(), PV)
NONEPV = Const('None!pv', PV)
INTV = Function('int!pv', IntSort(), PV)
BOOLV = Function('bool!pv', BoolSort(), PV)
STRV = Function('str!pv', IntSort(), PV)
STRID = Function('strid!pv', PV, IntSort())
TRUTH = Function('truth!pv', PV, BoolSort())
LEN = Function('len!pv', PV, IntSort())
ITEM = Function('item!pv', PV, IntSort(), PV)
TOINT = Function('toint!pv', PV, IntSort())
MKLIST = Function('list!pv', IntSort(), PArr, PV)
MKARR = Function('ndarray!pv', IntSort(), PArr, PV)
KEY = Function('orderkey!pv', PV, IntSort())
SCALAR = Function('is_ordered_scalar!pv', PV, BoolSort())
ASL_SEQ = Function('as_list_sequence!pv', PV, BoolSort())

_STR = {}
_U = {}


def U(name, argsorts, ret=PV):
    """the uninterpreted function `name` with that signature (one symbol per name + signature)"""
    key = (name, tuple(str(s) for s in argsorts), str(ret))
    if key not in _U:
        _U[key] = Function(name, *(list(argsorts) + [ret]))
    return _U[key]


def STR(lit):
    if lit not in _STR:
        _STR[lit] = len(_STR)
    return STRV(IntVal(_STR[lit]))


def FLOAT(x):
    return Const('float!%r' % (x,), PV)


def GLOBAL(dotted):
    return Const('G.%s' % dotted, PV)


def base_facts():
    """literal strings are pairwise distinct and differ from None; the truth value of a Python bool is itself"""
    fs = [STRID(STRV(IntVal(c))) == c for c in sorted(_STR.values())]
    fs += [STRID(NONEPV) == -1, TRUTH(BOOLV(BoolVal(True))), Not(TRUTH(BOOLV(BoolVal(False)))), Not(TRUTH(NONEPV))]
    return fs


def P(t):
    return SV('pv', t)


def static_arr(terms):
    a = K(IntSort(), NONEPV)
    for k, t in enumerate(terms):
        a = Store(a, k, t)
    return a


def plist(n, arr, items=None, tag='list', svs=None):
    return SV('plist', None, n=zi(n), arr=arr, items=items, tag=tag, svs=svs)


def static_list(svs_terms, tag='list'):
    """a list whose elements (PV terms) are known one by one"""
    return plist(len(svs_terms), static_arr(svs_terms), items=list(svs_terms), tag=tag)


def pv(x):
    """spec-side conversion of a python value / z3 term / SV into a PV term"""
    if isinstance(x, SV):
        return sv_pv(x)
    if z3.is_expr(x):
        if x.sort() == PV:
            return x
        if x.sort() == IntSort():
            return INTV(x)
        if x.sort() == BoolSort():
            return BOOLV(x)
        raise OutOfSubset('no PV view of sort %s' % x.sort())
    if x is None:
        return NONEPV
    if isinstance(x, bool):
        return BOOLV(BoolVal(x))
    if isinstance(x, int):
        return INTV(IntVal(x))
    if isinstance(x, float):
        return FLOAT(x)
    if isinstance(x, str):
        return STR(x)
    if isinstance(x, (list,)):
        return MKLIST(IntVal(len(x)), static_arr([pv(i) for i in x]))
    if isinstance(x, tuple):
        return TUP(*x)
    raise OutOfSubset('no PV view of %r' % (x,))


def sv_pv(v):
    """PV term of a symbolic value that needs no executor state (see Pandas.to_pv for the general case)"""
    k = v.kind
    if k == 'pv':
        return v.t
    if k == 'none':
        return NONEPV
    if k == 'int':
        return INTV(v.t)
    if k == 'bool':
        return BOOLV(v.t)
    if k == 'str' and v.t is None:
        return STR(v.lit)
    if k == 'tuple':
        return TUP(*[sv_pv(x) for x in v.items])
    if k == 'plist':
        return (MKLIST if v.tag == 'list' else MKARR)(v.n, v.arr)
    if k == 'module':
        return GLOBAL(v.name)
    if k == 'chars':
        return U('chars/%d' % len(v.codes), [IntSort()] * len(v.codes))(*v.codes)
    if k == 'dictlit':
        keys = sorted(v.f['d'])
        return U('dict:' + ','.join(keys), [PV] * len(keys))(*[sv_pv(v.f['d'][q]) for q in keys])
    if k == 'slice':
        return SLICE(*[NONEPV if x is None else sv_pv(x) for x in (v.lo, v.hi, v.step)])
    raise OutOfSubset('no PV view of a %s value' % k)


# ---- term constructors shared by the theory (code side) and the contracts (specification side)
def _name(kind, name, npos, kw):
    return '%s.%s/%d%s' % (kind, name, npos, ('/' + ','.join(sorted(kw))) if kw else '')


def F(name, *args, **kw):
    """free / module-qualified function: F('np.isnan', x), F('pd.concat', xs, axis=1)"""
    ts = [pv(a) for a in args] + [pv(kw[q]) for q in sorted(kw)]
    return U(_name('F', name, len(args), kw), [PV] * len(ts))(*ts)


def M(name, recv, *args, **kw):
    """method call on an opaque value: M('reindex', ts, index, method='ffill', limit=None)"""
    ts = [pv(recv)] + [pv(a) for a in args] + [pv(kw[q]) for q in sorted(kw)]
    return U(_name('M', name, len(args), kw), [PV] * len(ts))(*ts)


def CALLV(fn, *args, **kw):
    """call of an opaque callable value"""
    ts = [pv(fn)] + [pv(a) for a in args] + [pv(kw[q]) for q in sorted(kw)]
    return U(_name('call', 'value', len(args), kw), [PV] * len(ts))(*ts)


def A(name, recv):
    return U('A.' + name, [PV])(pv(recv))


def GETITEM(recv, idx):
    return U('getitem', [PV, PV])(pv(recv), pv(idx))


def SETITEM(recv, idx, v):
    return U('setitem', [PV, PV, PV])(pv(recv), pv(idx), pv(v))


def SETATTR(name, recv, v):
    return U('setattr.' + name, [PV, PV])(pv(recv), pv(v))


def OP(op, a, b):
    return U('op.' + op, [PV, PV])(pv(a), pv(b))


def UN(op, a):
    return U('un.' + op, [PV])(pv(a))


def CMP(op, a, b):
    return U('cmp.' + op, [PV, PV])(pv(a), pv(b))


def SLICE(lo=None, hi=None, step=None):
    return U('slice', [PV, PV, PV])(pv(lo), pv(hi), pv(step))


def TUP(*items):
    return U('tuple/%d' % len(items), [PV] * len(items))(*[pv(i) for i in items])


def R(name, *args):
    """a function of the repo taken by contract; arguments in signature order (defaults filled in)"""
    return U('R.' + name, [PV] * len(args))(*[pv(a) for a in args])


def ISA(tname, x):
    return U('isinstance.' + tname, [PV], BoolSort())(pv(x))


def isa(x, *names):
    """isinstance(x, (names)) on an opaque value, exactly as the theory evaluates it"""
    x = pv(x)
    alts = [ISA(n, x) for n in names if n != 'type(None)'] + ([x == NONEPV] if 'type(None)' in names else [])
    return And(x != NONEPV, Or(*alts)) if 'type(None)' not in names else Or(*alts)


def RAISES(what, *args):
    """uninterpreted: the pandas operation `what` on these arguments raises (only consulted inside try blocks)"""
    return U('raises.' + what, [PV] * len(args), BoolSort())(*[pv(a) for a in args])


def CONTAINS(container, x):
    return U('contains', [PV, PV], BoolSort())(pv(container), pv(x))


FOLD = Function('foldl!pv', PV, IntSort(), PArr, PV, PV)        # FOLD(f, k, xs, init): init folded with xs[0..k-1] from the left


def CALL2(f, a, b):
    return CALLV(f, a, b)


def fold_unroll(f, k, arr, init):
    """definition instances of the left fold for a concrete k: FOLD(f,0,xs,i) = i, FOLD(f,q+1,xs,i) = f(FOLD(f,q,xs,i), xs[q])"""
    out = [FOLD(f, IntVal(0), arr, init) == init]
    for q in range(k):
        out.append(FOLD(f, IntVal(q + 1), arr, init) == CALL2(f, FOLD(f, IntVal(q), arr, init), Select(arr, q)))
    return out


def cmp_fact(op, a, b):
    """for two totally ordered scalars (numbers, datetimes, times of day) the comparison is that of their order keys"""
    k = {'Lt': KEY(a) < KEY(b), 'LtE': KEY(a) <= KEY(b), 'Gt': KEY(a) > KEY(b), 'GtE': KEY(a) >= KEY(b), 'Eq': KEY(a) == KEY(b),
         'NotEq': KEY(a) != KEY(b)}[op]
    return Implies(And(SCALAR(a), SCALAR(b)), TRUTH(CMP(op, a, b)) == k)


def comp_key(node):
    """structural key of a filtering comprehension: element expression and filters with the loop variables renamed canonically"""
    g = node.generators[0]
    names = [x.id for x in ast.walk(g.target) if isinstance(x, ast.Name)]
    ren = {n: '_v%d' % i for i, n in enumerate(names)}

    class Ren(ast.NodeTransformer):
        def visit_Name(self, n):
            return ast.copy_location(ast.Name(id=ren.get(n.id, n.id), ctx=ast.Load()), n)
    import copy
    parts = [node.key, node.value] if isinstance(node, ast.DictComp) else [node.elt]
    elt = [Ren().visit(copy.deepcopy(x)) for x in parts]
    ifs = [Ren().visit(copy.deepcopy(c)) for c in g.ifs]
    text = ': '.join(ast.unparse(x) for x in elt) + ' if ' + ' if '.join(ast.unparse(c) for c in ifs)
    free = sorted({x.id for c in parts + list(g.ifs) for x in ast.walk(c) if isinstance(x, ast.Name)} - set(names))
    return text, free


def COMP(text, src, free_terms):
    h = hashlib.sha256(text.encode()).hexdigest()[:10]
    return U('comp!%s/%d' % (h, len(free_terms)), [PV] * (1 + len(free_terms)))(pv(src), *[pv(t) for t in free_terms])


def comp_of_source(src_text, src, env_terms):
    """specification side: the COMP term of a filtering comprehension written as text; env_terms maps its free names to PV terms
    (names not in the map - functions - are ignored)"""
    node = ast.parse(src_text, mode='eval').body
    text, free = comp_key(node)
    return COMP(text, src, [env_terms[n] for n in free if n in env_terms])


LIST_MUTATORS = ('reverse', 'sort', 'append', 'extend', 'insert', 'pop', 'remove', 'clear')
PVISH = ('pv', 'plist', 'module', 'chars', 'lazylist', 'dictlit', 'dictalt', 'func', 'truthonly', 'slice')
TYPE_TESTS = {'is_pd', 'is_arr', 'is_df', 'is_series', 'is_ts', 'is_num', 'is_int', 'is_str', 'is_date', 'is_bool', 'is_tss', 'is_arrs'}
NUMERIC_BUILTINS = {'len', 'min', 'max', 'abs', 'int', 'bool', 'range', 'zip', 'list', 'tuple', 'sum', 'sorted', 'set', 'enumerate', 'dict',
                    'isinstance', 'getattr', 'all', 'any', 'float', 'str', 'reversed', 'type'}


class Pandas:
    """the theory object.  `mod`: module whose functions are called by contract; `repo`: names of those functions (None = every
    function defined at module level); `handlers`: name -> fn(th, ex, st, args, kwargs) for callee contracts written by the property;
    `kernels`: names of presync-decorated kernels (their call accepts join / method / columns)."""

    def __init__(self, mod, repo=None, handlers=None, modules=('np', 'pd', 'datetime', 'inspect'), presync_kernels=(), extra_mods=(),
                 may_raise=()):
        self.mod = mod
        self.mods = [mod] + list(extra_mods)
        self.repo = None if repo is None else set(repo)
        self.handlers = dict(handlers or {})
        self.modules = set(modules)
        self.events = []
        self.funcs = {}
        self.kernels = set(presync_kernels)
        self.may_raise = set(may_raise)      # 'getitem_slice': x[a:b] on an opaque object may raise (uninterpreted predicate) - for try blocks
        self._opaque = 0

    # ------------------------------------------------------------------ conversions
    def to_pv(self, ex, st, v):
        k = v.kind
        if k == 'lazylist' or k == 'range':
            return sv_pv(self.as_plist(ex, st, v))
        if k == 'func':
            node = v.f.get('node')
            nm = v.f.get('name') or ('lambda@%s' % (getattr(node, 'lineno', '?'),))
            c = Const('fn.%s' % nm, PV)
            self.funcs[c.get_id()] = v
            self.funcs[str(c)] = v
            return c
        if k == 'truthonly':
            c = Const(fresh_name('truthonly'), PV)
            st.assume(TRUTH(c) == v.t)
            return c
        if k == 'dictalt':
            return If(v.t, self.to_pv(ex, st, v.a), self.to_pv(ex, st, v.b))
        if k == 'tuple':
            return TUP(*[self.to_pv(ex, st, x) for x in v.items])
        if k == 'dictlit':
            keys = sorted(v.f['d'])
            return U('dict:' + ','.join(keys), [PV] * len(keys))(*[self.to_pv(ex, st, v.f['d'][q]) for q in keys])
        if k == 'slice':
            return SLICE(*[NONEPV if x is None else self.to_pv(ex, st, x) for x in (v.lo, v.hi, v.step)])
        if k == 'str' and v.t is None:
            t = STR(v.lit)
            for f in base_facts():
                ex.fact(f)
            return t
        if k == 'bool':
            ex.fact(TRUTH(BOOLV(v.t)) == v.t)
        if k == 'int':
            ex.fact(TRUTH(INTV(v.t)) == (v.t != 0))
        return sv_pv(v)

    def convertible(self, v):
        return v.kind in PVISH or v.kind in ('none', 'int', 'bool', 'tuple', 'range') or (v.kind == 'str' and v.t is None)

    def as_plist(self, ex, st, v):
        if v.kind == 'plist':
            return v
        if v.kind in ('lazylist', 'range'):
            n, at = ex.iterate(st, v)
            items = v.f.get('items') if v.kind == 'lazylist' else None
            if items is not None:
                return static_list([self.to_pv(ex, st, x) for x in items])
            j = Int(fresh_name('j!reify'))
            sub = st.fork(); sub.pending = []
            elt = at(sub, j)
            # facts learned while evaluating the element at an arbitrary index are element-wise facts; they stay with the list view only
            return plist(n, Lambda([j], self.to_pv(ex, sub, elt)))
        if v.kind == 'tuple':
            return static_list([self.to_pv(ex, st, x) for x in v.items])
        if v.kind == 'none':
            return static_list([])
        if v.kind == 'pv':
            j = Int(fresh_name('j!seq'))
            return plist(LEN(v.t), Lambda([j], ITEM(v.t, j)))
        raise OutOfSubset('%s is not a sequence' % v.kind)

    def opaque(self, what):
        self._opaque += 1
        return P(Const(fresh_name('opaque!%s' % what), PV))

    def event(self, kind, name, st, **info):
        ev = dict(kind=kind, name=name, pc=list(st.pc) + list(st.guards), **info)
        self.events.append(ev)
        return ev

    def calls(self, name, kind='rcall'):
        return [e for e in self.events if e['kind'] == kind and e['name'] == name]

    # ------------------------------------------------------------------ names, constants, displays
    def name(self, ex, st, ident):
        if ident in self.modules:
            return SV('module', None, name=ident)
        if ident in ex.inline:
            return NotImplemented
        for m in self.mods:
            if m.has_func(ident):
                return SV('func', None, name=ident)
        return NotImplemented

    def constant(self, ex, st, v):
        if isinstance(v, float):
            return P(FLOAT(v))
        if v is Ellipsis:
            return P(GLOBAL('Ellipsis'))
        return NotImplemented

    def expr(self, ex, st, e):
        if isinstance(e, ast.List):
            if any(isinstance(x, ast.Starred) for x in e.elts):
                raise OutOfSubset('starred element in a list display')
            ex.use('axiom:[a, b, ...] is the list of its elements in order')
            vals = [ex.eval(st, x) for x in e.elts]
            r = static_list([self.to_pv(ex, st, x) for x in vals])
            r.f['svs'] = vals
            return r
        if isinstance(e, ast.Slice):
            lo = ex.eval(st, e.lower) if e.lower is not None else None
            hi = ex.eval(st, e.upper) if e.upper is not None else None
            step = ex.eval(st, e.step) if e.step is not None else None
            return SV('slice', None, lo=lo, hi=hi, step=step)
        if isinstance(e, ast.Dict) and all(isinstance(q, ast.Constant) and isinstance(q.value, str) for q in e.keys):
            return SV('dictlit', None, d={q.value: ex.eval(st, v) for q, v in zip(e.keys, e.values)})
        if isinstance(e, (ast.GeneratorExp, ast.Set, ast.SetComp, ast.JoinedStr, ast.Dict)):
            # a value this theory does not look into: an arbitrary object (sound over-approximation; its evaluation has no effect on locals)
            ex.use('engine:generator expressions / set displays / f-strings evaluate to an arbitrary opaque object')
            return self.opaque(type(e).__name__)
        return NotImplemented

    def dictcomp(self, ex, st, e):
        if len(e.generators) == 1:
            g = e.generators[0]
            src = ex.eval(st, g.iter)
            if self.convertible(src):
                text, free = comp_key(e)
                terms = [self.to_pv(ex, st, st.env[n]) for n in free if n in st.env and self.convertible(st.env[n])]
                ex.use('model:a dict comprehension is an uninterpreted function of its source and the locals it reads, named by its key, value and filter expressions')
                return P(COMP(text, self.to_pv(ex, st, src), terms))
        ex.use('engine:dict comprehensions with several generators evaluate to an arbitrary opaque object')
        return self.opaque('DictComp')

    def listcomp(self, ex, st, e):
        if len(e.generators) == 1 and e.generators[0].ifs and id(e) not in ex.loops:
            g = e.generators[0]
            src = ex.eval(st, g.iter)
            if not self.convertible(src):
                return NotImplemented
            text, free = comp_key(e)
            terms = []
            for n in free:
                if n in st.env and self.convertible(st.env[n]):
                    terms.append(self.to_pv(ex, st, st.env[n]))
            ex.use('model:a filtering comprehension is an uninterpreted function of its source list and the locals it reads, named by its element '
                   'and filter expressions (two comprehensions agree iff same expressions over equal inputs)')
            c = COMP(text, self.to_pv(ex, st, src), terms)
            r = self.as_plist(ex, st, P(c))
            ex.fact(LEN(c) >= 0)
            ex.fact(MKLIST(r.n, r.arr) == c)            # a list is the list of its items
            return r
        if len(e.generators) > 1:
            ex.use('engine:comprehensions with several generators evaluate to an arbitrary opaque object')
            return self.opaque('ListComp')
        return NotImplemented

    # ------------------------------------------------------------------ predicates
    def truth(self, ex, st, v):
        if v.kind == 'pv':
            return TRUTH(v.t)
        if v.kind == 'plist':
            return v.n > 0
        if v.kind in ('module', 'func'):
            return BoolVal(True)
        if v.kind == 'chars':
            return BoolVal(len(v.codes) > 0)
        if v.kind == 'dictlit':
            return BoolVal(len(v.f['d']) > 0)
        if v.kind == 'lazylist':
            return v.n > 0
        return NotImplemented

    def is_none(self, ex, st, v):
        if v.kind == 'pv':
            return v.t == NONEPV
        if v.kind in ('plist', 'module', 'chars', 'dictlit', 'dictalt', 'lazylist', 'slice', 'truthonly'):
            return BoolVal(False)
        return NotImplemented

    def isinstance_of(self, ex, st, v, names):
        if v.kind == 'pv':
            ex.use('model:isinstance(x, T) on an opaque value is an uninterpreted predicate per type name')
            for n in names:
                if n == 'list':
                    ex.fact(Implies(ISA('list', v.t), ASL_SEQ(v.t)))
                if n == 'datetime.time':
                    ex.fact(Implies(ISA('datetime.time', v.t), SCALAR(v.t)))
            return isa(v.t, *names)
        if v.kind == 'plist':
            return BoolVal(('list' in names) if v.tag == 'list' else ('np.ndarray' in names))
        if v.kind == 'lazylist':
            return BoolVal('list' in names)
        if v.kind == 'none':
            return BoolVal('type(None)' in names)
        if v.kind == 'chars' or v.kind == 'str':
            return BoolVal('str' in names)
        if v.kind == 'tuple':
            return BoolVal('tuple' in names)
        if v.kind in ('int', 'bool') and not (set(names) - {'int', 'float', 'bool', 'str', 'list', 'tuple', 'dict', 'pd.Index', 'pd.Series', 'pd.DataFrame',
                                                             'np.ndarray', 'datetime.time', 'datetime.datetime', 'zip'}):
            return BoolVal(('int' in names) or (v.kind == 'bool' and 'bool' in names))
        if v.kind == 'dictlit':
            return BoolVal('dict' in names)
        return NotImplemented

    def pre_call(self, ex, st, e):
        if isinstance(e.func, ast.Name) and e.func.id == 'isinstance' and len(e.args) == 2 and not e.keywords:
            v = ex.eval(st, e.args[0])
            tn = e.args[1]
            names = [ast.unparse(x) for x in tn.elts] if isinstance(tn, ast.Tuple) else [ast.unparse(tn)]
            r = self.isinstance_of(ex, st, v, names)
            if r is NotImplemented:
                raise OutOfSubset('isinstance(%s, %s)' % (v.kind, names))
            return B(r)
        if any(q.arg is None for q in e.keywords):
            return self._call_with_double_star(ex, st, e)
        return NotImplemented

    def _call_with_double_star(self, ex, st, e):
        """f(x, k=v, **d) where d is a dict display / dict(...) call (possibly chosen by a conditional expression): the call is made
        with d's entries as keywords; for a conditional d the result is the conditional of the two calls"""
        stars = [ex.eval(st, q.value) for q in e.keywords if q.arg is None]
        alts = [(BoolVal(True), {})]
        for d in stars:
            opts = self._dict_alts(d)
            if opts is None:
                raise OutOfSubset('**%s in call' % d.kind)
            alts = [(And(c1, c2), dict(d1, **d2)) for c1, d1 in alts for c2, d2 in opts]
        ex.use('axiom:f(**d) passes the entries of the dict d as keyword arguments')
        e2 = ast.copy_location(ast.Call(func=e.func, args=e.args, keywords=[q for q in e.keywords if q.arg is not None]), e)
        if isinstance(e.func, ast.Attribute):
            recv = ex.eval(st, e.func.value)
        elif not isinstance(e.func, ast.Name) or (e.func.id in st.env):
            fnv = ex.eval(st, e.func)
        args, kwargs = ex._args(st, e2)
        res = None
        for c, extra in reversed(alts):
            kw = dict(kwargs, **extra)
            if isinstance(e.func, ast.Attribute):
                r = self.method(ex, st, e2, recv, e.func.attr, args, kw)
            elif isinstance(e.func, ast.Name) and e.func.id not in st.env:
                r = self.call(ex, st, e2, e.func.id, args, kw)
            elif fnv.kind == 'func':
                r = ex.call_func(st, fnv, args, kw)
            else:
                r = self.call_value(ex, st, e2, fnv, args, kw)
            if r is NotImplemented:
                raise OutOfSubset('call with ** of %s' % ast.unparse(e.func)[:40])
            res = r if res is None else P(If(simplify(c), self.to_pv(ex, st, r), self.to_pv(ex, st, res)))
        return res

    def _dict_alts(self, d):
        if d.kind == 'dictlit':
            return [(BoolVal(True), dict(d.f['d']))]
        if d.kind == 'dictalt':
            a, b = self._dict_alts(d.a), self._dict_alts(d.b)
            if a is None or b is None:
                return None
            return [(And(d.t, c), x) for c, x in a] + [(And(Not(d.t), c), x) for c, x in b]
        return None

    # ------------------------------------------------------------------ calls
    def _sig(self, fname):
        """(parameter names, default AST nodes by name, accepts extra presync keywords) of a repo function, read from the source"""
        fdef = None
        for m in self.mods:
            if m.has_func(fname):
                fdef, mod = m.func(fname), m
                break
        if fdef is None or not isinstance(fdef, ast.FunctionDef):
            raise SelectorError('no function %s to call by contract' % fname)
        a = fdef.args
        if a.vararg is not None or a.kwarg is not None:
            raise OutOfSubset('%s takes *args / **kwargs: needs a handler' % fname)
        params = [p.arg for p in a.posonlyargs + a.args]
        defaults = {}
        for p, d in zip(params[len(params) - len(a.defaults):], a.defaults):
            defaults[p] = d
        for p, d in zip(a.kwonlyargs, a.kw_defaults):
            params.append(p.arg)
            if d is not None:
                defaults[p.arg] = d
        npos = len(a.posonlyargs + a.args)
        decos = [ast.unparse(d.func if isinstance(d, ast.Call) else d) for d in fdef.decorator_list]
        if 'presync' in decos or fname in self.kernels:
            # presync.wrapped pops join / method / columns from the keywords, falling back to the decorator's index / method / columns
            init = mod.func('presync.__init__')
            ia = init.args
            idef = dict(zip([p.arg for p in ia.args][len(ia.args) - len(ia.defaults):], ia.defaults))
            for kwname, attr in (('join', 'index'), ('method', 'method'), ('columns', 'columns')):
                params.append(kwname)
                dflt = idef.get(attr)
                for d in fdef.decorator_list:
                    if isinstance(d, ast.Call):
                        for q in d.keywords:
                            if q.arg == attr:
                                dflt = q.value
                if dflt is not None:
                    defaults[kwname] = dflt
        return params, defaults, npos

    def rcall(self, ex, st, fname, args, kwargs):
        params, defaults, npos = self._sig(fname)
        if len(args) > npos:
            ex.raise_if(st, BoolVal(True), 'TypeError')
            return NONE
        bound = {}
        for p, v in zip(params, args):
            bound[p] = v
        for q, v in kwargs.items():
            if q not in params or q in bound:
                ex.raise_if(st, BoolVal(True), 'TypeError')      # unexpected / duplicate keyword
                return NONE
            bound[q] = v
        from .symex import State
        for p in params:
            if p not in bound:
                if p not in defaults:
                    ex.raise_if(st, BoolVal(True), 'TypeError')  # missing argument
                    return NONE
                bound[p] = ex.eval(State(), defaults[p])
        terms = [self.to_pv(ex, st, bound[p]) for p in params]
        ex.use('callee contract:%s is called by contract - its result is R.%s(arguments bound by its real signature, defaults read from the source)' % (fname, fname))
        res = P(R(fname, *terms))
        self.event('rcall', fname, st, args=bound, terms=dict(zip(params, terms)), res=res)
        return res

    def _is_repo(self, fname):
        if self.repo is not None:
            return fname in self.repo
        return any(m.has_func(fname) and isinstance(m.func(fname), ast.FunctionDef) for m in self.mods)

    def call(self, ex, st, e, fname, args, kwargs):
        if fname in self.handlers:
            r = self.handlers[fname](self, ex, st, args, kwargs)
            if r is not NotImplemented:
                return r
        if fname in st.env and st.env[fname].kind == 'pv':
            return self.call_value(ex, st, e, st.env[fname], args, kwargs)      # a local bound to an opaque callable
        if fname in ex.inline or (fname in st.env):
            return NotImplemented
        allv = list(args) + list(kwargs.values())
        if fname == 'len' and len(args) == 1:
            a = args[0]
            if a.kind == 'pv':
                ex.fact(LEN(a.t) >= 0)
                return I(LEN(a.t))
            if a.kind == 'plist':
                return I(a.n)
            if a.kind == 'chars':
                return I(len(a.codes))
            if a.kind == 'dictlit':
                return I(len(a.f['d']))
            return NotImplemented
        if fname == 'list' and len(args) == 1 and not kwargs:
            a = args[0]
            if a.kind in ('plist', 'lazylist', 'tuple', 'range'):
                ex.use('axiom:list(xs) is a new list with the elements of xs in order')
                r = self.as_plist(ex, st, a)
                if r.f.get('caller'):           # a copy is the callee's own list
                    r = SV(r.kind, r.t, **{k: v for k, v in r.f.items() if k != 'caller'})
                return r
        if fname == 'list' and not args and not kwargs:
            return static_list([])
        if fname == 'dict' and not args:
            ex.use('axiom:dict(k=v, ...) maps the literal keys to the values')
            return SV('dictlit', None, d=dict(kwargs))
        if fname == 'as_list' and 1 <= len(args) <= 2 and not kwargs:
            if len(args) == 2 and not (args[1].kind == 'bool' and is_false(simplify(args[1].t))):
                raise OutOfSubset('as_list(value, none=...)')
            return self.as_list(ex, st, args[0])
        if fname == 'range' and len(args) == 1 and args[0].kind == 'pv':
            ex.use('axiom:range(n) is 0 .. n-1 (n an opaque integer-like value: TOINT)')
            n = TOINT(args[0].t)
            return SV('range', None, lo=IntVal(0), n=If(n > 0, n, 0), step=1)
        if fname == 'reduce' and len(args) == 3 and not kwargs:
            f = self.to_pv(ex, st, args[0])
            xs = self.as_plist(ex, st, args[1])
            init = self.to_pv(ex, st, args[2])
            ex.use('axiom:functools.reduce(f, xs, init) is the left fold FOLD(f, len(xs), xs, init): FOLD(f,0,xs,i) = i, FOLD(f,k+1,xs,i) = f(FOLD(f,k,xs,i), xs[k])')
            return P(FOLD(f, xs.n, xs.arr, init))
        if fname == 'np.full' and len(args) == 2 and args[0].kind == 'shape' and not kwargs:
            ex.use('axiom:np.full((k,) + rest, v) is an array of k rows, each FULLROW(rest, v); ValueError for k < 0')
            ex.raise_if(st, args[0].n < 0, 'ValueError')
            row = U('full_row', [PV, PV])(args[0].tail, self.to_pv(ex, st, args[1]))
            return plist(args[0].n, K(IntSort(), row), tag='ndarray')
        if fname == 'np.concatenate' and len(args) == 1 and not kwargs and args[0].kind == 'plist' and args[0].f.get('svs') is not None \
                and all(x.kind == 'plist' and x.tag == 'ndarray' for x in args[0].svs) and args[0].svs:
            ex.use('axiom:np.concatenate([a, b, ...]) (axis 0) has the rows of a followed by the rows of b ...')
            out = args[0].svs[0]
            for x in args[0].svs[1:]:
                out = concat(out, x)
            return out
        if fname == 'partial' and args and args[0].kind == 'func':
            fn = args[0]
            return SV('func', None, partial_of=fn, pargs=list(args[1:]), pkw=dict(kwargs), name=None, node=None)
        if fname in ('zip', 'isinstance') or (fname in NUMERIC_BUILTINS and all(v.kind in ('int', 'bool', 'tuple', 'str', 'range', 'none', 'dt', 'td') for v in allv)):
            return NotImplemented
        if self._is_repo(fname) and all(self.convertible(v) for v in allv):
            return self.rcall(ex, st, fname, args, kwargs)
        if fname in TYPE_TESTS and len(args) == 1 and not kwargs and args[0].kind in ('plist', 'lazylist'):
            ex.use('axiom:pyg_base._types predicates on a list / numpy array: is_arr holds exactly for the array')
            return B(fname == 'is_arr' and args[0].kind == 'plist' and args[0].tag == 'ndarray')
        if all(self.convertible(v) for v in allv) and (any(v.kind in PVISH for v in allv) or not allv or '.' in fname
                                                       or (fname not in NUMERIC_BUILTINS and fname not in TYPE_TESTS)):
            ex.use('model:functions of pandas / numpy / other modules are uninterpreted functions of their arguments, one symbol per name and call shape')
            ts = [self.to_pv(ex, st, a) for a in args] + [self.to_pv(ex, st, kwargs[q]) for q in sorted(kwargs)]
            res = P(U(_name('F', fname, len(args), kwargs), [PV] * len(ts))(*ts))
            self.event('fcall', fname, st, args=list(args), kwargs=dict(kwargs), res=res)
            return res
        return NotImplemented

    def as_list(self, ex, st, v):
        ex.use('assumed contract:as_list(x) is x for a list, [] for None, the elements of a tuple / range / dict view, [x] otherwise (pyg_base._as_list)')
        if v.kind == 'plist' and v.tag == 'list':
            return v
        if v.kind in ('none', 'tuple', 'lazylist', 'range'):
            return self.as_plist(ex, st, v)
        if v.kind == 'plist':
            return static_list([sv_pv(v)])
        if v.kind == 'pv':
            t = v.t
            j = Int(fresh_name('j!asl'))
            ex.fact(LEN(t) >= 0)
            n = If(t == NONEPV, 0, If(ASL_SEQ(t), LEN(t), 1))
            return plist(n, Lambda([j], If(ASL_SEQ(t), ITEM(t, j), t)))
        if self.convertible(v):
            return static_list([self.to_pv(ex, st, v)])
        raise OutOfSubset('as_list(%s)' % v.kind)

    def call_value(self, ex, st, e, fn, args, kwargs):
        if fn.kind == 'pv' and all(self.convertible(v) for v in list(args) + list(kwargs.values())):
            ex.use('model:calling an opaque callable is an uninterpreted function of the callable and its arguments')
            ts = [fn.t] + [self.to_pv(ex, st, a) for a in args] + [self.to_pv(ex, st, kwargs[q]) for q in sorted(kwargs)]
            res = P(U(_name('call', 'value', len(args), kwargs), [PV] * len(ts))(*ts))
            self.event('vcall', 'value', st, fn=fn, args=list(args), kwargs=dict(kwargs), res=res)
            return res
        return NotImplemented

    def method(self, ex, st, e, recv, mname, args, kwargs):
        if recv.kind == 'pv' and all(self.convertible(v) for v in list(args) + list(kwargs.values())):
            ex.use('model:methods of pandas / numpy objects are uninterpreted functions of the receiver and the arguments, one symbol per name and call shape')
            ts = [recv.t] + [self.to_pv(ex, st, a) for a in args] + [self.to_pv(ex, st, kwargs[q]) for q in sorted(kwargs)]
            res = P(U(_name('M', mname, len(args), kwargs), [PV] * len(ts))(*ts))
            self.event('mcall', mname, st, recv=recv, args=list(args), kwargs=dict(kwargs), res=res)
            return res
        if recv.kind == 'plist' and recv.tag == 'list' and mname in LIST_MUTATORS:
            # an in-place method of a list: a frame obligation (the target must be a list made by this call, not one the caller handed in);
            # reverse() is then modelled, the others are outside the subset
            own = not recv.f.get('caller')
            fr = getattr(self, 'frame_replay', None)
            ex.oblige(st, 'frame.%s.targets_a_list_created_here' % mname, BoolVal(own), kind='frame',
                      meta=dict(replay=fr, replay_without_model=True) if fr else None)
            if mname == 'reverse' and not args and not kwargs and isinstance(e.func.value, ast.Name):
                ex.use('axiom:xs.reverse() leaves xs with the same length and xs[i] == old xs[len-1-i]; other names bound to the same list are not tracked')
                j = Int(fresh_name('j!rev'))
                new = static_list(recv.items[::-1], recv.tag) if recv.items is not None else plist(recv.n, Lambda([j], Select(recv.arr, recv.n - 1 - j)), tag=recv.tag)
                if recv.f.get('caller'):
                    new.f['caller'] = True
                st.env[e.func.value.id] = new
                return NONE
            raise OutOfSubset('in-place list method %s()' % mname)
        if recv.kind == 'chars' and mname in ('lower', 'upper') and not args:
            return NotImplemented
        if recv.kind == 'dictlit' and mname == 'get' and len(args) == 2 and args[0].kind == 'str' and args[0].t is None:
            return recv.f['d'].get(args[0].lit, args[1])
        if recv.kind == 'plist' and recv.tag == 'ndarray' and all(self.convertible(v) for v in list(args) + list(kwargs.values())):
            return self.method(ex, st, e, P(sv_pv(recv)), mname, args, kwargs)
        return NotImplemented

    def attr(self, ex, st, e, recv, name):
        if recv.kind == 'module':
            return SV('module', None, name=recv.name + '.' + name)
        if recv.kind == 'pv':
            ex.use('model:attributes of pandas / numpy objects are uninterpreted functions of the object')
            return P(A(name, recv.t))
        if recv.kind == 'plist' and recv.tag == 'ndarray':
            if name == 'shape':
                return SV('shape', None, n=recv.n, tail=U('shape_tail', [PV])(ROWTYPE(recv)))
            return P(A(name, sv_pv(recv)))
        return NotImplemented

    # ------------------------------------------------------------------ items
    def subscript(self, ex, st, e, recv, idx):
        if recv.kind == 'pv':
            if not self.convertible(idx):
                return NotImplemented
            ex.use('model:x[i] on an opaque object is an uninterpreted function of the object and the index')
            ti = self.to_pv(ex, st, idx)
            self.event('getitem', 'getitem', st, recv=recv, idx=idx)
            if idx.kind == 'slice' and 'getitem_slice' in self.may_raise:
                ex.use('model:whether x[a:b] on a pandas object raises is an uninterpreted predicate of the object and the bounds')
                ex.raise_if(st, RAISES('getitem', recv.t, ti), 'Exception')
            return P(GETITEM(recv.t, ti))
        if recv.kind == 'lazylist':
            if idx.kind == 'int':
                n, at = recv.n, recv.at
                ex.raise_if(st, Not(And(-n <= idx.t, idx.t < n)), 'IndexError')
                return at(st, If(idx.t < 0, idx.t + n, idx.t))
            recv = self.as_plist(ex, st, recv)
        if recv.kind == 'shape' and idx.kind == 'slice':
            lo = simplify(idx.lo.t) if idx.lo is not None and idx.lo.kind == 'int' else None
            if lo is not None and is_int_value(lo) and lo.as_long() == 1 and idx.hi is None and idx.step is None:
                return SV('shapetail', recv.tail)
            raise OutOfSubset('slice of a shape')
        if recv.kind == 'shape' and idx.kind == 'int':
            k = simplify(idx.t)
            if is_int_value(k) and k.as_long() == 0:
                return I(recv.n)
            return P(GETITEM(recv.tail, INTV(idx.t - 1)))
        if recv.kind != 'plist':
            return NotImplemented
        n = recv.n
        if idx.kind == 'int':
            items = recv.items
            ks = simplify(idx.t)
            if items is not None and is_int_value(ks) and -len(items) <= ks.as_long() < len(items):
                return P(items[ks.as_long()])
            ex.raise_if(st, Not(And(-n <= idx.t, idx.t < n)), 'IndexError')
            ex.use('axiom:xs[i] is the i-th element for 0 <= i < len(xs), the (len+i)-th for -len <= i < 0, IndexError otherwise')
            return P(simplify(Select(recv.arr, If(idx.t < 0, idx.t + n, idx.t))))
        if idx.kind == 'slice':
            for b in (idx.lo, idx.hi, idx.step):
                if b is not None and b.kind != 'int':
                    raise OutOfSubset('list slice with a %s bound' % b.kind)
            step = simplify(idx.step.t) if idx.step is not None else IntVal(1)
            if not is_int_value(step) or step.as_long() not in (1, -1):
                raise OutOfSubset('list slice with step %s' % step)
            if step.as_long() == -1:
                if idx.lo is not None or idx.hi is not None:
                    raise OutOfSubset('reversed slice with bounds')
                ex.use('axiom:xs[::-1] has the same length and xs[::-1][i] == xs[len(xs)-1-i]')
                j = Int(fresh_name('j!rev'))
                items = recv.items[::-1] if recv.items is not None else None
                if items is not None:
                    return static_list(items, recv.tag)
                return plist(n, Lambda([j], Select(recv.arr, n - 1 - j)), tag=recv.tag)
            ex.use('axiom:xs[a:b] has the elements with index max(a\',0) <= i < min(b\',len) where a negative bound counts from the end (a\' = a+len)')
            def norm(b, dflt):
                if b is None:
                    return dflt
                t = If(b.t < 0, b.t + n, b.t)
                return If(t < 0, 0, If(t > n, n, t))
            lo, hi = norm(idx.lo, IntVal(0)), norm(idx.hi, n)
            lo, hi = simplify(lo), simplify(hi)
            if recv.items is not None and is_int_value(lo) and is_int_value(hi):
                return static_list(recv.items[lo.as_long():max(lo.as_long(), hi.as_long())], recv.tag)
            j = Int(fresh_name('j!slc'))
            return plist(simplify(If(hi > lo, hi - lo, 0)), Lambda([j], Select(recv.arr, j + lo)), tag=recv.tag)
        return NotImplemented

    def store_subscript(self, ex, st, tg, recv, idx, v):
        if recv.kind == 'pv' and self.convertible(idx) and self.convertible(v):
            ex.use('model:x[i] = v on an opaque object yields the object SETITEM(x, i, v); other names bound to the same object are not tracked (no aliasing in the verified functions)')
            res = P(SETITEM(recv.t, self.to_pv(ex, st, idx), self.to_pv(ex, st, v)))
            self.event('setitem', 'setitem', st, recv=recv, idx=idx, value=v, res=res, node=tg)
            return res
        return NotImplemented

    def store_attr(self, ex, st, tg, recv, name, v):
        if recv.kind == 'pv' and self.convertible(v):
            ex.use('model:x.a = v on an opaque object yields the object SETATTR_a(x, v)')
            res = P(SETATTR(name, recv.t, self.to_pv(ex, st, v)))
            self.event('setattr', name, st, recv=recv, value=v, res=res, node=tg)
            return res
        return NotImplemented

    def iterate(self, ex, st, it):
        if it.kind == 'plist':
            return it.n, (lambda st2, j, it=it: P(simplify(Select(it.arr, zi(j)))))
        if it.kind == 'pv':
            ex.use('model:iterating an opaque object yields LEN(x) items ITEM(x, j)')
            ex.fact(LEN(it.t) >= 0)
            return LEN(it.t), (lambda st2, j, it=it: P(ITEM(it.t, zi(j))))
        return NotImplemented

    def concrete_items(self, ex, st, it):
        if it.kind == 'plist' and it.items is not None:
            return [P(t) for t in it.items]
        return NotImplemented

    def unpack(self, ex, st, v, n):
        if v.kind == 'chars':
            if n is not None and len(v.codes) != n:
                ex.raise_if(st, BoolVal(True), 'ValueError')
            return T([SV('chars', None, codes=[c]) for c in v.codes])
        if v.kind == 'str' and v.t is None:
            if n is not None and len(v.lit) != n:
                ex.raise_if(st, BoolVal(True), 'ValueError')
            return T([S(c) for c in v.lit])
        if v.kind == 'plist' and v.items is not None:
            return T([P(t) for t in v.items])
        if v.kind == 'pv' and n is not None:
            ex.use('model:unpacking an opaque item into n names yields ITEM(x, 0) .. ITEM(x, n-1) (the item is taken to have n components)')
            return T([P(ITEM(v.t, IntVal(q))) for q in range(n)])
        return NotImplemented

    star = lambda self, ex, st, v: self.unpack(ex, st, v, None)

    # ------------------------------------------------------------------ operators
    def binop(self, ex, st, e, op, a, b):
        if op == 'Add' and a.kind in ('plist', 'lazylist') and b.kind in ('plist', 'lazylist'):
            a, b = self.as_plist(ex, st, a), self.as_plist(ex, st, b)
            if a.tag == 'list' and b.tag == 'list':
                ex.use('axiom:xs + ys is xs followed by ys')
                return concat(a, b)
        if op == 'Add' and a.kind == 'tuple' and b.kind == 'shapetail' and len(a.items) == 1 and a.items[0].kind == 'int':
            return SV('shape', None, n=a.items[0].t, tail=b.t)
        if op == 'Mult' and a.kind == 'plist' and b.kind == 'int' and a.items is not None and len(a.items) == 1:
            j = Int(fresh_name('j!rep'))
            ex.use('axiom:[x] * n is the list of n copies of x (empty for n <= 0)')
            return plist(If(b.t > 0, b.t, 0), K(IntSort(), a.items[0]))
        if (a.kind in PVISH or b.kind in PVISH) and self.convertible(a) and self.convertible(b):
            ex.use('model:arithmetic on opaque objects is an uninterpreted function per operator')
            return P(OP(op, self.to_pv(ex, st, a), self.to_pv(ex, st, b)))
        return NotImplemented

    def augassign(self, ex, st, s, op, cur, v):
        return self.binop(ex, st, None, op, cur, v)

    def unary(self, ex, st, e, op, v):
        if v.kind in PVISH and self.convertible(v):
            ex.use('model:unary operators on opaque objects are uninterpreted functions')
            return P(UN(op, self.to_pv(ex, st, v)))
        return NotImplemented

    def compare_value(self, ex, st, e, op, a, b):
        """a single comparison whose value is not a Python bool: elementwise comparison of pandas / numpy objects"""
        if op not in ('Lt', 'Gt', 'LtE', 'GtE', 'Eq', 'NotEq'):
            return NotImplemented
        if a.kind == 'chars' or b.kind == 'chars':
            return NotImplemented
        if not ((a.kind in ('pv', 'module', 'plist') or b.kind in ('pv', 'module', 'plist')) and self.convertible(a) and self.convertible(b)):
            return NotImplemented
        lit = lambda v: (v.kind == 'str' and v.t is None) or v.kind == 'none'
        if op in ('Eq', 'NotEq') and (lit(a) or lit(b)):
            ex.use('model:x == "literal" on an opaque value holds iff x is that string (strings are injective constants)')
            r = self.to_pv(ex, st, a) == self.to_pv(ex, st, b)
            return B(r if op == 'Eq' else Not(r))
        if a.kind == 'plist' or b.kind == 'plist':
            if a.kind == 'plist' and a.tag == 'ndarray' or b.kind == 'plist' and b.tag == 'ndarray':
                pass
            elif op in ('Eq', 'NotEq'):
                ex.use('axiom:list == x holds iff x is a list with the same elements in the same order (equality of the list terms)')
                r = self.to_pv(ex, st, a) == self.to_pv(ex, st, b)
                return B(r if op == 'Eq' else Not(r))
            else:
                return NotImplemented
        ta, tb = self.to_pv(ex, st, a), self.to_pv(ex, st, b)
        ex.use('model:comparisons between opaque objects are uninterpreted functions per operator (elementwise for arrays); for two ordered scalars '
               'their truth value is the comparison of the order keys')
        ex.fact(cmp_fact(op, ta, tb))
        return P(CMP(op, ta, tb))

    def compare(self, ex, st, e, op, a, b):
        if op in ('In', 'NotIn'):
            r = None
            if a.kind == 'chars' and len(a.codes) == 1 and b.kind == 'str' and b.t is None:
                ex.use('axiom:c in "literal" for a one-character string c holds iff c is one of the literal\'s characters')
                r = Or(*[a.codes[0] == ord(ch) for ch in b.lit]) if b.lit else BoolVal(False)
            elif a.kind == 'str' and a.t is None and b.kind == 'str' and b.t is None:
                r = BoolVal(a.lit in b.lit)
            elif b.kind == 'tuple' and self.convertible(a) and all(self.convertible(x) for x in b.items):
                ta = self.to_pv(ex, st, a)
                r = Or(*[ta == self.to_pv(ex, st, x) for x in b.items]) if b.items else BoolVal(False)
                ex.use('model:x in (literals) holds iff x is one of them')
            elif b.kind == 'plist' and b.items is not None and self.convertible(a):
                ta = self.to_pv(ex, st, a)
                r = Or(*[ta == t for t in b.items]) if b.items else BoolVal(False)
                ex.use('model:x in [literals] holds iff x is one of them')
            elif b.kind == 'pv' and self.convertible(a):
                ex.use('model:x in <opaque container> is an uninterpreted predicate')
                r = CONTAINS(b.t, self.to_pv(ex, st, a))
            elif b.kind == 'plist' and self.convertible(a):
                r = CONTAINS(sv_pv(b), self.to_pv(ex, st, a))
            if r is not None:
                return r if op == 'In' else Not(r)
        if op in ('Eq', 'NotEq') and a.kind == 'chars' and b.kind == 'str' and b.t is None:
            r = And(*[c == ord(ch) for c, ch in zip(a.codes, b.lit)]) if len(a.codes) == len(b.lit) else BoolVal(False)
            return r if op == 'Eq' else Not(r)
        if op in ('Is', 'IsNot') and a.kind == 'pv' and b.kind == 'pv':
            r = a.t == b.t
            return r if op == 'Is' else Not(r)
        if op in ('Is', 'IsNot') and self.convertible(a) and self.convertible(b) and (a.kind == 'pv' or b.kind == 'pv'):
            r = self.to_pv(ex, st, a) == self.to_pv(ex, st, b)
            return r if op == 'Is' else Not(r)
        if op in ('Eq', 'NotEq', 'Lt', 'Gt', 'LtE', 'GtE') and self.convertible(a) and self.convertible(b) and (a.kind in PVISH or b.kind in PVISH):
            # inside a comparison chain: the truth value of the elementwise comparison
            ta, tb = self.to_pv(ex, st, a), self.to_pv(ex, st, b)
            ex.fact(cmp_fact(op, ta, tb))
            return TRUTH(CMP(op, ta, tb))
        return NotImplemented

    def merge(self, ex, st, cond, a, b):
        if a.kind == 'dictlit' and b.kind == 'dictlit' or a.kind in ('dictlit', 'dictalt') and b.kind in ('dictlit', 'dictalt'):
            return SV('dictalt', cond, a=a, b=b)
        if a.kind == 'plist' and b.kind == 'plist' and a.tag == b.tag:
            return plist(If(cond, a.n, b.n), If(cond, a.arr, b.arr), tag=a.tag)
        if self.convertible(a) and self.convertible(b) and 'func' not in (a.kind, b.kind):
            return P(If(cond, self.to_pv(ex, st, a), self.to_pv(ex, st, b)))
        return NotImplemented

    def fresh_like(self, ex, st, name, v):
        if v.kind == 'pv':
            return P(Const(fresh_name(name), PV))
        if v.kind == 'plist':
            n = fresh_int(name + '_n')
            st.pc.append(n >= 0)
            return plist(n, Const(fresh_name(name + '_a'), PArr), tag=v.tag)
        if v.kind == 'dictlit':
            return SV('dictlit', None, d={q: self.fresh_like(ex, st, '%s_%s' % (name, q), x if x.kind == 'pv' else P(self.to_pv(ex, st, x))) for q, x in v.f['d'].items()})
        if v.kind in ('module', 'str', 'chars', 'truthonly', 'dictalt', 'lazylist'):
            if v.kind == 'lazylist':
                return self.fresh_like(ex, st, name, self.as_plist(ex, st, v))
            return P(Const(fresh_name(name), PV))
        return NotImplemented


def ROWTYPE(arr_sv):
    """what np.full needs to know of an array beyond its length: the shape of one row (uninterpreted)"""
    return sv_pv(arr_sv)


def as_list_of(t):
    """specification side: as_list(x) of an opaque value x as a list view (same term the theory builds)"""
    t = pv(t)
    j = Int(fresh_name('j!asl'))
    return plist(If(t == NONEPV, 0, If(ASL_SEQ(t), LEN(t), 1)), Lambda([j], If(ASL_SEQ(t), ITEM(t, j), t)))


def seq_of(t):
    """specification side: the items of an opaque iterable as a list view"""
    t = pv(t)
    j = Int(fresh_name('j!seq'))
    return plist(LEN(t), Lambda([j], ITEM(t, j)))


def mapped(lst, fn):
    """specification side: [fn(x) for x in lst] as a list view (fn: PV term -> PV term)"""
    j = Int(fresh_name('j!map'))
    return plist(lst.n, Lambda([j], fn(Select(lst.arr, j))))


def concat(a, b):
    if a.items is not None and b.items is not None:
        return static_list(a.items + b.items, a.tag)
    j = Int(fresh_name('j!cat'))
    return plist(simplify(a.n + b.n), Lambda([j], If(j < a.n, Select(a.arr, j), Select(b.arr, j - a.n))), tag=a.tag)


def at(lst, j):
    """j-th element (PV term) of a plist value"""
    return simplify(Select(lst.arr, zi(j)))


def fresh_plist(name, tag='list', n=None):
    return plist(Int(name + '_n') if n is None else n, Const(name + '_a', PArr), tag=tag)


def run_def(ex, st, fdef, args=(), kwargs=None):
    """execute the body of a function definition on a fork of st without registering it for inlining (recursive calls and calls of
    other repo functions stay calls by contract).  Returns outcomes of kind return / raise."""
    from .front import strip_doc
    from .symex import Outcome
    env = ex.bind(fdef, list(args), dict(kwargs or {}))
    sub = st.fork(); sub.env = env
    ex._resolve_defaults(sub, env)
    outs = ex.run_block(sub, strip_doc(fdef.body))
    res = []
    for o in outs:
        if o.kind == 'next':
            res.append(Outcome('return', o.st, NONE))
        elif o.kind in ('return', 'raise'):
            res.append(o)
        else:
            raise OutOfSubset('%s escaping %s' % (o.kind, fdef.name))
    return res

