"""Lists, tuples-of-lists and opaque values.

A Python list is (len : Int, content : arrays).  Content is stored *columnwise*: a list of ints is one z3 Array Int->Int,
a list of (key, rowlist) tuples is three arrays (keys : Int->Val, row lengths : Int->Int, rows : Int->(Int->Int)).  That makes
`zip(*xs)` and `zip(a, b)` the identity on the representation and keeps every query in the array theory.

Opaque Python objects (table cells, keys) are terms of the uninterpreted sort Val; `cmp` on them is the uninterpreted
function cmpf constrained by the laws that C07 establishes for the real cmp (assumed here, listed in the trusted base)."""
import ast
import z3
from z3 import (And, Or, Not, If, Implies, IntVal, BoolVal, IntSort, BoolSort, ArraySort, Array, Store, Select, Lambda, K,
                Function, DeclareSort, Const, Consts, ForAll, Int, simplify, is_true)

from .front import OutOfSubset
from .sv import SV, I, B, T, NONE, fresh_name, fresh_int, zi

Val = DeclareSort('Val')
NONEV = Const('None!val', Val)
cmpf = Function('cmp', Val, Val, IntSort())
mkint = Function('mkint', IntSort(), Val)


def V(t):
    return SV('val', t)


def cmp_laws():
    """laws of the real cmp on the key universe (C07): range, antisymmetry, reflexivity, transitivity"""
    a, b, c = Consts('a!cmp b!cmp c!cmp', Val)
    return [ForAll([a, b], And(cmpf(a, b) >= -1, cmpf(a, b) <= 1)),
            ForAll([a, b], cmpf(a, b) == -cmpf(b, a)),
            ForAll([a, b, c], Implies(And(cmpf(a, b) <= 0, cmpf(b, c) <= 0), cmpf(a, c) <= 0), patterns=[z3.MultiPattern(cmpf(a, b), cmpf(b, c))]),
            ForAll([a, b, c], Implies(And(cmpf(a, b) < 0, cmpf(b, c) <= 0), cmpf(a, c) < 0), patterns=[z3.MultiPattern(cmpf(a, b), cmpf(b, c))]),
            ForAll([a, b, c], Implies(And(cmpf(a, b) <= 0, cmpf(b, c) < 0), cmpf(a, c) < 0), patterns=[z3.MultiPattern(cmpf(a, b), cmpf(b, c))])]


# ------------------------------------------------------------------------------------------------ element types
class ETy:
    def __init__(self, kind, sub=()):
        self.kind, self.sub = kind, tuple(sub)

    def __eq__(self, o):
        return isinstance(o, ETy) and self.kind == o.kind and self.sub == o.sub

    def __hash__(self):
        return hash((self.kind, self.sub))

    def __repr__(self):
        return self.kind if not self.sub else '%s%s' % (self.kind, list(self.sub))


INT, VAL = ETy('int'), ETy('val')


def LIST(e):
    return ETy('list', [e])


def TUP(*es):
    return ETy('tuple', es)


def sorts(ety):
    """z3 sorts of the flattened representation of one value of type ety"""
    if ety.kind == 'int':
        return [IntSort()]
    if ety.kind == 'val':
        return [Val]
    if ety.kind == 'list':
        return [IntSort()] + [ArraySort(IntSort(), s) for s in sorts(ety.sub[0])]
    if ety.kind == 'tuple':
        out = []
        for e in ety.sub:
            out += sorts(e)
        return out
    raise OutOfSubset('element type %s' % ety)


def from_rep(ety, terms):
    if ety.kind == 'int':
        return I(terms[0])
    if ety.kind == 'val':
        return V(terms[0])
    if ety.kind == 'list':
        return SV('list', terms[0], ety=ety.sub[0], arrs=list(terms[1:]))
    items, k = [], 0
    for e in ety.sub:
        w = len(sorts(e))
        items.append(from_rep(e, terms[k:k + w]))
        k += w
    return T(items)


def ety_of(sv):
    if sv.kind in ('int', 'bool'):
        return INT
    if sv.kind in ('val', 'none'):
        return VAL
    if sv.kind == 'list':
        if sv.f.get('ety') is None:
            raise OutOfSubset('element type of an empty list literal is not known yet')
        return LIST(sv.ety)
    if sv.kind == 'range':
        return LIST(INT)
    if sv.kind == 'tuple':
        return TUP(*[ety_of(x) for x in sv.items])
    raise OutOfSubset('no element type for %s' % sv.kind)


def to_rep(ety, sv):
    if ety.kind == 'int':
        if sv.kind == 'int':
            return [sv.t]
        if sv.kind == 'bool':
            return [If(sv.t, 1, 0)]
    if ety.kind == 'val':
        if sv.kind == 'val':
            return [sv.t]
        if sv.kind == 'none':
            return [NONEV]
        if sv.kind == 'int':
            return [mkint(sv.t)]
    if ety.kind == 'list':
        sv = as_list_sv(sv, ety.sub[0])
        return [sv.t] + list(sv.arrs)
    if ety.kind == 'tuple' and sv.kind == 'tuple' and len(sv.items) == len(ety.sub):
        out = []
        for e, x in zip(ety.sub, sv.items):
            out += to_rep(e, x)
        return out
    raise OutOfSubset('cannot store %s as %s' % (sv.kind, ety))


def fresh_list(ety, prefix='L', n=None):
    arrs = [Const(fresh_name(prefix + '_a'), ArraySort(IntSort(), s)) for s in sorts(ety)]
    return SV('list', fresh_int(prefix + '_n') if n is None else zi(n), ety=ety, arrs=arrs)


def as_list_sv(sv, ety=None):
    """normalise range / empty literal to the array representation"""
    if sv.kind == 'list':
        if sv.f.get('ety') is None:
            if ety is None:
                raise OutOfSubset('empty list of unknown element type')
            return SV('list', IntVal(0), ety=ety, arrs=[Const(fresh_name('E_a'), ArraySort(IntSort(), s)) for s in sorts(ety)])
        return sv
    if sv.kind == 'range':
        j = Int('j!rng')
        return SV('list', sv.n, ety=INT, arrs=[Lambda([j], sv.lo + j * sv.step)])
    raise OutOfSubset('%s is not a list' % sv.kind)


def at(lst, i):
    lst = as_list_sv(lst)
    return from_rep(lst.ety, [Select(a, i) for a in lst.arrs])


class Lists:
    def __init__(self, cmp_name='cmp'):
        self.cmp_name = cmp_name

    # ---- construction
    def expr(self, ex, st, e):
        if isinstance(e, ast.List):
            items = [ex.eval(st, x) for x in e.elts]
            if not items:
                return SV('list', IntVal(0), ety=None, arrs=None)
            ety = ety_of(items[0])
            arrs = [Const(fresh_name('lit_a'), ArraySort(IntSort(), s)) for s in sorts(ety)]
            for k, it in enumerate(items):
                arrs = [Store(a, k, r) for a, r in zip(arrs, to_rep(ety, it))]
            return SV('list', IntVal(len(items)), ety=ety, arrs=arrs)
        return NotImplemented

    def call(self, ex, st, e, fname, args, kwargs):
        if fname == 'len' and len(args) == 1 and args[0].kind == 'list':
            return I(args[0].t)
        if fname == 'list' and len(args) == 1 and args[0].kind in ('list', 'range'):
            return as_list_sv(args[0]) if args[0].kind == 'range' or args[0].f.get('ety') is not None else args[0]
        if fname == 'zip' and len(args) == 1 and args[0].kind == 'starred_list':
            raise OutOfSubset('zip(*x) handled in pre_call')
        if fname == 'zip' and len(args) >= 2 and all(a.kind in ('list', 'range') for a in args):
            ls = [as_list_sv(a) for a in args]
            ex.oblige(st, 'zip.equal_lengths', And(*[l.t == ls[0].t for l in ls[1:]]), kind='pre')
            ex.use('axiom:zip of equally long lists is the list of tuples (columnwise representation)')
            arrs = []
            for l in ls:
                arrs += l.arrs
            return SV('list', ls[0].t, ety=TUP(*[l.ety for l in ls]), arrs=arrs)
        if fname == self.cmp_name and len(args) == 2 and all(a.kind in ('val', 'none') for a in args):
            ex.use('assumed contract:cmp is a total preorder with values in {-1,0,1} on the key universe (property C07)')
            a, b = [to_rep(VAL, x)[0] for x in args]
            return I(cmpf(a, b))
        return NotImplemented

    def pre_call(self, ex, st, e):
        # zip(*xs): transpose of a list of tuples = the tuple of its columns
        if isinstance(e.func, ast.Name) and e.func.id == 'zip' and len(e.args) == 1 and isinstance(e.args[0], ast.Starred):
            xs = ex.eval(st, e.args[0].value)
            if xs.kind != 'list' or xs.f.get('ety') is None or xs.ety.kind != 'tuple':
                raise OutOfSubset('zip(*x) of %s' % xs.kind)
            ex.use('axiom:zip(*xs) of a non-empty list of k-tuples is the k-tuple of its columns (taken as lists)')
            ex.raise_if(st, xs.t == 0, 'ValueError')      # unpacking `a, b = zip(*[])` fails
            cols, k = [], 0
            for sub in xs.ety.sub:
                w = len(sorts(sub))
                cols.append(SV('list', xs.t, ety=sub, arrs=xs.arrs[k:k + w]))
                k += w
            return T(cols)
        return NotImplemented

    # ---- access
    def subscript(self, ex, st, e, recv, idx):
        if recv.kind in ('list', 'range') and idx.kind == 'int':
            lst = as_list_sv(recv)
            i = idx.t
            si = simplify(i)
            if z3.is_int_value(si) and si.as_long() < 0:
                i = lst.t + i
            ex.raise_if(st, Not(And(0 <= i, i < lst.t)), 'IndexError')
            return at(lst, i)
        if recv.kind in ('list', 'range') and idx.kind == 'slice' and idx.step is None and idx.hi is None and idx.lo is not None \
                and idx.lo.kind == 'int':
            lst = as_list_sv(recv)
            lo = idx.lo.t
            j = Int('j!slc')
            ex.use('axiom:xs[a:] for 0 <= a <= len(xs) is the suffix of xs')
            ex.oblige(st, 'slice.lower_in_range', And(0 <= lo, lo <= lst.t), kind='pre')
            return SV('list', lst.t - lo, ety=lst.ety, arrs=[Lambda([j], Select(a, j + lo)) for a in lst.arrs])
        return NotImplemented

    def method(self, ex, st, e, recv, mname, args, kwargs):
        if recv.kind == 'list' and mname == 'append' and len(args) == 1:
            x = args[0]
            ety = recv.f.get('ety') or ety_of(x)
            lst = as_list_sv(recv, ety)
            arrs = [Store(a, lst.t, r) for a, r in zip(lst.arrs, to_rep(ety, x))]
            new = SV('list', lst.t + 1, ety=ety, arrs=arrs)
            if isinstance(e.func.value, ast.Name):
                st.env[e.func.value.id] = new
            else:
                raise OutOfSubset('append through %s' % ast.unparse(e.func.value)[:40])
            return NONE
        return NotImplemented

    def iterate(self, ex, st, it):
        if it.kind == 'list' and it.f.get('ety') is not None:
            return it.t, (lambda st2, k: at(it, k))
        return NotImplemented

    def truth(self, ex, st, v):
        if v.kind == 'list':
            return v.t > 0
        if v.kind == 'val':
            raise OutOfSubset('truth value of an opaque value')
        return NotImplemented

    def is_none(self, ex, st, v):
        if v.kind == 'val':
            return v.t == NONEV
        return NotImplemented

    def fresh_like(self, ex, st, name, v):
        if v.kind == 'list':
            if v.f.get('ety') is None:
                raise OutOfSubset('cannot havoc the empty list literal %s: the loop contract must give its element type (LoopSpec.protos)' % name)
            return fresh_list(v.ety, name)
        if v.kind == 'val':
            return V(Const(fresh_name(name), Val))
        return NotImplemented

    def compare(self, ex, st, e, op, a, b):
        if op in ('Eq', 'NotEq') and a.kind == 'list' and b.kind == 'list' and (a.f.get('ety') is None or b.f.get('ety') is None):
            other = b if a.f.get('ety') is None else a
            r = other.t == 0
            return r if op == 'Eq' else Not(r)
        return NotImplemented


def list_eq(a, b):
    """extensional equality of two list values of the same element type (used in contracts)"""
    a, b = as_list_sv(a), as_list_sv(b)
    j = Int('j!leq')
    conj = [a.t == b.t]
    for x, y in zip(a.arrs, b.arrs):
        conj.append(ForAll([j], Implies(And(0 <= j, j < a.t), Select(x, j) == Select(y, j))))
    return And(*conj)
