"""Symbolic executor over the real AST.

Control flow, names, ints, bools, None, tuples, string literals, short-circuit boolean operators, conditional
expressions, inlined calls, loops with sidecar invariants (assert / havoc / assume / fork) and try/except are
handled here.  Everything about *data* (datetimes, tokens, lists, dicts, keys, calls with a contract) is delegated to
theory objects (the axiom table); a construct no theory understands aborts the function with OutOfSubset.
"""
import ast
import z3
from z3 import And, Or, Not, If, Implies, BoolVal, IntVal, simplify, is_true, is_false

from .front import OutOfSubset, strip_doc
from .sv import SV, I, B, S, T, NONE, fdiv, fmod, merge_sv, fresh_name, fresh_int, fresh_bool, zi


class State:
    def __init__(self, env=None, pc=None, ghost=None):
        self.env = dict(env or {})
        self.pc = list(pc or [])
        self.ghost = dict(ghost or {})
        self.guards = []        # short-circuit guards active while evaluating a sub-expression
        self.pending = []       # raise outcomes produced while evaluating expressions
        self.trace = []         # branch decisions (for path names)

    def fork(self):
        s = State(self.env, self.pc, self.ghost)
        s.trace = list(self.trace)
        s.guards = list(self.guards)
        return s

    def assume(self, c):
        if self.guards:
            c = Implies(And(*self.guards), c)
        self.pc.append(c)

    def hyps(self):
        return self.pc + self.guards


class Outcome:
    __slots__ = ('kind', 'st', 'val')

    def __init__(self, kind, st, val=None):
        self.kind, self.st, self.val = kind, st, val   # kind: next | return | raise | break | continue

    def __repr__(self):
        return 'Outcome(%s,%s)' % (self.kind, self.val)


class Obligation:
    def __init__(self, name, hyps, goal, kind='post', meta=None, witness=None):
        self.name, self.hyps, self.goal, self.kind = name, list(hyps), goal, kind
        self.meta = meta or {}
        self.witness = witness or {}


class LoopSpec:
    """Sidecar loop contract.  inv(st, entry_st) -> list of (clause_name, z3 Bool); variant(st) -> z3 Int (>= 0,
    strictly decreasing) or None for `for` loops over a finite sequence; ghost: names in st.ghost havocked with the loop;
    fresh(name, sv) optional custom havoc."""

    def __init__(self, name, inv, variant=None, ghost_havoc=None, extra_mods=(), keep=(), protos=None):
        self.name, self.inv, self.variant = name, inv, variant
        self.protos = protos or {}           # name -> prototype SV used to havoc a variable whose shape at loop entry differs
                                             # from its shape inside the loop (prev = None before, a key afterwards)
        self.ghost_havoc = ghost_havoc       # fn(ex, st) -> None : replace ghost state by fresh symbols
        self.extra_mods = tuple(extra_mods)
        self.keep = tuple(keep)              # assigned names that need no havoc (re-initialised in every iteration before use)


class Exec:
    def __init__(self, mod, theories, loops=None, inline=None, hooks=None, name='', raises_ok=(), prune=True,
                 globals_=None):
        self.mod = mod
        self.theories = list(theories)
        self.loops = loops or {}          # id(loop node) -> LoopSpec
        self.inline = inline or {}        # function name -> (Mod, FunctionDef)
        self.hooks = hooks or []          # (predicate(stmt), fn(ex, st, stmt)) run after a matching statement
        self.name = name
        self.obligations = []
        self.notes = []
        self.trusted = set()              # axiom-table entries and assumed contracts actually used
        self.stmts_executed = set()
        self.prune = prune
        self.globals = globals_ or {}
        self.depth = 0
        self._fact_ids = set()
        self.facts = []                   # instances of axioms (always true); part of every obligation's hypotheses
        self._solver = z3.Solver()
        self._solver.set('timeout', 400)

    # ------------------------------------------------------------------ obligations
    def oblige(self, st, name, goal, kind='safety', witness=None, meta=None):
        self.obligations.append(Obligation('%s.%s' % (self.name, name) if self.name else name, self.facts + st.hyps(), goal, kind,
                                           meta=meta, witness=witness))

    def use(self, what):
        self.trusted.add(what)

    def fact(self, f):
        if f.get_id() not in self._fact_ids:
            self._fact_ids.add(f.get_id())
            self.facts.append(f)

    def raise_if(self, st, cond, exc):
        """the expression being evaluated raises `exc` when cond holds; evaluation continues under not cond"""
        c = And(*(st.guards + [cond])) if st.guards else cond
        side = st.fork(); side.guards = []; side.pc.append(c)
        st.pending.append(Outcome('raise', side, exc))
        st.assume(Not(cond))

    def feasible(self, st, extra=None):
        if not self.prune:
            return True
        self._solver.push()
        try:
            self._solver.add(*self.facts)
            self._solver.add(*st.pc)
            if extra is not None:
                self._solver.add(extra)
            return self._solver.check() != z3.unsat
        finally:
            self._solver.pop()

    # ------------------------------------------------------------------ expressions
    def truth(self, st, v):
        if v.kind in ('bool', 'truthonly'):
            return v.t
        if v.kind == 'int':
            return v.t != 0
        if v.kind == 'none':
            return BoolVal(False)
        if v.kind == 'str' and v.t is None:
            return BoolVal(len(v.lit) > 0)
        if v.kind == 'tuple':
            return BoolVal(len(v.items) > 0)
        for th in self.theories:
            h = getattr(th, 'truth', None)
            if h:
                r = h(self, st, v)
                if r is not NotImplemented:
                    return r
        raise OutOfSubset('truth value of %s' % v.kind)

    def _dispatch(self, hook, *a):
        for th in self.theories:
            h = getattr(th, hook, None)
            if h:
                r = h(self, *a)
                if r is not NotImplemented:
                    return r
        return NotImplemented

    def eval(self, st, e):
        m = getattr(self, 'e_' + type(e).__name__, None)
        if m is None:
            r = self._dispatch('expr', st, e)
            if r is NotImplemented:
                raise OutOfSubset('expression %s: %s' % (type(e).__name__, ast.unparse(e)[:60]))
            return r
        return m(st, e)

    def e_Constant(self, st, e):
        v = e.value
        if isinstance(v, bool):
            return B(v)
        if isinstance(v, int):
            return I(v)
        if isinstance(v, str):
            return S(v)
        if v is None:
            return NONE
        r = self._dispatch('constant', st, v)
        if r is NotImplemented:
            raise OutOfSubset('constant %r' % (v,))
        return r

    def e_Name(self, st, e):
        if e.id in st.env:
            return st.env[e.id]
        r = self._dispatch('name', st, e.id)
        if r is not NotImplemented:
            return r
        if e.id in self.globals:
            return self.globals[e.id]
        if e.id in self.inline:
            return SV('func', None, name=e.id)
        raise OutOfSubset('unbound name %s' % e.id)

    def e_Tuple(self, st, e):
        return T([self.eval(st, x) for x in e.elts])

    def e_UnaryOp(self, st, e):
        v = self.eval(st, e.operand)
        if isinstance(e.op, ast.Not):
            return B(Not(self.truth(st, v)))
        if isinstance(e.op, ast.USub):
            if v.kind == 'int':
                return I(-v.t)
            r = self._dispatch('unary', st, e, 'USub', v)
            if r is not NotImplemented:
                return r
        if isinstance(e.op, ast.UAdd) and v.kind == 'int':
            return v
        if not isinstance(e.op, ast.USub):
            r = self._dispatch('unary', st, e, type(e.op).__name__, v)     # ~x, +x on theory values
            if r is not NotImplemented:
                return r
        raise OutOfSubset('unary %s on %s' % (type(e.op).__name__, v.kind))

    def e_BinOp(self, st, e):
        a, b = self.eval(st, e.left), self.eval(st, e.right)
        return self.binop(st, e, type(e.op).__name__, a, b)

    def binop(self, st, e, op, a, b):
        if a.kind == 'bool' and b.kind in ('int', 'bool'):
            a = I(If(a.t, 1, 0))
        if b.kind == 'bool' and a.kind == 'int':
            b = I(If(b.t, 1, 0))
        if a.kind == 'int' and b.kind == 'int':
            if op == 'Add':
                return I(a.t + b.t)
            if op == 'Sub':
                return I(a.t - b.t)
            if op == 'Mult':
                sa, sb = simplify(a.t), simplify(b.t)
                if not (z3.is_int_value(sa) or z3.is_int_value(sb)):
                    r = self._dispatch('nonlinear', st, e, a, b)
                    if r is not NotImplemented:
                        return r
                    raise OutOfSubset('product of two symbolic integers: %s' % ast.unparse(e)[:60])
                return I(a.t * b.t)
            if op in ('FloorDiv', 'Mod'):
                sb = simplify(b.t)
                if z3.is_int_value(sb):
                    if sb.as_long() == 0:
                        self.raise_if(st, BoolVal(True), 'ZeroDivisionError')
                        return I(fresh_int('undef'))
                else:
                    self.raise_if(st, b.t == 0, 'ZeroDivisionError')
                return I(fdiv(a.t, b.t) if op == 'FloorDiv' else fmod(a.t, b.t))
        r = self._dispatch('binop', st, e, op, a, b)
        if r is not NotImplemented:
            return r
        raise OutOfSubset('binop %s %s %s: %s' % (a.kind, op, b.kind, ast.unparse(e)[:60] if e is not None else ''))

    def e_BoolOp(self, st, e):
        isand = isinstance(e.op, ast.And)
        terms = []
        pushed = 0
        result_kinds = set()
        vals = []
        try:
            for v in e.values:
                sv = self.eval(st, v)
                vals.append(sv)
                t = simplify(self.truth(st, sv))
                if (isand and is_false(t)) or ((not isand) and is_true(t)):
                    terms.append(t)
                    break                       # later operands are never evaluated
                terms.append(t)
                st.guards.append(t if isand else Not(t)); pushed += 1
        finally:
            for _ in range(pushed):
                st.guards.pop()
        if all(v.kind == 'bool' for v in vals):
            return B(And(*terms) if isand else Or(*terms))
        # value-returning and/or:  a or b  ==  a if truth(a) else b
        res = vals[-1]
        for v, t in zip(reversed(vals[:-1]), reversed(terms[:-1])):
            cond = Not(t) if isand else t
            m = merge_sv(cond, v, res)
            if m is None:
                ts = simplify(cond)
                if is_true(ts):
                    m = v
                elif is_false(ts):
                    m = res
                else:
                    m = self._dispatch('merge', st, cond, v, res)          # theory values (same hook as conditional expressions)
                    if m is NotImplemented:
                        # operands of different shape: only the truth value of the whole expression is representable
                        return SV('truthonly', And(*terms) if isand else Or(*terms))
            res = m
        return res

    def eval_truth(self, st, e):
        """truth value of a test expression.  `a and b` / `a or b` / `not a` in a test position only need the truth of their
        operands (args and args[0] in (...)), not a merged value; short-circuit evaluation is kept."""
        if isinstance(e, ast.BoolOp):
            isand = isinstance(e.op, ast.And)
            terms, pushed = [], 0
            try:
                for v in e.values:
                    t = simplify(self.eval_truth(st, v))
                    terms.append(t)
                    if (isand and is_false(t)) or ((not isand) and is_true(t)):
                        break
                    st.guards.append(t if isand else Not(t)); pushed += 1
            finally:
                for _ in range(pushed):
                    st.guards.pop()
            return And(*terms) if isand else Or(*terms)
        if isinstance(e, ast.UnaryOp) and isinstance(e.op, ast.Not):
            return Not(self.eval_truth(st, e.operand))
        return self.truth(st, self.eval(st, e))

    def e_IfExp(self, st, e):
        c = simplify(self.eval_truth(st, e.test))
        if is_true(c):
            return self.eval(st, e.body)
        if is_false(c):
            return self.eval(st, e.orelse)
        st.guards.append(c)
        try:
            a = self.eval(st, e.body)
        finally:
            st.guards.pop()
        st.guards.append(Not(c))
        try:
            b = self.eval(st, e.orelse)
        finally:
            st.guards.pop()
        m = merge_sv(c, a, b)
        if m is None:
            m = self._dispatch('merge', st, c, a, b)
            if m is NotImplemented:
                raise OutOfSubset('conditional expression over different shapes: %s' % ast.unparse(e)[:60])
        return m

    def e_Compare(self, st, e):
        left = self.eval(st, e.left)
        if len(e.ops) == 1:
            # a single comparison may have a non-boolean value (elementwise comparison of arrays): theories' compare_value hook
            right0 = self.eval(st, e.comparators[0])
            r = self._dispatch('compare_value', st, e, type(e.ops[0]).__name__, left, right0)
            if r is not NotImplemented:
                return r
            return B(self.compare(st, e, type(e.ops[0]).__name__, left, right0))
        terms = []
        pushed = 0
        try:
            for op, rn in zip(e.ops, e.comparators):
                right = self.eval(st, rn)
                t = self.compare(st, e, type(op).__name__, left, right)
                terms.append(t)
                st.guards.append(t); pushed += 1
                left = right
        finally:
            for _ in range(pushed):
                st.guards.pop()
        return B(And(*terms) if len(terms) > 1 else terms[0])

    def compare(self, st, e, op, a, b):
        if a.kind == 'bool' and b.kind == 'int':
            a = I(If(a.t, 1, 0))
        if b.kind == 'bool' and a.kind == 'int':
            b = I(If(b.t, 1, 0))
        if a.kind == 'int' and b.kind == 'int':
            x, y = a.t, b.t
            return {'Lt': x < y, 'Gt': x > y, 'LtE': x <= y, 'GtE': x >= y, 'Eq': x == y, 'NotEq': x != y,
                    'Is': x == y, 'IsNot': x != y}[op] if op in ('Lt', 'Gt', 'LtE', 'GtE', 'Eq', 'NotEq') else self._cmp_other(st, e, op, a, b)
        if a.kind == 'bool' and b.kind == 'bool' and op in ('Eq', 'NotEq', 'Is', 'IsNot'):
            return (a.t == b.t) if op in ('Eq', 'Is') else (a.t != b.t)
        if op in ('Is', 'IsNot') and (a.kind == 'none' or b.kind == 'none'):
            if a.kind == 'none' and b.kind == 'none':
                return BoolVal(op == 'Is')
            other = b if a.kind == 'none' else a
            r = self._dispatch('is_none', st, other)
            if r is NotImplemented:
                if other.kind in ('int', 'bool', 'str', 'dt', 'td', 'tuple', 'list', 'dict', 'tok', 'func'):
                    r = BoolVal(False)
                else:
                    raise OutOfSubset('is None on %s' % other.kind)
            return r if op == 'Is' else Not(r)
        if a.kind == 'str' and b.kind == 'str' and a.t is None and b.t is None and op in ('Eq', 'NotEq'):
            return BoolVal((a.lit == b.lit) == (op == 'Eq'))
        if a.kind == 'none' and b.kind == 'none' and op in ('Eq', 'NotEq'):
            return BoolVal(op == 'Eq')
        if a.kind == 'tuple' and b.kind == 'tuple' and op in ('Eq', 'NotEq'):
            if len(a.items) != len(b.items):
                return BoolVal(op == 'NotEq')
            eqs = [self.compare(st, e, 'Eq', x, y) for x, y in zip(a.items, b.items)]
            r = And(*eqs) if eqs else BoolVal(True)
            return r if op == 'Eq' else Not(r)
        return self._cmp_other(st, e, op, a, b)

    def _cmp_other(self, st, e, op, a, b):
        r = self._dispatch('compare', st, e, op, a, b)
        if r is not NotImplemented:
            return r
        raise OutOfSubset('compare %s %s %s: %s' % (a.kind, op, b.kind, ast.unparse(e)[:60] if e is not None else ''))

    def e_ListComp(self, st, e):
        r = self._dispatch('listcomp', st, e)
        if r is not NotImplemented:
            return r
        if len(e.generators) == 1 and e.generators[0].ifs and not e.generators[0].is_async and id(e) in self.loops:
            return self._filtered_comp(st, e, self.loops[id(e)])
        if len(e.generators) != 1 or e.generators[0].ifs or e.generators[0].is_async:
            raise OutOfSubset('comprehension with filter / several generators: %s' % ast.unparse(e)[:60])
        g = e.generators[0]
        it = self.eval(st, g.iter)
        n, at = self.iterate(st, it)
        closure_env = dict(st.env)
        ex = self

        def at2(st2, j):
            sub = st2.fork(); sub.env = dict(closure_env); sub.pending = []
            ex.assign(sub, g.target, at(sub, j), None)
            v = ex.eval(sub, e.elt)
            st2.pc = sub.pc
            return v, sub.pending
        # the comprehension raises iff some element raises: evaluate the element at a fresh index j0
        j0 = fresh_int('j0')
        probe = st.fork(); probe.pc.append(And(0 <= j0, j0 < n)); probe.guards = list(st.guards)
        base = len(probe.pc)
        _, pend = at2(probe, j0)
        for o in pend:
            cond = And(*o.st.pc[base:]) if len(o.st.pc) > base else BoolVal(True)
            side = st.fork(); side.guards = []
            side.pc += st.guards + [And(0 <= j0, j0 < n), cond]
            st.pending.append(Outcome('raise', side, o.val))
            j = z3.Int(fresh_name('j'))
            st.assume(z3.ForAll([j], Implies(And(0 <= j, j < n), Not(z3.substitute(cond, (j0, j))))))
        self.use('axiom:[f(x) for x in xs] has len(xs) elements, the j-th being f(xs[j]); it raises iff some element raises')
        # src / comp / env: what was iterated, the comprehension node and its closure (theories that view the result as a mapped list)
        return SV('lazylist', None, n=n, at=lambda st2, j: at2(st2, j)[0], src=it, comp=e, env=closure_env)

    def e_DictComp(self, st, e):
        r = self._dispatch('dictcomp', st, e)
        if r is NotImplemented:
            r = self._dispatch('expr', st, e)
        if r is NotImplemented:
            raise OutOfSubset('dict comprehension: %s' % ast.unparse(e)[:60])
        return r

    def _filtered_comp(self, st, e, spec):
        """[elt for x in xs if c1 if c2 ...] with a sidecar invariant, as the loop
               res = [];  for x in xs:  if c1 and c2 ...: res.append(elt)
        in expression position: inv_init / inv_preserved (one per branch) are obligations; the value is a havocked list about
        which the invariant at k == len(xs) is known.  The invariant reads st.ghost[name + '.k' | '.n' | '.res' | '.iter'].
        An element test or element expression that may raise yields a failing safety obligation (not propagated)."""
        g = e.generators[0]
        it = self.eval(st, g.iter)
        n, at = self.iterate(st, it)
        nm = spec.name
        empty = self._dispatch('list_op', st, 'empty')
        if empty is NotImplemented:
            raise OutOfSubset('filtered comprehension needs a list theory')
        entry = st.fork()
        s0 = st.fork(); s0.guards = []; s0.pc = st.pc + list(st.guards)
        s0.ghost.update({nm + '.k': IntVal(0), nm + '.n': n, nm + '.res': empty, nm + '.iter': it})
        self._check_inv(s0, spec, entry, 'inv_init', 'inv_init')
        # one arbitrary iteration
        h = s0.fork()
        k = fresh_int('k')
        probe = h.fork(); probe.env = dict(st.env); probe.pending = []
        self.assign(probe, g.target, at(probe, k), None)
        elem_kind = None
        try:
            elem_kind = self.eval(probe.fork(), e.elt).kind
        except OutOfSubset:
            pass
        res_h = self._dispatch('list_op', st, 'fresh', nm.split('.')[-1] + '_res', elem_kind)
        h.ghost[nm + '.k'] = k
        h.ghost[nm + '.res'] = res_h
        h.pc.append(And(0 <= k, k <= n))
        self._assume_inv(h, spec, entry)
        body = h.fork(); body.pc.append(k < n); body.env = dict(st.env); body.pending = []
        if self.feasible(body):
            self.assign(body, g.target, at(body, k), None)
            conds = []
            for c in g.ifs:
                t = self.truth(body, self.eval(body, c))
                conds.append(t)
                body.guards.append(t)
            body.guards = []
            keep = And(*conds)
            yes = body.fork(); yes.pc.append(keep); yes.pending = []
            v = self.eval(yes, e.elt)
            for o in body.pending + yes.pending:
                if self.feasible(o.st):
                    self.oblige(o.st, '%s.element_never_raises.%s' % (nm, o.val), BoolVal(False), kind='safety')
            yes.ghost[nm + '.k'] = k + 1
            yes.ghost[nm + '.res'] = self._dispatch('list_op', st, 'append', res_h, v)
            if self.feasible(yes):
                self._check_inv(yes, spec, entry, 'inv_preserved.kept', 'inv_preserved')
            no = body.fork(); no.pc.append(Not(keep))
            no.ghost[nm + '.k'] = k + 1
            if self.feasible(no):
                self._check_inv(no, spec, entry, 'inv_preserved.skipped', 'inv_preserved')
        # after the loop: a fresh list about which the invariant at k == n holds
        res_x = self._dispatch('list_op', st, 'fresh', nm.split('.')[-1] + '_out', elem_kind)
        view = st.fork()
        view.ghost.update({nm + '.k': n, nm + '.n': n, nm + '.res': res_x, nm + '.iter': it})
        for cname, c in spec.inv(view, entry):
            st.assume(c)
        st.ghost[nm + '.res'] = res_x
        st.ghost[nm + '.iter'] = it
        st.ghost[nm + '.n'] = n
        self.use('engine:filtered comprehension desugared to an accumulating loop with a sidecar invariant')
        return res_x

    def e_Lambda(self, st, e):
        return SV('func', None, node=e, closure=dict(st.env))

    def e_Attribute(self, st, e):
        # module-qualified globals first (datetime.timedelta etc. are resolved by call handlers through their name)
        recv = self.eval(st, e.value)
        r = self._dispatch('attr', st, e, recv, e.attr)
        if r is NotImplemented:
            raise OutOfSubset('attribute .%s of %s' % (e.attr, recv.kind))
        return r

    def e_Subscript(self, st, e):
        recv = self.eval(st, e.value)
        if isinstance(e.slice, ast.Slice):
            lo = self.eval(st, e.slice.lower) if e.slice.lower is not None else None
            hi = self.eval(st, e.slice.upper) if e.slice.upper is not None else None
            step = self.eval(st, e.slice.step) if e.slice.step is not None else None
            idx = SV('slice', None, lo=lo, hi=hi, step=step)
        else:
            idx = self.eval(st, e.slice)
        if recv.kind == 'tuple' and idx.kind == 'int':
            k = simplify(idx.t)
            if z3.is_int_value(k):
                k = k.as_long()
                if -len(recv.items) <= k < len(recv.items):
                    return recv.items[k]
                self.raise_if(st, BoolVal(True), 'IndexError')
                return recv.items[0] if recv.items else NONE
        if recv.kind == 'tuple' and idx.kind == 'slice' and idx.step is None:
            lo = simplify(idx.lo.t).as_long() if idx.lo is not None else None
            hi = simplify(idx.hi.t).as_long() if idx.hi is not None else None
            return T(recv.items[lo:hi])
        r = self._dispatch('subscript', st, e, recv, idx)
        if r is NotImplemented:
            raise OutOfSubset('subscript %s[%s]: %s' % (recv.kind, idx.kind, ast.unparse(e)[:60]))
        return r

    def e_Call(self, st, e):
        r = self._dispatch('pre_call', st, e)
        if r is not NotImplemented:
            return r
        # method call on a value?
        if isinstance(e.func, ast.Attribute):
            base = e.func.value
            qual = _qualname(e.func)
            if qual is not None and _root(e.func) not in st.env:
                # module-qualified function: datetime.timedelta(...)
                args, kwargs = self._args(st, e)
                r = self._dispatch('call', st, e, qual, args, kwargs)
                if r is not NotImplemented:
                    return r
                try:
                    recv = self.eval(st, base)          # a module-level object (read from the source): method call on it
                except OutOfSubset:
                    raise OutOfSubset('call %s' % qual)
            else:
                recv = self.eval(st, base)
                args, kwargs = self._args(st, e)
            r = self._dispatch('method', st, e, recv, e.func.attr, args, kwargs)
            if r is NotImplemented:
                if recv.kind == 'obj' and '%s.%s' % (recv.f.get('cls'), e.func.attr) in self.inline:
                    return self.call_inline_expr(st, '%s.%s' % (recv.f['cls'], e.func.attr), [recv] + args, kwargs)
                raise OutOfSubset('method %s.%s()' % (recv.kind, e.func.attr))
            return r
        if isinstance(e.func, ast.Name):
            fname = e.func.id
            if fname in st.env and st.env[fname].kind == 'func':
                args, kwargs = self._args(st, e)
                return self.call_func(st, st.env[fname], args, kwargs)
            args, kwargs = self._args(st, e)
            r = self._dispatch('call', st, e, fname, args, kwargs)
            if r is not NotImplemented:
                return r
            if fname in self.inline:
                return self.call_inline_expr(st, fname, args, kwargs)
            r = self._builtin(st, e, fname, args, kwargs)
            if r is not NotImplemented:
                return r
            # a plain (undecorated) top-level function of the module under execution that no theory and no contract knows: execute it from
            # its own source (what a refactoring that extracts a helper needs); recursion is stopped by the inlining depth limit
            fdef = self._same_module_function(fname)
            if fdef is not None and fname not in st.env:
                self.inline[fname] = (self.mod, fdef)
                self.use('inlined:%s - a helper of the same module without a contract of its own, executed from its source' % fname)
                return self.call_inline_expr(st, fname, args, kwargs)
            raise OutOfSubset('call %s(%s)' % (fname, ','.join(a.kind for a in args)))
        fn = self.eval(st, e.func)
        args, kwargs = self._args(st, e, star=(fn.kind != 'func'))
        if fn.kind == 'func':
            return self.call_func(st, fn, args, kwargs)
        r = self._dispatch('call_value', st, e, fn, args, kwargs)
        if r is NotImplemented:
            raise OutOfSubset('call of %s value' % fn.kind)
        return r

    def _same_module_function(self, fname):
        try:
            for n in self.mod.tree.body:
                if isinstance(n, ast.FunctionDef) and n.name == fname and not n.decorator_list:
                    return self.mod.func(fname)
        except Exception:       # noqa
            return None
        return None

    def _args(self, st, e, star=False):
        args = []
        for a in e.args:
            if isinstance(a, ast.Starred):
                v = self.eval(st, a.value)
                if v.kind != 'tuple':
                    v2 = self._dispatch('star', st, v)
                    if v2 is NotImplemented or v2.kind != 'tuple':
                        raise OutOfSubset('*args of %s' % v.kind)
                    v = v2
                args.extend(v.items)
            else:
                args.append(self.eval(st, a))
        kwargs = {}
        for k in e.keywords:
            if k.arg is None:
                # value(**mapping) - only in the call of a *value* (star=True: the `call_value` hooks know the key '**'): the mapping is handed over as a whole
                if not star or '**' in kwargs:
                    raise OutOfSubset('**kwargs in call')
                kwargs['**'] = self.eval(st, k.value)
                continue
            kwargs[k.arg] = self.eval(st, k.value)
        return args, kwargs

    def _builtin(self, st, e, fname, args, kwargs):
        if fname == 'int' and len(args) == 1 and args[0].kind == 'int':
            return args[0]
        if fname == 'divmod' and len(args) == 2 and not kwargs and args[0].kind == 'int' and args[1].kind == 'int':
            # divmod(a, b) == (a // b, a % b) for ints: the two operators' own encoding (ZeroDivisionError included)
            q = self.binop(st, None, 'FloorDiv', args[0], args[1])
            r = self.binop(st, None, 'Mod', args[0], args[1])
            return T([q, r])
        if fname == 'int' and len(args) == 1 and args[0].kind == 'bool':
            return I(If(args[0].t, 1, 0))
        if fname == 'bool' and len(args) == 1:
            return B(self.truth(st, args[0]))
        if fname == 'abs' and len(args) == 1 and args[0].kind == 'int':
            return I(If(args[0].t >= 0, args[0].t, -args[0].t))
        if fname in ('min', 'max') and len(args) >= 2 and all(a.kind == 'int' for a in args):
            r = args[0].t
            for a in args[1:]:
                r = If((a.t < r) if fname == 'min' else (a.t > r), a.t, r)
            return I(r)
        if fname == 'range' and 1 <= len(args) <= 3 and all(a.kind == 'int' for a in args):
            lo = args[0].t if len(args) > 1 else IntVal(0)
            hi = args[1].t if len(args) > 1 else args[0].t
            step = simplify(args[2].t) if len(args) == 3 else IntVal(1)
            if not z3.is_int_value(step) or step.as_long() == 0:
                raise OutOfSubset('range with a symbolic or zero step')
            k = step.as_long()
            self.use('axiom:range(a,b,k) is a, a+k, ... strictly before b')
            if k > 0:
                n = If(hi > lo, (hi - lo + k - 1) / k, 0)
            else:
                n = If(hi < lo, (lo - hi + (-k) - 1) / (-k), 0)
            return SV('range', None, lo=lo, n=n, step=k)
        if fname == 'zip' and len(args) >= 2:
            try:
                seqs = [self.iterate(st, a) for a in args]
            except OutOfSubset:
                return NotImplemented
            self.use('axiom:zip of equally long sequences yields the tuples of their j-th elements')
            for n_i, _ in seqs[1:]:
                self.oblige(st, 'zip.equal_lengths', n_i == seqs[0][0], kind='pre')
            return SV('lazylist', None, n=seqs[0][0], at=lambda st2, j: T([at_i(st2, j) for _, at_i in seqs]))
        if fname == 'len' and len(args) == 1 and args[0].kind in ('range', 'lazylist'):
            return I(args[0].n)
        if fname == 'len' and len(args) == 1 and args[0].kind == 'tuple':
            return I(len(args[0].items))
        if fname == 'len' and len(args) == 1 and args[0].kind == 'str' and args[0].t is None:
            return I(len(args[0].lit))
        return NotImplemented

    def iterate(self, st, it):
        if it.kind == 'range':
            return it.n, (lambda st2, j: I(it.lo + j * it.step))
        if it.kind == 'lazylist':
            return it.n, it.at
        seq = self._dispatch('iterate', st, it)
        if seq is NotImplemented:
            raise OutOfSubset('iteration over %s' % it.kind)
        return seq

    # ------------------------------------------------------------------ calls
    def bind(self, fdef, args, kwargs, closure=None):
        env = dict(closure or {})
        a = fdef.args
        params = [p.arg for p in a.posonlyargs + a.args]
        defaults = a.defaults
        nreq = len(params) - len(defaults)
        if len(args) > len(params) and a.vararg is None:
            raise OutOfSubset('too many positional arguments')
        for i, p in enumerate(params):
            if i < len(args):
                env[p] = args[i]
            elif p in kwargs:
                env[p] = kwargs[p]
            elif i >= nreq:
                env[p] = ('default', defaults[i - nreq])
            else:
                raise OutOfSubset('missing argument %s' % p)
        if a.vararg is not None:
            # '*' / '**' in kwargs: a symbolic argument tuple / keyword mapping handed over as a whole (theories' call hooks)
            env[a.vararg.arg] = kwargs['*'] if ('*' in kwargs and len(args) <= len(params)) else T(args[len(params):])
        if a.kwarg is not None:
            env[a.kwarg.arg] = kwargs['**'] if '**' in kwargs else SV('kwargs', None, items={
                k: v for k, v in kwargs.items() if k not in params and k not in {p.arg for p in a.kwonlyargs} and k != '*'})
        for p, d in zip(a.kwonlyargs, a.kw_defaults):
            if p.arg in kwargs:
                env[p.arg] = kwargs[p.arg]
            elif d is not None:
                env[p.arg] = ('default', d)
            else:
                raise OutOfSubset('missing keyword-only argument %s' % p.arg)
        extra = set(kwargs) - set(params) - {p.arg for p in a.kwonlyargs} - {'*', '**'}
        if extra and a.kwarg is None:
            raise OutOfSubset('unexpected keyword %s' % extra)
        return env

    def _resolve_defaults(self, st, env):
        for k, v in list(env.items()):
            if isinstance(v, tuple) and v and v[0] == 'default':
                env[k] = self.eval(st, v[1])

    def call_func(self, st, fn, args, kwargs):
        if fn.f.get('node') is not None:          # lambda closure
            node = fn.f['node']
            env = self.bind(node, args, kwargs, fn.f.get('closure'))
            sub = st.fork(); sub.env = env; sub.guards = list(st.guards)
            self._resolve_defaults(sub, env)
            v = self.eval(sub, node.body)
            st.pending.extend(sub.pending)
            st.pc = sub.pc
            return v
        if fn.f.get('name') in self.inline:
            return self.call_inline_expr(st, fn.f['name'], args, kwargs)
        raise OutOfSubset('call of opaque function value')

    def run_function(self, st, fname, args, kwargs):
        """execute an inlined repo function on a fork of st; returns outcomes (return / raise)"""
        mod, fdef = self.inline[fname]
        env = self.bind(fdef, args, kwargs)
        sub = st.fork(); sub.env = env
        self._resolve_defaults(sub, env)
        self.depth += 1
        if self.depth > 12:
            raise OutOfSubset('inlining depth exceeded at %s (recursion needs a contract)' % fname)
        try:
            outs = self.run_block(sub, strip_doc(fdef.body))
        finally:
            self.depth -= 1
        res = []
        for o in outs:
            if o.kind == 'next':
                res.append(Outcome('return', o.st, NONE))
            elif o.kind in ('return', 'raise'):
                res.append(o)
            else:
                raise OutOfSubset('%s escaping function %s' % (o.kind, fname))
        return res

    def call_inline_expr(self, st, fname, args, kwargs):
        """inlined call in expression position: the return values of all paths are merged with ITE; a path that raises
        becomes a pending raise outcome of the enclosing statement."""
        base = len(st.pc)
        guard = list(st.guards)
        sub0 = st.fork()
        if guard:
            sub0.pc = sub0.pc + guard
            sub0.guards = []
        outs = self.run_function(sub0, fname, args, kwargs)
        nbase = len(sub0.pc)
        rets = []
        for o in outs:
            cond = And(*o.st.pc[nbase:]) if len(o.st.pc) > nbase else BoolVal(True)
            if o.kind == 'raise':
                self.raise_if(st, cond, o.val)
            else:
                rets.append((cond, o.val))
        if not rets:
            self.raise_if(st, BoolVal(True), 'Unreachable')
            return NONE
        val = rets[-1][1]
        for cond, v in reversed(rets[:-1]):
            m = merge_sv(cond, v, val)
            if m is None:
                m = self._dispatch('merge', st, cond, v, val)
                if m is NotImplemented:
                    raise OutOfSubset('inlined %s returns values of different shape (%s / %s)' % (fname, v.kind, val.kind))
            val = m
        # the disjunction of return conditions holds on the continuing path (facts assumed inside the callee on its
        # returning paths - e.g. "the comprehension completed" - would otherwise be lost to the caller)
        conds = [simplify(c) for c, _ in rets]
        if not any(is_true(c) for c in conds):
            st.assume(Or(*conds) if len(conds) > 1 else conds[0])
        return val

    # ------------------------------------------------------------------ statements
    def run_block(self, st, stmts):
        """returns the list of outcomes of executing stmts from st"""
        outs_done = []
        live = [st]
        for s in stmts:
            nxt = []
            for cur in live:
                for o in self.run_stmt(cur, s):
                    if o.kind == 'next':
                        for pred, fn in self.hooks:
                            if pred(s):
                                fn(self, o.st, s)
                        nxt.append(o.st)
                    else:
                        outs_done.append(o)
            live = nxt
            if not live:
                break
        return outs_done + [Outcome('next', s_) for s_ in live]

    def _flush(self, st):
        p = st.pending
        st.pending = []
        return [o for o in p if self.feasible(o.st)]

    def run_stmt(self, st, s):
        self.stmts_executed.add(id(s))
        m = getattr(self, 's_' + type(s).__name__, None)
        if m is None:
            raise OutOfSubset('statement %s at line %d' % (type(s).__name__, s.lineno))
        return m(st, s)

    def s_Pass(self, st, s):
        return [Outcome('next', st)]

    def s_Expr(self, st, s):
        if isinstance(s.value, ast.Constant):
            return [Outcome('next', st)]
        r = self._dispatch('stmt_expr', st, s)
        if r is not NotImplemented:
            return r + self._flush(st) if isinstance(r, list) else [Outcome('next', st)] + self._flush(st)
        if isinstance(s.value, ast.Call) and isinstance(s.value.func, ast.Name) and s.value.func.id in self.inline:
            args, kwargs = self._args(st, s.value)
            pend = self._flush(st)
            outs = self.run_function(st, s.value.func.id, args, kwargs)
            res = list(pend)
            for o in outs:
                if o.kind == 'return':
                    o.st.env = st.env
                    res.append(Outcome('next', o.st))
                else:
                    res.append(o)
            return res
        self.eval(st, s.value)
        return [Outcome('next', st)] + self._flush(st)

    def assign(self, st, tg, v, s):
        if isinstance(tg, ast.Name):
            st.env[tg.id] = v
        elif isinstance(tg, (ast.Tuple, ast.List)):
            if v.kind != 'tuple':
                v2 = self._dispatch('unpack', st, v, len(tg.elts))
                if v2 is NotImplemented:
                    raise OutOfSubset('unpacking of %s' % v.kind)
                v = v2
            if len(v.items) != len(tg.elts):
                raise OutOfSubset('unpacking arity')
            for n, x in zip(tg.elts, v.items):
                self.assign(st, n, x, s)
        elif isinstance(tg, ast.Subscript):
            recv = self.eval(st, tg.value)
            idx = self.eval(st, tg.slice)
            r = self._dispatch('store_subscript', st, tg, recv, idx, v)
            if r is NotImplemented:
                raise OutOfSubset('store %s[%s]' % (recv.kind, idx.kind))
            self._rebind(st, tg.value, r)
        elif isinstance(tg, ast.Attribute):
            recv = self.eval(st, tg.value)
            r = self._dispatch('store_attr', st, tg, recv, tg.attr, v)
            if r is NotImplemented:
                raise OutOfSubset('store .%s on %s' % (tg.attr, recv.kind))
            self._rebind(st, tg.value, r)
        else:
            raise OutOfSubset('assignment target %s' % type(tg).__name__)

    def _rebind(self, st, target_expr, newval):
        """functional update of a mutable local: the verified subset requires the mutated object to be held by a plain local"""
        if newval is None:
            return
        if isinstance(target_expr, ast.Name):
            st.env[target_expr.id] = newval
        elif isinstance(target_expr, ast.Attribute):
            # self.cache[key] = v: the updated container is stored back into the attribute of its (local) owner
            owner = self.eval(st, target_expr.value)
            r = self._dispatch('store_attr', st, target_expr, owner, target_expr.attr, newval)
            if r is NotImplemented:
                raise OutOfSubset('mutation through %s' % ast.unparse(target_expr)[:40])
            self._rebind(st, target_expr.value, r)
        elif isinstance(target_expr, ast.Subscript):
            # res[i][k] = v: the updated inner container is stored back into its slot of the outer one, and so on up to a local
            outer = self.eval(st, target_expr.value)
            idx = self.eval(st, target_expr.slice)
            r = self._dispatch('store_subscript', st, target_expr, outer, idx, newval)
            if r is NotImplemented:
                raise OutOfSubset('mutation through %s' % ast.unparse(target_expr)[:40])
            self._rebind(st, target_expr.value, r)
        else:
            raise OutOfSubset('mutation through %s' % ast.unparse(target_expr)[:40])

    def s_Assign(self, st, s):
        if isinstance(s.value, ast.Call) and isinstance(s.value.func, ast.Name) and s.value.func.id in self.inline \
                and s.value.func.id not in st.env:
            args, kwargs = self._args(st, s.value)
            pend = self._flush(st)
            res = list(pend)
            for o in self.run_function(st, s.value.func.id, args, kwargs):
                if o.kind == 'return':
                    o.st.env = dict(st.env)
                    for tg in s.targets:
                        self.assign(o.st, tg, o.val, s)
                    res.append(Outcome('next', o.st))
                    res.extend(self._flush(o.st))
                else:
                    res.append(o)
            return res
        v = self.eval(st, s.value)
        for tg in s.targets:
            self.assign(st, tg, v, s)
        return [Outcome('next', st)] + self._flush(st)

    def s_AugAssign(self, st, s):
        if isinstance(s.target, ast.Name):
            cur = self.eval(st, s.target)
            v = self.eval(st, s.value)
            r = self._dispatch('augassign', st, s, type(s.op).__name__, cur, v)
            if r is NotImplemented:
                r = self.binop(st, None, type(s.op).__name__, cur, v)
            st.env[s.target.id] = r
            return [Outcome('next', st)] + self._flush(st)
        raise OutOfSubset('augmented assignment to %s' % type(s.target).__name__)

    def s_Return(self, st, s):
        if s.value is None:
            return [Outcome('return', st, NONE)]
        if isinstance(s.value, ast.Call) and isinstance(s.value.func, ast.Name) and s.value.func.id in self.inline \
                and s.value.func.id not in st.env:
            args, kwargs = self._args(st, s.value)
            pend = self._flush(st)
            return pend + self.run_function(st, s.value.func.id, args, kwargs)
        v = self.eval(st, s.value)
        return [Outcome('return', st, v)] + self._flush(st)

    def s_Raise(self, st, s):
        name = 'Exception'
        if s.exc is not None:
            n = s.exc.func if isinstance(s.exc, ast.Call) else s.exc
            name = ast.unparse(n)
        return [Outcome('raise', st, name)]

    def s_Assert(self, st, s):
        c = self.truth(st, self.eval(st, s.test))
        pend = self._flush(st)
        bad = st.fork(); bad.pc.append(Not(c))
        st.pc.append(c)
        res = [Outcome('next', st)] + pend
        if self.feasible(bad):
            res.append(Outcome('raise', bad, 'AssertionError'))
        return res

    def s_If(self, st, s):
        c = simplify(self.eval_truth(st, s.test))
        pend = self._flush(st)
        if is_true(c):
            return pend + self.run_block(st, s.body)
        if is_false(c):
            return pend + self.run_block(st, s.orelse)
        a = st.fork(); a.pc.append(c); a.trace.append('T')
        b = st.fork(); b.pc.append(Not(c)); b.trace.append('F')
        res = list(pend)
        if self.feasible(a):
            res += self.run_block(a, s.body)
        if self.feasible(b):
            res += self.run_block(b, s.orelse)
        return res

    def s_Try(self, st, s):
        if s.finalbody:
            raise OutOfSubset('try/finally')
        res = []
        for o in self.run_block(st, s.body):
            if o.kind != 'raise':
                if o.kind == 'next' and s.orelse:
                    res += self.run_block(o.st, s.orelse)
                else:
                    res.append(o)
                continue
            handled = False
            for h in s.handlers:
                names = []
                if h.type is None:
                    names = ['*']
                elif isinstance(h.type, ast.Tuple):
                    names = [ast.unparse(x) for x in h.type.elts]
                else:
                    names = [ast.unparse(h.type)]
                if '*' in names or 'Exception' in names or 'BaseException' in names or o.val in names:
                    hs = o.st
                    if h.name:
                        hs.env[h.name] = SV('exc', None, name=o.val)
                    res += self.run_block(hs, h.body)
                    handled = True
                    break
            if not handled:
                res.append(o)
        return res

    # ---- loops
    def _assigned(self, body):
        names = []
        for n in body:
            for m in ast.walk(n):
                if isinstance(m, (ast.Assign, ast.AugAssign, ast.AnnAssign, ast.For)):
                    tgs = m.targets if isinstance(m, ast.Assign) else [m.target]
                    for tg in tgs:
                        for x in ast.walk(tg):
                            if isinstance(x, ast.Name) and x.id not in names:
                                names.append(x.id)
                        # mutation through subscript / attribute store: the base name is modified
                        if isinstance(tg, (ast.Subscript, ast.Attribute)):
                            b = tg.value
                            while isinstance(b, (ast.Subscript, ast.Attribute)):
                                b = b.value
                            if isinstance(b, ast.Name) and b.id not in names:
                                names.append(b.id)
                if isinstance(m, ast.Expr) and isinstance(m.value, ast.Call) and isinstance(m.value.func, ast.Attribute) \
                        and isinstance(m.value.func.value, ast.Name) and m.value.func.attr in MUTATORS:
                    if m.value.func.value.id not in names:
                        names.append(m.value.func.value.id)
                if isinstance(m, ast.Delete):
                    for tg in m.targets:
                        b = tg
                        while isinstance(b, (ast.Subscript, ast.Attribute)):
                            b = b.value
                        if isinstance(b, ast.Name) and b.id not in names:
                            names.append(b.id)
        return names

    def fresh_like(self, st, name, v):
        if v.kind == 'int':
            return I(fresh_int(name))
        if v.kind == 'bool':
            return B(fresh_bool(name))
        if v.kind in ('dt', 'td'):
            return SV(v.kind, fresh_int(name + '_d'), us=fresh_int(name + '_us'))
        if v.kind == 'tuple':
            return T([self.fresh_like(st, '%s_%d' % (name, i), x) for i, x in enumerate(v.items)])
        if v.kind == 'none':
            return v
        r = self._dispatch('fresh_like', st, name, v)
        if r is NotImplemented:
            raise OutOfSubset('cannot havoc %s of kind %s' % (name, v.kind))
        return r

    def _same_shapes(self, head, end, mods, s):
        """soundness of the havoc: a variable must have the same shape at the end of the body as the havocked one at the head"""
        for n in mods:
            a, b = head.env.get(n), end.env.get(n)
            if a is None or b is None:
                continue
            if a.kind != b.kind and not ({a.kind, b.kind} <= {'val', 'none'} and a.kind == 'val') and not ({a.kind, b.kind} <= {'list', 'lazylist'}):
                raise OutOfSubset('loop at line %d changes the shape of %s (%s -> %s): the loop contract must give a prototype' % (
                    s.lineno, n, a.kind, b.kind))
            if a.kind == 'list' and a.f.get('ety') is not None and b.f.get('ety') is not None and a.f.get('ety') != b.f.get('ety'):
                raise OutOfSubset('loop at line %d changes the element type of list %s' % (s.lineno, n))

    def _check_inv(self, st, spec, entry, label, kind):
        for cname, c in spec.inv(st, entry):
            self.oblige(st, '%s.%s.%s' % (spec.name, label, cname), c, kind=kind)

    def _assume_inv(self, st, spec, entry):
        for cname, c in spec.inv(st, entry):
            st.pc.append(c)

    def s_While(self, st, s, _unrolled=0):
        if s.orelse:
            raise OutOfSubset('while/else')
        # a guard that is decided (literal strings, constants) is executed concretely: complete, no invariant needed
        probe = st.fork()
        try:
            g0 = simplify(self.truth(probe, self.eval(probe, s.test)))
        except OutOfSubset:
            g0 = None
        if g0 is not None and not probe.pending and (is_true(g0) or is_false(g0)):
            if is_false(g0):
                return [Outcome('next', st)]
            if _unrolled >= 64:
                raise OutOfSubset('concrete loop at line %d does not finish in 64 iterations' % s.lineno)
            res = []
            for o in self.run_block(st, s.body):
                if o.kind in ('next', 'continue'):
                    res += self.s_While(o.st, s, _unrolled + 1)
                elif o.kind == 'break':
                    res.append(Outcome('next', o.st))
                else:
                    res.append(o)
            return res
        spec = self.loops.get(id(s))
        if spec is None:
            raise OutOfSubset('while loop at line %d has no sidecar invariant' % s.lineno)
        entry = st.fork()
        self._check_inv(st, spec, entry, 'inv_init', 'inv_init')
        mods = [n for n in self._assigned(s.body) if n in st.env and n not in spec.keep] + list(spec.extra_mods)
        h = st.fork()
        for n in mods:
            h.env[n] = self.fresh_like(h, n, spec.protos.get(n, st.env[n]))
        if spec.ghost_havoc:
            spec.ghost_havoc(self, h)
        self._assume_inv(h, spec, entry)
        res = []
        g = self.truth(h, self.eval(h, s.test))
        res += self._flush(h)
        body = h.fork(); body.pc.append(g); body.trace.append('W')
        v0 = spec.variant(body) if spec.variant else None
        if self.feasible(body):
            for o in self.run_block(body, s.body):
                if o.kind in ('next', 'continue'):
                    self._same_shapes(h, o.st, mods, s)
                    self._check_inv(o.st, spec, entry, 'inv_preserved', 'inv_preserved')
                    if v0 is not None:
                        self.oblige(o.st, '%s.variant' % spec.name, And(v0 >= 0, spec.variant(o.st) < v0), kind='variant')
                    else:
                        self.oblige(o.st, '%s.variant' % spec.name, BoolVal(False), kind='variant')
                elif o.kind == 'break':
                    res.append(Outcome('next', o.st))
                else:
                    res.append(o)
        ex = h.fork(); ex.pc.append(Not(g)); ex.trace.append('X')
        if self.feasible(ex):
            res.append(Outcome('next', ex))
        return res

    def s_For(self, st, s):
        spec = self.loops.get(id(s))
        if spec is None:
            r = self._for_concrete(st, s)       # statically known items (tuple display, a theory's concrete_items)
            if r is not None:
                return r
        if s.orelse:
            raise OutOfSubset('for/else')
        it = self.eval(st, s.iter)
        seq = self.iterate(st, it)     # -> (length z3 Int, at(st, k) -> SV)
        n, at = seq
        pend = self._flush(st)
        if spec is None:
            # a sequence of statically known, small length (literal list / tuple, range(3)) is unrolled: complete, no invariant needed
            nn = simplify(n) if z3.is_expr(n) else IntVal(n)
            if not z3.is_int_value(nn) or nn.as_long() > 16:
                raise OutOfSubset('for loop at line %d has no sidecar invariant' % s.lineno)
            res, live = list(pend), [st]
            for k in range(nn.as_long()):
                nxt = []
                for cur in live:
                    self.assign(cur, s.target, at(cur, IntVal(k)), s)
                    for o in self.run_block(cur, s.body):
                        if o.kind in ('next', 'continue'):
                            nxt.append(o.st)
                        elif o.kind == 'break':
                            res.append(Outcome('next', o.st))
                        else:
                            res.append(o)
                live = nxt
            return res + [Outcome('next', c) for c in live]
        kname = spec.name + '.k'
        st.ghost[kname] = IntVal(0)
        st.ghost[spec.name + '.n'] = n
        entry = st.fork()
        self._check_inv(st, spec, entry, 'inv_init', 'inv_init')
        tnames = [x.id for x in ast.walk(s.target) if isinstance(x, ast.Name)]
        mods = [m for m in self._assigned(s.body) if m in st.env and m not in tnames and m not in spec.keep] + list(spec.extra_mods)
        h = st.fork()
        for m in mods:
            h.env[m] = self.fresh_like(h, m, spec.protos.get(m, st.env[m]))
        k = fresh_int('k')
        h.ghost[kname] = k
        h.pc.append(And(0 <= k, k <= n))
        if spec.ghost_havoc:
            spec.ghost_havoc(self, h)
        self._assume_inv(h, spec, entry)
        res = list(pend)
        body = h.fork(); body.pc.append(k < n); body.trace.append('L')
        if self.feasible(body):
            self.assign(body, s.target, at(body, k), s)
            for o in self.run_block(body, s.body):
                if o.kind in ('next', 'continue'):
                    o.st.ghost[kname] = k + 1
                    self._same_shapes(h, o.st, mods, s)
                    self._check_inv(o.st, spec, entry, 'inv_preserved', 'inv_preserved')
                elif o.kind == 'break':
                    res.append(Outcome('next', o.st))
                else:
                    res.append(o)
        ex = h.fork(); ex.pc.append(k == n); ex.trace.append('X')
        if self.feasible(ex):
            res.append(Outcome('next', ex))
        return res

    def _for_concrete(self, st, s):
        """a `for` over a sequence with statically known items (a tuple display, a literal list) and no sidecar invariant is
        executed concretely, item by item: complete, no invariant needed.  Returns None when the items are not known."""
        if s.orelse:
            return None
        probe = st.fork()
        try:
            it = self.eval(probe, s.iter)
        except OutOfSubset:
            return None
        items = it.items if it.kind == 'tuple' else self._dispatch('concrete_items', probe, it)
        if items is NotImplemented or items is None or probe.pending or len(items) > 64:
            return None
        res, live = [], [st]
        for item in items:
            nxt = []
            for cur in live:
                self.assign(cur, s.target, item, s)
                for o in self.run_block(cur, s.body):
                    if o.kind in ('next', 'continue'):
                        nxt.append(o.st)
                    elif o.kind == 'break':
                        res.append(Outcome('next', o.st))
                    else:
                        res.append(o)
            live = nxt
        return res + [Outcome('next', c) for c in live]

    def s_Break(self, st, s):
        return [Outcome('break', st)]

    def s_Continue(self, st, s):
        return [Outcome('continue', st)]

    def s_Delete(self, st, s):
        for tg in s.targets:
            if isinstance(tg, ast.Subscript):
                recv = self.eval(st, tg.value)
                idx = self.eval(st, tg.slice)
                r = self._dispatch('delete_subscript', st, tg, recv, idx)
                if r is NotImplemented:
                    raise OutOfSubset('del %s[%s]' % (recv.kind, idx.kind))
                self._rebind(st, tg.value, r)
            elif isinstance(tg, ast.Name):
                st.env.pop(tg.id, None)
            else:
                raise OutOfSubset('del target')
        return [Outcome('next', st)] + self._flush(st)


MUTATORS = {'append', 'extend', 'update', 'pop', 'clear', 'insert', 'remove', 'setdefault', 'sort', 'popitem', 'add',
            'discard', 'reverse'}


def _qualname(node):
    parts = []
    while isinstance(node, ast.Attribute):
        parts.append(node.attr)
        node = node.value
    if isinstance(node, ast.Name):
        parts.append(node.id)
        return '.'.join(reversed(parts))
    return None


def _root(node):
    while isinstance(node, ast.Attribute):
        node = node.value
    return node.id if isinstance(node, ast.Name) else None
