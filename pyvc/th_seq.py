"""Python lists in the `(len, at)` style.

Two representations, one interface (`L_len`, `L_at`):

* kind 'lazylist' (the executor's own): `n` (z3 Int) and `at(st, j) -> SV`, a closure.  Every list *expression* is a view of
  this kind - literal, `list(xs)`, `xs + ys`, `xs[::-1]`, `xs[::k]`, `xs[a:b]`, the value of a local after `xs.append(v)` -
  so these operations need no axioms with quantifiers: indexing a view yields a closed term.  A view whose elements are
  known one by one also carries `items` (a Python list of SV), which makes unpacking, `*args` and constant indexing exact.
* kind 'list': a constant of the abstract sort PyList with `len : PyList -> Int` and `at : PyList x Int x Int -> Int`
  (list, index, component of the element).  It is what a havocked list variable becomes at a loop head; everything known
  about it is what the loop invariant says.

Elements are symbolic values of a declared element kind (`ELEMS`: how many integer components, encode, decode).
Axioms used (each registers itself): literal, append, concatenation, slice with constant bounds, reverse `[::-1]`,
stride `[::k]` (k >= 1, possibly symbolic: the index product j*k is MUL(j,k) of th_arith), `len`, `list()`, indexing
(IndexError outside `-n <= i < n`), `dict(k=v, ...)` / `d[k]` / `d.get(k, default)` on literal keys.
"""
import ast
import z3
from z3 import And, Or, Not, If, Implies, BoolVal, IntVal, simplify, is_true, is_false, is_int_value, Function, IntSort, DeclareSort, Const

from .front import OutOfSubset
from .sv import SV, I, B, S, T, NONE, DT, TD, merge_sv, fresh_int, fresh_name, zi
from . import theories as _th
from .th_arith import MUL, mul_mono, mul_zero, mul_rec

PyList = DeclareSort('PyList')
llen = Function('len', PyList, IntSort())
lat = Function('at', PyList, IntSort(), IntSort(), IntSort())

# element kinds: number of integer components, SV -> components, components -> SV
ELEMS = {
    'dt': (2, lambda v: (v.t, v.us), lambda c: DT(c[0], c[1])),
    'td': (2, lambda v: (v.t, v.us), lambda c: TD(c[0], c[1])),
    'int': (1, lambda v: (v.t,), lambda c: I(c[0])),
}

# isinstance(x, list) / is-None on views: the executor's kind table knows 'list' only
_th.TYPE_KINDS['list'] = tuple(sorted(set(_th.TYPE_KINDS.get('list', ())) | {'list', 'lazylist'}))

LISTY = ('lazylist', 'list')


def lazy(n, at, elem=None, items=None):
    f = dict(n=zi(n), at=at, elem=elem)
    if items is not None:
        f['items'] = list(items)
    return SV('lazylist', None, **f)


def static(items, elem=None):
    """a list whose elements are known one by one"""
    items = list(items)
    if elem is None and items and all(x.kind == items[0].kind for x in items) and items[0].kind in ELEMS:
        elem = items[0].kind

    def at(st, j, items=items):
        js = simplify(zi(j))
        if is_int_value(js) and 0 <= js.as_long() < len(items):
            return items[js.as_long()]
        if not items:
            if elem in ELEMS:                   # no index is in range: any value of the element kind will do
                return ELEMS[elem][2]([fresh_int('noelem') for _ in range(ELEMS[elem][0])])
            raise OutOfSubset('element of an empty list')
        r = items[-1]
        for k in range(len(items) - 2, -1, -1):
            m = merge_sv(zi(j) == k, items[k], r)
            if m is None:
                raise OutOfSubset('symbolic index into a list of differently shaped elements')
            r = m
        return r
    return lazy(len(items), at, elem, items)


def abstract(name, elem):
    if elem not in ELEMS:
        raise OutOfSubset('abstract list of %s elements' % elem)
    return SV('list', Const(fresh_name(name), PyList), elem=elem)


def elem_of(v, default=None):
    return v.f.get('elem') or default


def L_len(v):
    if v.kind == 'lazylist':
        return v.n
    if v.kind == 'list':
        return llen(v.t)
    raise OutOfSubset('len of %s' % v.kind)


def L_at(st, v, j):
    """the j-th element (0 <= j < len is the caller's business)"""
    j = zi(j)
    if v.kind == 'lazylist':
        return v.at(st, j)
    if v.kind == 'list':
        n, enc, dec = ELEMS[v.elem]
        return dec([lat(v.t, j, IntVal(c)) for c in range(n)])
    raise OutOfSubset('indexing %s' % v.kind)


def L_items(v):
    return v.f.get('items') if v.kind == 'lazylist' else None


def append(v, x):
    items = L_items(v)
    if items is not None:
        return static(items + [x], elem_of(v) if items else None)
    n = L_len(v)
    elem = elem_of(v) or (x.kind if x.kind in ELEMS else None)

    def at(st, j, v=v, x=x, n=n):
        old = L_at(st, v, j)
        m = merge_sv(zi(j) == n, x, old)
        if m is None:
            raise OutOfSubset('append of a %s to a list of %s' % (x.kind, old.kind))
        return m
    return lazy(n + 1, at, elem)


def reverse(v):
    items = L_items(v)
    if items is not None:
        return static(items[::-1], elem_of(v))
    n = L_len(v)
    return lazy(n, lambda st, j, v=v, n=n: L_at(st, v, n - 1 - zi(j)), elem_of(v))


def concat(a, b):
    ia, ib = L_items(a), L_items(b)
    if ia is not None and ib is not None:
        return static(ia + ib, elem_of(a) if elem_of(a) == elem_of(b) else None)
    na = L_len(a)

    def at(st, j, a=a, b=b, na=na):
        x, y = L_at(st, a, j), L_at(st, b, zi(j) - na)
        m = merge_sv(zi(j) < na, x, y)
        if m is None:
            raise OutOfSubset('concatenation of lists of %s and %s' % (x.kind, y.kind))
        return m
    return lazy(na + L_len(b), at, elem_of(a) or elem_of(b))


def stride(ex, v, k):
    """v[::k] for k >= 1 (k may be symbolic): elements v[0], v[k], v[2k], ... below len(v)"""
    items = L_items(v)
    ks = simplify(zi(k))
    if items is not None and is_int_value(ks):
        return static(items[::ks.as_long()], elem_of(v))
    n = L_len(v)
    if is_int_value(ks):
        c = ks.as_long()
        return lazy(If(n > 0, (n + c - 1) / c, 0), lambda st, j, v=v, c=c: L_at(st, v, zi(j) * c), elem_of(v))
    m = fresh_int('stride_len')
    ex.use('axiom:xs[::k] for k >= 1 has the elements xs[0], xs[k], xs[2k], ... with index below len(xs): its length m is 0 for an empty xs and '
           'otherwise the m >= 1 with (m-1)*k <= len(xs)-1 < m*k; the index product is MUL of th_arith')
    ex.fact(And(m >= 0, Implies(n <= 0, m == 0), Implies(And(n > 0, ks >= 1), And(m >= 1, MUL(m - 1, ks) <= n - 1, MUL(m, ks) >= n))))
    ex.fact(mul_zero(ks))
    ex.fact(mul_rec(m - 1, ks))
    return lazy(m, lambda st, j, v=v, ks=ks: L_at(st, v, MUL(j, ks)), elem_of(v))


def merged(cond, a, b):
    ia, ib = L_items(a), L_items(b)
    if ia is not None and ib is not None and len(ia) == len(ib):
        ms = [merge_sv(cond, x, y) for x, y in zip(ia, ib)]
        if all(m is not None for m in ms):
            return static(ms, elem_of(a))

    def at(st, j, a=a, b=b):
        x, y = L_at(st, a, j), L_at(st, b, j)
        m = merge_sv(cond, x, y)
        if m is None:
            raise OutOfSubset('merge of lists of %s and %s' % (x.kind, y.kind))
        return m
    return lazy(If(cond, L_len(a), L_len(b)), at, elem_of(a) or elem_of(b))


def _const(x):
    if x is None:
        return None
    v = simplify(x.t) if x.kind == 'int' else None
    if v is None or not is_int_value(v):
        raise OutOfSubset('symbolic slice bound')
    return v.as_long()


class Lists:
    def __init__(self, default_elem=None):
        self.default_elem = default_elem

    # ---- construction
    def expr(self, ex, st, e):
        if isinstance(e, ast.List):
            if any(isinstance(x, ast.Starred) for x in e.elts):
                raise OutOfSubset('starred element in a list display')
            ex.use('axiom:[a, b, ...] is the list of its elements in order')
            return static([ex.eval(st, x) for x in e.elts], None if e.elts else self.default_elem)
        return NotImplemented

    def call(self, ex, st, e, fname, args, kwargs):
        if fname == 'len' and len(args) == 1 and args[0].kind in LISTY:
            return I(L_len(args[0]))
        if fname == 'list' and len(args) == 1 and not kwargs:
            a = args[0]
            if a.kind in LISTY:
                ex.use('axiom:list(xs) has the elements of xs in order')
                return a
            if a.kind == 'tuple':
                return static(a.items)
            if a.kind == 'range':
                return lazy(a.n, lambda st2, j, a=a: I(a.lo + zi(j) * a.step), 'int')
            return NotImplemented
        if fname == 'list' and not args and not kwargs:
            return static([])
        if fname == 'dict' and not args:
            ex.use('axiom:dict(k=v, ...) maps the literal keys to the values')
            return SV('dictlit', None, d=dict(kwargs))
        if fname == 'tuple' and len(args) == 1 and L_items(args[0]) is not None:
            return T(L_items(args[0]))
        return NotImplemented

    def listcomp(self, ex, st, e):
        """a map-form comprehension over a list whose elements are known one by one is evaluated element by element"""
        if len(e.generators) != 1 or e.generators[0].ifs or e.generators[0].is_async:
            return NotImplemented
        g = e.generators[0]
        probe = st.fork()
        try:
            it = ex.eval(probe, g.iter)
        except OutOfSubset:
            return NotImplemented
        items = L_items(it) if it.kind == 'lazylist' else (it.items if it.kind == 'tuple' else None)
        if items is None or probe.pending:
            return NotImplemented
        out = []
        for x in items:
            sub = st.fork(); sub.env = dict(st.env); sub.guards = list(st.guards)
            ex.assign(sub, g.target, x, None)
            out.append(ex.eval(sub, e.elt))
            st.pending.extend(sub.pending)
            st.pc = sub.pc
        return static(out)

    # ---- access
    def subscript(self, ex, st, e, recv, idx):
        if recv.kind == 'dictlit' and idx.kind == 'str' and idx.t is None:
            if idx.lit in recv.f['d']:
                return recv.f['d'][idx.lit]
            ex.raise_if(st, BoolVal(True), 'KeyError')
            return NONE
        if recv.kind not in LISTY:
            return NotImplemented
        n = L_len(recv)
        if idx.kind == 'int':
            items = L_items(recv)
            ks = simplify(idx.t)
            if items is not None and is_int_value(ks):
                k = ks.as_long()
                if -len(items) <= k < len(items):
                    return items[k]
                ex.raise_if(st, BoolVal(True), 'IndexError')
                return items[0] if items else NONE
            ex.raise_if(st, Not(And(-n <= idx.t, idx.t < n)), 'IndexError')
            return L_at(st, recv, If(idx.t < 0, idx.t + n, idx.t))
        if idx.kind == 'slice':
            lo, hi, step = idx.lo, idx.hi, idx.step
            if lo is None and hi is None and step is not None and step.kind == 'int':
                ss = simplify(step.t)
                if is_int_value(ss) and ss.as_long() == -1:
                    ex.use('axiom:xs[::-1] has the same length and xs[::-1][i] == xs[len(xs)-1-i]')
                    return reverse(recv)
                if is_int_value(ss) and ss.as_long() <= 0:
                    raise OutOfSubset('slice step %s' % ss)
                if not is_int_value(ss):
                    # xs[::0] raises ValueError; negative symbolic strides are outside the subset and are excluded by an obligation
                    ex.raise_if(st, step.t == 0, 'ValueError')
                    ex.oblige(st, 'slice.step_positive', step.t >= 1, kind='safety', meta=dict(subset_guard=True))
                return stride(ex, recv, step.t)
            if hi is None and lo is not None and L_items(recv) is None and _const(lo) >= 0 and (step is None or step.kind == 'int'):
                # xs[c:] and xs[c::k] on a list of symbolic length: drop the first c elements, then stride
                c = _const(lo)
                ex.use('axiom:xs[c:] for a constant c >= 0 drops the first c elements')
                rest = lazy(If(n > c, n - c, 0), lambda st2, q, recv=recv, c=c: L_at(st2, recv, zi(q) + c), elem_of(recv))
                if step is None:
                    return rest
                ss = simplify(step.t)
                if is_int_value(ss) and ss.as_long() <= 0:
                    raise OutOfSubset('slice step %s' % ss)
                if not is_int_value(ss):
                    ex.raise_if(st, step.t == 0, 'ValueError')
                    ex.oblige(st, 'slice.step_positive', step.t >= 1, kind='safety', meta=dict(subset_guard=True))
                return stride(ex, rest, step.t)
            if step is None:
                items = L_items(recv)
                if items is None:
                    raise OutOfSubset('slice of a list of symbolic length')
                ex.use('axiom:xs[a:b] with constant bounds')
                return static(items[_const(lo):_const(hi)], elem_of(recv))
            raise OutOfSubset('slice [%s:%s:%s] of a list' % (lo, hi, step))
        return NotImplemented

    def method(self, ex, st, e, recv, mname, args, kwargs):
        if recv.kind == 'dictlit' and mname == 'get' and len(args) == 2 and args[0].kind == 'str' and args[0].t is None:
            return recv.f['d'].get(args[0].lit, args[1])
        return NotImplemented

    def iterate(self, ex, st, it):
        if it.kind == 'list':
            return L_len(it), (lambda st2, j, it=it: L_at(st2, it, j))
        return NotImplemented

    def unpack(self, ex, st, v, n):
        items = L_items(v) if v.kind == 'lazylist' else None
        return T(items) if items is not None else NotImplemented

    star = lambda self, ex, st, v: self.unpack(ex, st, v, None)

    # ---- mutation of a local
    def stmt_expr(self, ex, st, s):
        c = s.value
        if isinstance(c, ast.Call) and isinstance(c.func, ast.Attribute) and c.func.attr == 'append' and isinstance(c.func.value, ast.Name) \
                and len(c.args) == 1 and not c.keywords and c.func.value.id in st.env and st.env[c.func.value.id].kind in LISTY:
            x = ex.eval(st, c.args[0])
            ex.use('axiom:xs.append(v) lengthens xs by one, keeps the earlier elements and puts v last')
            st.env[c.func.value.id] = append(st.env[c.func.value.id], x)
            return True
        return NotImplemented

    def list_op(self, ex, st, op, *a):
        """used by the executor's filtered comprehension: 'empty' | 'append' (list, v) | 'fresh' (name, elem kind of v)"""
        if op == 'empty':
            return static([], self.default_elem)
        if op == 'append':
            return append(a[0], a[1])
        if op == 'fresh':
            return abstract(a[0], a[1] or self.default_elem)
        return NotImplemented

    # ---- algebra
    def binop(self, ex, st, e, op, a, b):
        if op == 'Add' and a.kind in LISTY and b.kind in LISTY:
            ex.use('axiom:xs + ys is xs followed by ys')
            return concat(a, b)
        return NotImplemented

    def merge(self, ex, st, cond, a, b):
        if a.kind in LISTY and b.kind in LISTY:
            return merged(cond, a, b)
        return NotImplemented

    def truth(self, ex, st, v):
        if v.kind in LISTY:
            return L_len(v) > 0
        return NotImplemented

    def is_none(self, ex, st, v):
        if v.kind in LISTY or v.kind == 'dictlit':
            return BoolVal(False)
        return NotImplemented

    def fresh_like(self, ex, st, name, v):
        if v.kind in LISTY:
            elem = elem_of(v, self.default_elem)
            if elem is None:
                raise OutOfSubset('cannot havoc list %s: element kind unknown' % name)
            return abstract(name, elem)
        return NotImplemented
