"""String operations on a symbolic tenor beyond the tokenisation of theories.Tokens (abstractions A1/A2), as drange uses them:

  s == period.search(s).group()     the tenor is exactly one token:  ntok == pos + 1 and no remainder
  s[-1]                             its last character: the unit letter of the last token when there is no remainder
  int(s[:-1])                       the number of a one-token tenor (ValueError otherwise: '1m2d'[:-1] is not a number)

and `dt_bump(t, s)` by contract: for a fixed tenor s it is a function BUMP of t (what that function is, is C09's subject).

With `unit=<letter>` the theory is specialised to runs whose last token has that (concrete) unit: `s[-1]` then evaluates to the
literal letter, so that dictionary lookups keyed by it are exact; that the symbolic tenor really ends in that letter is an
obligation at the place of use, not an assumption.
"""
import z3
from z3 import And, Or, Not, If, Implies, BoolVal, IntVal, simplify, is_true, Function, IntSort

from .front import OutOfSubset
from .sv import SV, I, B, S, DT, DAYUS, fresh_int, zi, merge_sv

BUMPo = Function('BUMP_o', IntSort(), IntSort(), IntSort())
BUMPu = Function('BUMP_us', IntSort(), IntSort(), IntSort())


def BUMP(t):
    return DT(BUMPo(t.t, t.us), BUMPu(t.t, t.us))


def single(v):
    """the tenor v consists of exactly one token"""
    return And(v.ntok == v.pos + 1, v.tail == 0)


class TenorOps:
    def __init__(self, toks, unit=None):
        self.toks, self.unit = toks, unit

    def compare(self, ex, st, e, op, a, b):
        if op in ('Eq', 'NotEq'):
            for x, y in ((a, b), (b, a)):
                if x.kind == 'tenor' and y.kind == 'tok' and y.f.get('of') is not None and y.f['of'].f.get('th') is x.f.get('th') \
                        and z3.eq(simplify(y.f['of'].pos), simplify(x.pos)):
                    ex.use('A2:a tenor equals its first token iff it has exactly one token and no remainder')
                    r = single(x)
                    return r if op == 'Eq' else Not(r)
            for x, y in ((a, b), (b, a)):
                if x.kind == 'tokchar' and y.kind == 'str' and y.t is None:
                    r = (x.t == ord(y.lit)) if len(y.lit) == 1 else BoolVal(False)
                    return r if op == 'Eq' else Not(r)
        return NotImplemented

    def _lookup(self, ex, st, d, c, default):
        """d[c] / d.get(c, default) for a literal-keyed dict d and a symbolic character c: a case split over the one-letter keys"""
        keys = [k for k in d if len(k) == 1]
        hit = Or(*[c.t == ord(k) for k in keys]) if keys else BoolVal(False)
        if default is None:
            ex.raise_if(st, Not(hit), 'KeyError')
        vals = [d[k] for k in keys]
        if vals and all(v.kind == 'rrfreq' for v in vals):
            return SV('rrfreq', None, name=None, choices={k: d[k].name for k in keys}, code=c.t)
        r = default
        for k in reversed(keys):
            if r is None:
                r = d[k]
                continue
            m = merge_sv(c.t == ord(k), d[k], r)
            if m is None:
                raise OutOfSubset('dictionary values of different shape under a symbolic key')
            r = m
        return r

    def method(self, ex, st, e, recv, mname, args, kwargs):
        if recv.kind == 'dictlit' and mname == 'get' and len(args) == 2 and args[0].kind == 'tokchar':
            return self._lookup(ex, st, recv.f['d'], args[0], args[1])
        return NotImplemented

    def subscript(self, ex, st, e, recv, idx):
        if recv.kind == 'dictlit' and idx.kind == 'tokchar':
            return self._lookup(ex, st, recv.f['d'], idx, None)
        if recv.kind != 'tenor':
            return NotImplemented
        if idx.kind == 'int' and is_true(simplify(idx.t == -1)):
            ex.use('A1:the last character of a tenor without remainder is the unit letter of its last token')
            last = self.toks.tu(recv.ntok - 1)
            if self.unit is not None:
                ex.oblige(st, 'tenor.last_char_is_%s' % self.unit, And(recv.tail == 0, recv.ntok > recv.pos, last == ord(self.unit)), kind='safety')
                return S(self.unit)
            c = fresh_int('lastchar')
            ex.fact(Implies(And(recv.tail == 0, recv.ntok > recv.pos), c == last))
            return SV('tokchar', c)
        if idx.kind == 'slice' and idx.lo is None and idx.step is None and idx.hi is not None and idx.hi.kind == 'int' \
                and is_true(simplify(idx.hi.t == -1)):
            return SV('tenorhead', None, of=recv)
        return NotImplemented

    def call(self, ex, st, e, fname, args, kwargs):
        if fname == 'int' and len(args) == 1 and args[0].kind == 'tenorhead':
            v = args[0].of
            ex.use('A1:int(s[:-1]) of a one-token tenor is its number; otherwise ValueError')
            ex.raise_if(st, Not(single(v)), 'ValueError')
            return I(self.toks.tn(v.pos))
        return NotImplemented

    def is_none(self, ex, st, v):
        if v.kind in ('tenor', 'tokchar', 'tenorhead'):
            return BoolVal(False)
        return NotImplemented

    def truth(self, ex, st, v):
        if v.kind == 'tokchar':
            return BoolVal(True)
        return NotImplemented


class BumpByContract:
    """dt_bump(t, tenor) for the one tenor of the run"""

    def call(self, ex, st, e, fname, args, kwargs):
        if fname == 'dt_bump' and len(args) == 2 and not kwargs and args[0].kind == 'dt' and args[1].kind == 'tenor':
            ex.use('assumed contract:dt_bump(t, s) for a fixed tenor s is a function BUMP(t) returning a normalised tz-naive datetime '
                   '(C09 proves it is the left-to-right fold of the per-token steps)')
            r = BUMP(args[0])
            ex.fact(And(0 <= r.us, r.us < DAYUS))
            return r
        return NotImplemented
