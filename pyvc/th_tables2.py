"""Rows, lists of records and column maps: what the selection forms of dictable.__getitem__, the constructor and concat work on.

Builds on th_tables (a table is dom / clen / carr over column names of sort Key) and th_lists (opaque cells of sort Val).

  rowmap    one record: (dom : Key -> Bool, vals : Key -> Val)                                  (kind used by C01 / C06 / C20 already)
  rowlist   a python list of records: (n, doms : Int -> (Key -> Bool), vals : Int -> (Key -> Val))
  colmap    a plain dict column name -> list: the same three arrays as a table, without the class
  cls       the value of `type(self)` / `cls`: calling it is the constructor, by contract or inlined

Spec function  count_true(m, k) = number of i < k with m[i] != 0  (defined by recursion; the instances a goal needs are passed as
hypotheses, the laws used - bounds, monotonicity, every rank is taken - are proved by explicit induction obligations, `count_lemmas`).

Every contract of a callee that is used registers itself with ex.use(...): 'callee contract:' when its body is proved in some
section (named in the text), 'assumed contract:' otherwise."""
import ast
import z3
from z3 import (And, Or, Not, If, Implies, IntVal, BoolVal, IntSort, BoolSort, ArraySort, Array, Store, Select, Lambda, K,
                Function, Const, ForAll, Exists, Int, Ints, simplify)

from .front import OutOfSubset
from .sv import SV, I, B, T, NONE, S, fresh_name, fresh_int, zi
from .th_lists import Val, NONEV, VAL, INT, fresh_list, as_list_sv, V
from .th_tables import Key, KEY, fresh_table, wf, no_columns, nrows, column, key_of

KB = ArraySort(Key, BoolSort())
KV = ArraySort(Key, Val)
IA = ArraySort(IntSort(), IntSort())
CNT = Function('count_true', IA, IntSort(), IntSort())


# ------------------------------------------------------------------------------------------------ counting
def cnt_def(m, k):
    """definition instance of count_true at k (k >= 0)"""
    return And(CNT(m, 0) == 0, CNT(m, k + 1) == CNT(m, k) + If(Select(m, k) != 0, 1, 0))


def count_lemmas(ctx, prefix, m=None):
    """laws of count_true, each by induction on the upper bound (base + step are separate obligations; the induction schema is trusted):
       bounds        0 <= count(k) <= k
       below         a true entry i < k has rank count(i) < count(k)        (so ranks of true entries are strictly increasing: order is kept)
       onto          every p < count(k) is the rank of a true entry i < k   (so nothing but the rows of true entries is in the result)"""
    m = m if m is not None else Array('M!cl', IntSort(), IntSort())
    k, i, p = Ints('k!cl i!cl p!cl')
    true_ = lambda x: Select(m, x) != 0
    laws = dict(
        bounds=lambda k_: And(0 <= CNT(m, k_), CNT(m, k_) <= k_),
        below=lambda k_: ForAll([i], Implies(And(0 <= i, i < k_, true_(i)), CNT(m, i) < CNT(m, k_))),
        onto=lambda k_: ForAll([p], Implies(And(0 <= p, p < CNT(m, k_)), Exists([i], And(0 <= i, i < k_, true_(i), CNT(m, i) == p)))))
    for name, law in laws.items():
        ctx.post('%s.count_true.%s.base' % (prefix, name), [cnt_def(m, IntVal(0))], law(IntVal(0)), kind='lemma')
        hyp = [k >= 0, cnt_def(m, k), law(k)]
        if name != 'bounds':
            hyp.append(laws['bounds'](k))
        ctx.post('%s.count_true.%s.step' % (prefix, name), hyp, law(k + 1), kind='lemma')
    ctx.trust('induction schema over the upper bound of count_true (base and step are obligations)')
    return laws


# ------------------------------------------------------------------------------------------------ values
def rowmap(dom, vals, **f):
    return SV('rowmap', None, dom=dom, vals=vals, **f)


def row_of(t, j):
    """row j of a table: the mapping column -> cell"""
    c = Const('c!row', Key)
    return rowmap(t.dom, Lambda([c], Select(Select(t.carr, c), j)))


def fresh_rowlist(name, n=None):
    return SV('rowlist', fresh_int(name + '_n') if n is None else zi(n), doms=Array(fresh_name(name + '_dom'), IntSort(), KB),
              vals=Array(fresh_name(name + '_val'), IntSort(), KV))


def rows_of(t, nr):
    """the list of the rows of a rectangular table with nr rows"""
    j = Int('j!rows')
    c = Const('c!rows', Key)
    return SV('rowlist', zi(nr), doms=K(IntSort(), t.dom), vals=Lambda([j], Lambda([c], Select(Select(t.carr, c), j))))


def rl_at(rl, j):
    return rowmap(Select(rl.doms, j), Select(rl.vals, j))


def fresh_colmap(name):
    t = fresh_table(name)
    return SV('colmap', None, dom=t.dom, clen=t.clen, carr=t.carr)


def as_table(cm, cls='dictable'):
    return SV('table', None, dom=cm.dom, clen=cm.clen, carr=cm.carr, cls=cls)


def CLS(name='dictable'):
    return SV('cls', None, name=name)


def mask_list(name, n=None):
    """a python list of booleans (stored as 0 / 1)"""
    m = fresh_list(INT, name, n=n)
    m.f['elems'] = 'bool'
    return m


def same_keys(rl):
    """all records of the list have the key set of the first"""
    j = Int('j!sk')
    return ForAll([j], Implies(And(0 <= j, j < rl.t), Select(rl.doms, j) == Select(rl.doms, 0)))


# ------------------------------------------------------------------------------------------------ stated contracts
def records_contract(rl, out):
    """dictable(list of records) - dict_concat's three cases followed by __init__'s identity on equally long columns:
       no record: no column; all records with one key set: these columns, column k listing record[k] in order; otherwise the
       union of the key sets, absent cells None."""
    j, j2 = Ints('j!rc j2!rc')
    k = Const('k!rc', Key)
    n = rl.t
    same = same_keys(rl)
    return [Implies(n == 0, no_columns(out)),
            Implies(And(n >= 1, same), And(out.dom == Select(rl.doms, 0),
                                           ForAll([k], Implies(Select(out.dom, k), out.clen[k] == n)),
                                           ForAll([k, j], Implies(And(Select(out.dom, k), 0 <= j, j < n), out.carr[k][j] == Select(Select(rl.vals, j), k))))),
            Implies(And(n >= 1, Not(same)), And(
                ForAll([k], Select(out.dom, k) == Exists([j2], And(0 <= j2, j2 < n, Select(Select(rl.doms, j2), k)))),
                ForAll([k], Implies(Select(out.dom, k), out.clen[k] == n)),
                ForAll([k, j], Implies(And(Select(out.dom, k), 0 <= j, j < n),
                                       out.carr[k][j] == If(Select(Select(rl.doms, j), k), Select(Select(rl.vals, j), k), NONEV)))))]


def empty_with_columns_contract(dom, out):
    """dictable([], columns): exactly these columns, none with a row"""
    k = Const('k!ec', Key)
    return [out.dom == dom, ForAll([k], Implies(Select(out.dom, k), out.clen[k] == 0))]


class Rows:
    """records, lists of records, table iteration, zipper and the constructor call `type(self)(...)`.

    known: [(table SV, row count term)] - tables known to be rectangular (path precondition wf) with that many entries per column
    construct: 'contract' (constructor by its stated contract) | 'inline' (dictable.__init__ executed from the source; needs Init)"""

    def __init__(self, known=(), construct='contract', iter_contract=True):
        self.known = {t.dom.get_id(): (t, zi(n)) for t, n in known}
        self.construct = construct
        self.iter_contract = iter_contract
        self.constructed = []          # (shape, args, result): every constructor call met, for the contract's own obligations

    def know(self, t, n):
        self.known[t.dom.get_id()] = (t, zi(n))

    def rows_n(self, t):
        r = self.known.get(t.dom.get_id())
        if r is None:
            raise OutOfSubset('row count of the table is not known (no wf precondition recorded)')
        return nrows(t, r[1])

    # ---- calls
    def call(self, ex, st, e, fname, args, kwargs):
        if fname == 'type' and len(args) == 1 and args[0].kind == 'table':
            return CLS(args[0].f.get('cls') or 'dictable')
        if fname == 'list' and len(args) == 1 and args[0].kind == 'table' and self.iter_contract:
            return self.iter_rows(ex, st, args[0])
        if fname == 'list' and len(args) == 1 and args[0].kind == 'rowlist':
            return args[0]
        if fname == 'len' and len(args) == 1 and args[0].kind == 'rowlist':
            return I(args[0].t)
        if fname == 'zipper' and len(args) == 2 and all(a.kind in ('rowlist', 'list') for a in args):
            return self.zipper(ex, st, args[0], args[1])
        if fname in ('is_strs', 'is_bools', 'is_ints') and len(args) == 1 and args[0].kind == 'list' and args[0].f.get('elems'):
            ex.use('path precondition:the item is a list of %ss' % args[0].f['elems'])
            return B(args[0].f['elems'] == {'is_strs': 'str', 'is_bools': 'bool', 'is_ints': 'int'}[fname])
        return NotImplemented

    def iter_rows(self, ex, st, t):
        ex.use('callee contract:iterating a rectangular table yields its rows in order, each a Dict column -> cell (dictable.__iter__, proved in C01 __iter__.*)')
        return rows_of(t, self.rows_n(t))

    def zipper(self, ex, st, a, b):
        """zipper(a, b) for two lists, by its contract (C19): ValueError iff the lengths differ and neither is 1; otherwise the pairs of the
        j-th elements, a length-1 list being repeated"""
        ex.use('callee contract:zipper(xs, ys) raises ValueError iff the lengths differ and neither is 1, else pairs the j-th elements (length-1 lists broadcast) (proved in C19 zipper.*)')
        la, lb = a.t, b.t
        ex.raise_if(st, And(la != 1, lb != 1, la != lb), 'ValueError')
        n = If(la != 1, la, lb)

        def el(x, j):
            jj = If(x.t == n, j, 0)
            if x.kind == 'rowlist':
                return rl_at(x, jj)
            x2 = as_list_sv(x)
            from .th_lists import at as l_at
            return l_at(x2, jj)
        return SV('lazylist', None, n=n, at=lambda st2, j: T([el(a, j), el(b, j)]))

    def pre_call(self, ex, st, e):
        # zip(*self.values()): the transposition of the columns
        if isinstance(e.func, ast.Name) and e.func.id == 'zip' and len(e.args) == 1 and isinstance(e.args[0], ast.Starred) and not e.keywords:
            v = ex.eval(st, e.args[0].value)
            if v.kind != 'tvalues':
                return NotImplemented
            t = v.f['of']
            ex.use('axiom:zip(*d.values()) has min(column lengths) tuples (none for no column), the j-th holding the j-th entry of every column in the order of d.values()')
            r = fresh_int('ziplen')
            k = Const('k!zl', Key)
            ex.fact(And(r >= 0, Implies(no_columns(t), r == 0), ForAll([k], Implies(t.dom[k], r <= t.clen[k])),
                        Implies(Not(no_columns(t)), Exists([k], And(t.dom[k], t.clen[k] == r)))))
            return SV('lazylist', None, n=r, at=lambda st2, j: SV('tvrow', None, of=t, index=j))
        if isinstance(e.func, ast.Name) and e.func.id == 'zip' and len(e.args) == 2 and not e.keywords:
            probe = st.fork()
            try:
                a, b = ex.eval(probe, e.args[0]), ex.eval(probe, e.args[1])
            except OutOfSubset:
                return NotImplemented
            if a.kind == 'tkeys' and b.kind == 'tvrow' and a.f['of'] is b.f['of'] and not probe.pending:
                ex.use('axiom:d.keys() and d.values() enumerate in one order, so zip(d.keys(), j-th tuple of zip(*d.values())) pairs every key k with d[k][j]')
                return SV('kvzip', None, row=row_of(b.f['of'], b.f['index']))
        return NotImplemented

    def method(self, ex, st, e, recv, mname, args, kwargs):
        if recv.kind == 'table' and mname == '_dict' and len(args) == 1 and args[0].kind == 'kvzip':
            ex.use('model:self._dict is Dict: Dict(pairs) is the mapping with exactly those items')
            return args[0].f['row']
        if recv.kind == 'rowmap' and mname == 'keys' and not args:
            return SV('rkeys', None, dom=recv.dom)
        return NotImplemented

    def call_value(self, ex, st, e, fn, args, kwargs):
        if fn.kind != 'cls':
            return NotImplemented
        names = ['data', 'columns']
        a = dict(zip(names, args))
        for k_, v in kwargs.items():
            if k_ not in names or k_ in a:
                raise OutOfSubset('constructor keyword %s' % k_)
            a[k_] = v
        data, columns = a.get('data', NONE), a.get('columns', NONE)
        if self.construct == 'inline':
            self_ = SV('table', None, dom=K(Key, False), clen=K(Key, IntVal(0)), carr=Array(fresh_name('new_col'), Key, ArraySort(IntSort(), Val)), cls=fn.f['name'], fresh=True)
            outs = ex.run_function(st, 'dictable.__init__', [self_, data, columns], {})
            rets = [o for o in outs if o.kind == 'return']
            for o in outs:
                if o.kind == 'raise':
                    st.pending.append(o)
            if len(rets) != 1:
                raise OutOfSubset('inlined constructor has %d returning paths' % len(rets))
            st.pc = rets[0].st.pc
            return rets[0].st.env['self']
        out = fresh_table('made')
        out.f['cls'] = fn.f['name']
        if data.kind == 'rowlist' and columns.kind == 'none':
            ex.use('callee contract:dictable(list of records) has the union of their keys as columns, column k listing record.get(k) in order (proved in C01 constructor.records.* given dict_concat; dict_concat.*)')
            for f in records_contract(data, out):
                ex.fact(f)
            self.constructed.append(('records', data, out))
            return out
        if data.kind == 'list' and data.f.get('ety') is None and columns.kind == 'tkeys':
            ex.use('callee contract:dictable([], columns) has exactly these columns and no row (proved in C01 constructor.empty.*)')
            for f in empty_with_columns_contract(columns.f['of'].dom, out):
                ex.fact(f)
            self.constructed.append(('empty', columns, out))
            return out
        if data.kind == 'colmap' and columns.kind == 'none':
            ex.use('callee contract:dictable(dict of equally long lists) has exactly these columns (proved in C01 constructor.columns.*)')
            n = data.f.get('n')
            if n is None:
                raise OutOfSubset('constructor from a dict of columns whose common length is not known')
            ex.oblige(st, 'call.constructor.pre.columns_equally_long', wf(data, n), kind='pre')
            self.constructed.append(('columns', data, out))
            return SV('table', None, dom=data.dom, clen=data.clen, carr=data.carr, cls=fn.f['name'])
        if data.kind == 'none' and columns.kind == 'none':
            ex.use('callee contract:dictable() has no column (proved in C01 constructor.nothing.*)')
            ex.fact(no_columns(out))
            self.constructed.append(('nothing', None, out))
            return out
        raise OutOfSubset('constructor call with data %s, columns %s' % (data.kind, columns.kind))

    # ---- generator bodies: `yield v` appends to the ghost list of yielded values
    def stmt_expr(self, ex, st, s):
        if isinstance(s.value, ast.Yield) and s.value.value is not None:
            v = ex.eval(st, s.value.value)
            y = st.ghost.get('yielded')
            if y is None or v.kind != 'rowmap':
                raise OutOfSubset('yield of %s' % v.kind)
            ex.use('engine:a generator function is executed as the loop that appends every yielded value to a ghost list')
            st.ghost['yielded'] = self.list_op(ex, st, 'append', y, v)
            return True
        return NotImplemented

    def iterate(self, ex, st, it):
        if it.kind == 'rowlist':
            return it.t, (lambda st2, j: rl_at(it, j))
        if it.kind == 'table' and self.iter_contract:
            rl = self.iter_rows(ex, st, it)
            return rl.t, (lambda st2, j: rl_at(rl, j))
        return NotImplemented

    def list_op(self, ex, st, op, *a):
        if op == 'empty':
            return fresh_rowlist('nil', 0)
        if op == 'fresh':
            if a[1] not in ('rowmap', None):
                return NotImplemented
            return fresh_rowlist(a[0])
        if op == 'append':
            rl, v = a
            if rl.kind != 'rowlist' or v.kind != 'rowmap':
                return NotImplemented
            return SV('rowlist', rl.t + 1, doms=Store(rl.doms, rl.t, v.dom), vals=Store(rl.vals, rl.t, v.vals))
        return NotImplemented

    def subscript(self, ex, st, e, recv, idx):
        if recv.kind == 'rowmap' and idx.kind in ('key', 'str'):
            k = idx.t if idx.kind == 'key' else key_of(idx.lit)
            ex.raise_if(st, Not(Select(recv.dom, k)), 'KeyError')
            return V(Select(recv.vals, k))
        return NotImplemented

    def merge(self, ex, st, cond, a, b):
        if a.kind == 'table' and b.kind == 'table':
            return SV('table', None, dom=If(cond, a.dom, b.dom), clen=If(cond, a.clen, b.clen), carr=If(cond, a.carr, b.carr), cls=a.f.get('cls'))
        return NotImplemented

    def truth(self, ex, st, v):
        if v.kind == 'rowlist':
            return v.t > 0
        return NotImplemented

    def is_none(self, ex, st, v):
        if v.kind in ('rowlist', 'rowmap', 'colmap', 'cls', 'tkeys', 'tvalues'):
            return BoolVal(False)
        return NotImplemented
