"""Rows, lists of records and column maps: what the selection forms of dictable.__getitem__, the constructor and concat work on.

Builds on th_tables (a table is dom / clen / carr over column names of sort Key) and th_lists (opaque cells of sort Val).

  rowmap    one record: (dom : Key -> Bool, vals : Key -> Val)                                  (kind used by C01 / C06 / C20 already)
  rowlist   a python list of records: (n, doms : Int -> (Key -> Bool), vals : Int -> (Key -> Val))
  colmap    a plain dict column name -> list: the same three arrays as a table, without the class
  cls       the value of `type(self)` / `cls`: calling it is the constructor, by contract or inlined

Spec function  count_true(m, k) = number of i < k with m[i] != 0  (defined by recursion; the instances a goal needs are passed as
hypotheses, the laws used - bounds, monotonicity, every rank is taken - are proved by explicit induction obligations, `count_lemmas`).

Every contract of a callee that is used registers itself with ex.use(...): 'callee contract:' when its body is proved in some
section (named in the text), 'assumed contract:' otherwise."""
import ast
import z3
from z3 import (And, Or, Not, If, Implies, IntVal, BoolVal, IntSort, BoolSort, ArraySort, Array, Store, Select, Lambda, K,
                Function, Const, ForAll, Exists, Int, Ints, simplify)

from .front import OutOfSubset
from .sv import SV, I, B, T, NONE, S, fresh_name, fresh_int, zi
from .th_lists import Val, NONEV, VAL, INT, fresh_list, as_list_sv, V
from .th_tables import Key, KEY, fresh_table, wf, no_columns, nrows, column, key_of

KB = ArraySort(Key, BoolSort())
KV = ArraySort(Key, Val)
IA = ArraySort(IntSort(), IntSort())
CNT = Function('count_true', IA, IntSort(), IntSort())


# ------------------------------------------------------------------------------------------------ counting
def cnt_def(m, k):
    """definition instance of count_true at k (k >= 0)"""
    return And(CNT(m, 0) == 0, CNT(m, k + 1) == CNT(m, k) + If(Select(m, k) != 0, 1, 0))


def count_lemmas(ctx, prefix, m=None):
    """laws of count_true, each by induction on the upper bound (base + step are separate obligations; the induction schema is trusted):
       bounds        0 <= count(k) <= k
       below         a true entry i < k has rank count(i) < count(k)        (so ranks of true entries are strictly increasing: order is kept)
       onto          every p < count(k) is the rank of a true entry i < k   (so nothing but the rows of true entries is in the result)"""
    m = m if m is not None else Array('M!cl', IntSort(), IntSort())
    k, i, p = Ints('k!cl i!cl p!cl')
    true_ = lambda x: Select(m, x) != 0
    laws = dict(
        bounds=lambda k_: And(0 <= CNT(m, k_), CNT(m, k_) <= k_),
        below=lambda k_: ForAll([i], Implies(And(0 <= i, i < k_, true_(i)), CNT(m, i) < CNT(m, k_))),
        onto=lambda k_: ForAll([p], Implies(And(0 <= p, p < CNT(m, k_)), Exists([i], And(0 <= i, i < k_, true_(i), CNT(m, i) == p)))))
    for name, law in laws.items():
        ctx.post('%s.count_true.%s.base' % (prefix, name), [cnt_def(m, IntVal(0))], law(IntVal(0)), kind='lemma')
        hyp = [k >= 0, cnt_def(m, k), law(k)]
        if name != 'bounds':
            hyp.append(laws['bounds'](k))
        ctx.post('%s.count_true.%s.step' % (prefix, name), hyp, law(k + 1), kind='lemma')
    ctx.trust('induction schema over the upper bound of count_true (base and step are obligations)')
    return laws


# ------------------------------------------------------------------------------------------------ values
def rowmap(dom, vals, **f):
    return SV('rowmap', None, dom=dom, vals=vals, **f)


def row_of(t, j):
    """row j of a table: the mapping column -> cell"""
    c = Const('c!row', Key)
    return rowmap(t.dom, Lambda([c], Select(Select(t.carr, c), j)))


def fresh_rowlist(name, n=None):
    return SV('rowlist', fresh_int(name + '_n') if n is None else zi(n), doms=Array(fresh_name(name + '_dom'), IntSort(), KB),
              vals=Array(fresh_name(name + '_val'), IntSort(), KV))


def rows_of(t, nr):
    """the list of the rows of a rectangular table with nr rows"""
    j = Int('j!rows')
    c = Const('c!rows', Key)
    return SV('rowlist', zi(nr), doms=K(IntSort(), t.dom), vals=Lambda([j], Lambda([c], Select(Select(t.carr, c), j))))


def rl_absent(rl, j):
    """what record j's own get(k) returns for a key it does not have: None for a Dict; for a table taken as a record of columns it is
    [None] * len(table) (dictable.get)"""
    return Select(rl.f['absent'], j) if rl.f.get('absent') is not None else NONEV


def rl_at(rl, j):
    if rl.f.get('absent') is not None:
        return rowmap(Select(rl.doms, j), Select(rl.vals, j), absent=Select(rl.f['absent'], j))
    return rowmap(Select(rl.doms, j), Select(rl.vals, j))


def fresh_colmap(name):
    t = fresh_table(name)
    return SV('colmap', None, dom=t.dom, clen=t.clen, carr=t.carr)


def as_table(cm, cls='dictable'):
    return SV('table', None, dom=cm.dom, clen=cm.clen, carr=cm.carr, cls=cls)


def CLS(name='dictable'):
    return SV('cls', None, name=name)


def mask_list(name, n=None):
    """a python list of booleans (stored as 0 / 1)"""
    m = fresh_list(INT, name, n=n)
    m.f['elems'] = 'bool'
    return m


def same_keys(rl):
    """all records of the list have the key set of the first"""
    j = Int('j!sk')
    return ForAll([j], Implies(And(0 <= j, j < rl.t), Select(rl.doms, j) == Select(rl.doms, 0)))


# ------------------------------------------------------------------------------------------------ stated contracts
def records_contract(rl, out):
    """dictable(list of records) - dict_concat's three cases followed by __init__'s identity on equally long columns:
       no record: no column; all records with one key set: these columns, column k listing record[k] in order; otherwise the
       union of the key sets, absent cells None."""
    j, j2 = Ints('j!rc j2!rc')
    k = Const('k!rc', Key)
    n = rl.t
    same = same_keys(rl)
    return [Implies(n == 0, no_columns(out)),
            Implies(And(n >= 1, same), And(ForAll([k], Select(out.dom, k) == Select(Select(rl.doms, 0), k)),
                                           ForAll([k], Implies(Select(out.dom, k), out.clen[k] == n)),
                                           ForAll([k, j], Implies(And(Select(out.dom, k), 0 <= j, j < n), out.carr[k][j] == Select(Select(rl.vals, j), k))))),
            Implies(And(n >= 1, Not(same)), And(
                ForAll([k], Select(out.dom, k) == Exists([j2], And(0 <= j2, j2 < n, Select(Select(rl.doms, j2), k)))),
                ForAll([k], Implies(Select(out.dom, k), out.clen[k] == n)),
                ForAll([k, j], Implies(And(Select(out.dom, k), 0 <= j, j < n),
                                       out.carr[k][j] == If(Select(Select(rl.doms, j), k), Select(Select(rl.vals, j), k), rl_absent(rl, j))))))]


def mask_contract(t, n, marr, out):
    """table[list of booleans] for a rectangular table (wf(t, n)) and one mask entry per row: named clauses (name, formula).
    With the laws of count_true (count_lemmas) this says: exactly the rows whose entry is true, in order, with all columns."""
    M = nrows(t, n)
    i = Int('i!mc')
    c = Const('c!mc', Key)
    total = CNT(marr, M)
    return [ForAll([c], Select(out.dom, c) == Select(t.dom, c)),
            wf(out, total),
            ForAll([i, c], Implies(And(0 <= i, i < M, Select(marr, i) != 0, Select(t.dom, c)),
                                   And(0 <= CNT(marr, i), CNT(marr, i) < total, out.carr[c][CNT(marr, i)] == t.carr[c][i])))]


MASK_CLAUSES = ('keeps_all_columns', 'rectangular_with_one_row_per_true_entry', 'row_of_a_true_entry_is_kept_at_its_rank')


def empty_with_columns_contract(dom, out):
    """dictable([], columns): exactly these columns, none with a row"""
    k = Const('k!ec', Key)
    return [out.dom == dom, ForAll([k], Implies(Select(out.dom, k), out.clen[k] == 0))]


class Rows:
    """records, lists of records, table iteration, zipper and the constructor call `type(self)(...)`.

    known: [(table SV, row count term)] - tables known to be rectangular (path precondition wf) with that many entries per column
    construct: 'contract' (constructor by its stated contract) | 'inline' (dictable.__init__ executed from the source; needs Init)"""

    def __init__(self, known=(), construct='contract', iter_contract=True):
        self.known = {t.dom.get_id(): (t, zi(n)) for t, n in known}
        self.construct = construct
        self.iter_contract = iter_contract
        self.constructed = []          # (shape, args, result): every constructor call met, for the contract's own obligations

    def know(self, t, n):
        self.known[t.dom.get_id()] = (t, zi(n))

    def rows_n(self, t):
        r = self.known.get(t.dom.get_id())
        if r is None:
            raise OutOfSubset('row count of the table is not known (no wf precondition recorded)')
        return nrows(t, r[1])

    # ---- calls
    def call(self, ex, st, e, fname, args, kwargs):
        if fname in st.env and st.env[fname].kind == 'cls':           # cls(...) inside a classmethod
            return self.call_value(ex, st, e, st.env[fname], args, kwargs)
        if fname == 'type' and len(args) == 1 and args[0].kind == 'table':
            return CLS(args[0].f.get('cls') or 'dictable')
        if fname == 'list' and len(args) == 1 and args[0].kind == 'table' and self.iter_contract:
            return self.iter_rows(ex, st, args[0])
        if fname == 'list' and len(args) == 1 and args[0].kind == 'rowlist':
            return args[0]
        if fname == 'len' and len(args) == 1 and args[0].kind == 'rowlist':
            return I(args[0].t)
        if fname == 'zipper' and len(args) == 2 and all(a.kind in ('rowlist', 'list') for a in args):
            return self.zipper(ex, st, args[0], args[1])
        if fname in ('is_strs', 'is_bools', 'is_ints') and len(args) == 1 and args[0].kind == 'list' and args[0].f.get('elems'):
            ex.use('path precondition:the item is a list of %ss' % args[0].f['elems'])
            return B(args[0].f['elems'] == {'is_strs': 'str', 'is_bools': 'bool', 'is_ints': 'int'}[fname])
        return NotImplemented

    def iter_rows(self, ex, st, t):
        ex.use('callee contract:iterating a rectangular table yields its rows in order, each a Dict column -> cell (dictable.__iter__, proved in C01 __iter__.*)')
        return rows_of(t, self.rows_n(t))

    def zipper(self, ex, st, a, b):
        """zipper(a, b) for two lists, by its contract (C19): ValueError iff the lengths differ and neither is 1; otherwise the pairs of the
        j-th elements, a length-1 list being repeated"""
        ex.use('callee contract:zipper(xs, ys) raises ValueError iff the lengths differ and neither is 1, else pairs the j-th elements (length-1 lists broadcast) (proved in C19 zipper.*)')
        la, lb = a.t, b.t
        ex.raise_if(st, And(la != 1, lb != 1, la != lb), 'ValueError')
        n = If(la != 1, la, lb)

        def el(x, j):
            jj = If(x.t == n, j, 0)
            if x.kind == 'rowlist':
                return rl_at(x, jj)
            x2 = as_list_sv(x)
            from .th_lists import at as l_at
            return l_at(x2, jj)
        return SV('lazylist', None, n=n, at=lambda st2, j: T([el(a, j), el(b, j)]))

    def pre_call(self, ex, st, e):
        # isinstance(x, cls) inside a classmethod
        if isinstance(e.func, ast.Name) and e.func.id == 'isinstance' and len(e.args) == 2 and isinstance(e.args[1], ast.Name) \
                and e.args[1].id in st.env and st.env[e.args[1].id].kind == 'cls':
            v = ex.eval(st, e.args[0])
            if v.kind == 'val':
                return NotImplemented
            return B(v.kind == 'table')
        # zip(*self.values()): the transposition of the columns
        if isinstance(e.func, ast.Name) and e.func.id == 'zip' and len(e.args) == 1 and isinstance(e.args[0], ast.Starred) and not e.keywords:
            probe = st.fork()
            try:
                v = ex.eval(probe, e.args[0].value)
            except OutOfSubset:
                return NotImplemented
            if v.kind == 'lazylist':
                # zip(*[list_0, list_1, ...]): tuple i holds the i-th element of every list; as many tuples as the shortest list has elements
                v = ex.eval(st, e.args[0].value)
                ex.use('axiom:zip(*lists) has min(len) tuples (none for no list), the i-th holding the i-th element of every list in order')
                return SV('transposed', None, outer=v)
            if v.kind != 'tvalues':
                return NotImplemented
            v = ex.eval(st, e.args[0].value)
            t = v.f['of']
            ex.use('axiom:zip(*d.values()) has min(column lengths) tuples (none for no column), the j-th holding the j-th entry of every column in the order of d.values()')
            r = fresh_int('ziplen')
            k = Const('k!zl', Key)
            ex.fact(And(r >= 0, Implies(no_columns(t), r == 0), ForAll([k], Implies(t.dom[k], r <= t.clen[k])),
                        Implies(Not(no_columns(t)), Exists([k], And(t.dom[k], t.clen[k] == r)))))
            return SV('lazylist', None, n=r, at=lambda st2, j: SV('tvrow', None, of=t, index=j))
        if isinstance(e.func, ast.Name) and e.func.id == 'zip' and len(e.args) == 2 and not e.keywords:
            probe = st.fork()
            try:
                a, b = ex.eval(probe, e.args[0]), ex.eval(probe, e.args[1])
            except OutOfSubset:
                return NotImplemented
            if a.kind == 'tkeys' and b.kind == 'tvrow' and a.f['of'] is b.f['of'] and not probe.pending:
                ex.use('axiom:d.keys() and d.values() enumerate in one order, so zip(d.keys(), j-th tuple of zip(*d.values())) pairs every key k with d[k][j]')
                return SV('kvzip', None, row=row_of(b.f['of'], b.f['index']))
            if a.kind == 'ktuple' and b.kind == 'colseq' and not probe.pending:
                return SV('kczip', None, keys=a, cols=b)
        return NotImplemented

    def method(self, ex, st, e, recv, mname, args, kwargs):
        if recv.kind == 'table' and mname == '_dict' and len(args) == 1 and args[0].kind == 'kvzip':
            ex.use('model:self._dict is Dict: Dict(pairs) is the mapping with exactly those items')
            return args[0].f['row']
        if recv.kind == 'rowmap' and mname == 'keys' and not args:
            return SV('rkeys', None, dom=recv.dom)
        if recv.kind == 'table' and mname == 'concat' and 'dictable.concat' in ex.inline:
            return ex.call_inline_expr(st, 'dictable.concat', [CLS(recv.f.get('cls') or 'dictable')] + list(args), kwargs)     # a classmethod called on an instance
        return NotImplemented

    def call_value(self, ex, st, e, fn, args, kwargs):
        if fn.kind != 'cls':
            return NotImplemented
        names = ['data', 'columns']
        a = dict(zip(names, args))
        for k_, v in kwargs.items():
            if k_ == '**':
                continue
            if k_ not in names or k_ in a:
                raise OutOfSubset('constructor keyword %s' % k_)
            a[k_] = v
        data, columns = a.get('data', NONE), a.get('columns', NONE)
        if self.construct == 'inline':
            self_ = SV('table', None, dom=K(Key, False), clen=K(Key, IntVal(0)), carr=Array(fresh_name('new_col'), Key, ArraySort(IntSort(), Val)), cls=fn.f['name'], fresh=True)
            outs = ex.run_function(st, 'dictable.__init__', [self_, data, columns], {})
            rets = [o for o in outs if o.kind == 'return']
            for o in outs:
                if o.kind == 'raise':
                    st.pending.append(o)
            if len(rets) != 1:
                raise OutOfSubset('inlined constructor has %d returning paths' % len(rets))
            st.pc = rets[0].st.pc
            return rets[0].st.env['self']
        out = fresh_table('made')
        out.f['cls'] = fn.f['name']
        if data.kind == 'rowlist' and columns.kind == 'none':
            ex.use('callee contract:dictable(list of records) has the union of their keys as columns, column k listing record.get(k) in order (proved in C01 constructor.records.* given dict_concat; dict_concat.*)')
            for f in records_contract(data, out):
                ex.fact(f)
            self.constructed.append(('records', data, out))
            return out
        if data.kind == 'list' and data.f.get('ety') is None and columns.kind == 'tkeys':
            ex.use('callee contract:dictable([], columns) has exactly these columns and no row (proved in C01 constructor.empty.*)')
            for f in empty_with_columns_contract(columns.f['of'].dom, out):
                ex.fact(f)
            self.constructed.append(('empty', columns, out))
            return out
        if data.kind in ('colmap', 'table') and columns.kind == 'none':
            ex.use('callee contract:dictable(dict of equally long lists) has exactly these columns (proved in C01 constructor.columns.*)')
            ex.oblige(st, 'call.constructor.pre.columns_equally_long', equally_long(data), kind='pre')
            self.constructed.append(('columns', data, out))
            return SV('table', None, dom=data.dom, clen=data.clen, carr=data.carr, cls=fn.f['name'])
        if data.kind == 'none' and columns.kind == 'none' and kwargs.get('**') is not None and kwargs['**'].kind == 'colmap':
            cm = kwargs['**']
            ex.use('callee contract:dictable(**{name: list, ...}) with equally long lists has exactly these columns (proved in C01 constructor.keywords.*)')
            ex.oblige(st, 'call.constructor.pre.columns_equally_long', equally_long(cm), kind='pre')
            self.constructed.append(('keywords', cm, out))
            return SV('table', None, dom=cm.dom, clen=cm.clen, carr=cm.carr, cls=fn.f['name'])
        if data.kind == 'none' and columns.kind == 'none':
            ex.use('callee contract:dictable() has no column (proved in C01 constructor.nothing.*)')
            ex.fact(no_columns(out))
            self.constructed.append(('nothing', None, out))
            return out
        raise OutOfSubset('constructor call with data %s, columns %s' % (data.kind, columns.kind))

    # ---- generator bodies: `yield v` appends to the ghost list of yielded values
    def stmt_expr(self, ex, st, s):
        if isinstance(s.value, ast.Yield) and s.value.value is not None:
            v = ex.eval(st, s.value.value)
            y = st.ghost.get('yielded')
            if y is None or v.kind != 'rowmap':
                raise OutOfSubset('yield of %s' % v.kind)
            ex.use('engine:a generator function is executed as the loop that appends every yielded value to a ghost list')
            st.ghost['yielded'] = self.list_op(ex, st, 'append', y, v)
            return True
        return NotImplemented

    def iterate(self, ex, st, it):
        if it.kind == 'rowlist':
            return it.t, (lambda st2, j: rl_at(it, j))
        if it.kind == 'table' and self.iter_contract:
            rl = self.iter_rows(ex, st, it)
            return rl.t, (lambda st2, j: rl_at(rl, j))
        return NotImplemented

    def list_op(self, ex, st, op, *a):
        if op == 'empty':
            return fresh_rowlist('nil', 0)
        if op == 'fresh':
            if a[1] not in ('rowmap', None):
                return NotImplemented
            return fresh_rowlist(a[0])
        if op == 'append':
            rl, v = a
            if rl.kind != 'rowlist' or v.kind != 'rowmap':
                return NotImplemented
            if v.f.get('absent') is not None or rl.f.get('absent') is not None:
                raise OutOfSubset('appending table-valued records')
            return SV('rowlist', rl.t + 1, doms=Store(rl.doms, rl.t, v.dom), vals=Store(rl.vals, rl.t, v.vals))
        return NotImplemented

    def subscript(self, ex, st, e, recv, idx):
        if recv.kind == 'rowlist' and idx.kind == 'int':
            i = idx.t
            si = simplify(i)
            if z3.is_int_value(si) and si.as_long() < 0:
                i = recv.t + i
            ex.raise_if(st, Not(And(0 <= i, i < recv.t)), 'IndexError')
            return rl_at(recv, i)
        if recv.kind == 'rowmap' and idx.kind in ('key', 'str'):
            k = idx.t if idx.kind == 'key' else key_of(idx.lit)
            ex.raise_if(st, Not(Select(recv.dom, k)), 'KeyError')
            return V(Select(recv.vals, k))
        return NotImplemented

    def merge(self, ex, st, cond, a, b):
        if a.kind == 'table' and b.kind == 'table':
            return SV('table', None, dom=If(cond, a.dom, b.dom), clen=If(cond, a.clen, b.clen), carr=If(cond, a.carr, b.carr), cls=a.f.get('cls'))
        return NotImplemented

    def truth(self, ex, st, v):
        if v.kind == 'rowlist':
            return v.t > 0
        return NotImplemented

    def is_none(self, ex, st, v):
        if v.kind in ('rowlist', 'rowmap', 'colmap', 'cls', 'tkeys', 'tvalues', 'table'):
            return BoolVal(False)
        return NotImplemented


# ================================================================================================ dict-of-columns values and the constructor
from . import theories as _th
_th.TYPE_KINDS['dict'] = tuple(sorted(set(_th.TYPE_KINDS.get('dict', ())) | {'colmap', 'rowmap', 'table'}))      # Dict / dictable are dict subclasses
_th.TYPE_KINDS['list'] = tuple(sorted(set(_th.TYPE_KINDS.get('list', ())) | {'rowlist', 'keylist'}))
_th.TYPE_KINDS.setdefault('Path', ())
_th.TYPE_KINDS.setdefault('pd.io.excel.ExcelFile', ())


def colmap(dom, clen, carr, **f):
    return SV('colmap', None, dom=dom, clen=clen, carr=carr, **f)


def empty_colmap():
    return colmap(K(Key, False), K(Key, IntVal(0)), Array(fresh_name('nocol'), Key, ArraySort(IntSort(), Val)), empty=True)


def equally_long(cm):
    """all columns of the mapping have one length (the precondition under which the constructor stores them as they are)"""
    k1, k2 = Const('k1!el', Key), Const('k2!el', Key)
    return ForAll([k1, k2], Implies(And(Select(cm.dom, k1), Select(cm.dom, k2)), And(Select(cm.clen, k1) == Select(cm.clen, k2), Select(cm.clen, k1) >= 0)))


def same_columns(a, b):
    """two column maps / tables hold the same columns"""
    k = Const('k!sc', Key)
    return ForAll([k], And(Select(a.dom, k) == Select(b.dom, k),
                           Implies(Select(a.dom, k), And(Select(a.clen, k) == Select(b.clen, k), Select(a.carr, k) == Select(b.carr, k)))))


def _mark():
    """a time stamp of the fresh-name counter: constants named after it were created later"""
    return int(fresh_name('mark').rsplit('!', 1)[1])


def _consts_of(exprs):
    seen, out, stack = set(), {}, list(exprs)
    while stack:
        x = stack.pop()
        i = x.get_id()
        if i in seen:
            continue
        seen.add(i)
        if z3.is_quantifier(x):
            stack.append(x.body())
        elif z3.is_app(x):
            if x.num_args() == 0 and x.decl().kind() == z3.Z3_OP_UNINTERPRETED:
                out[i] = x
            stack.extend(x.children())
    return list(out.values())


def generalise(ex, kv, mark, nfacts0, terms):
    """`terms` (and the axiom instances ex.facts[nfacts0:]) were produced by evaluating an expression for one arbitrary key kv.  Constants
    created during that evaluation (fresh names after `mark`) depend on the key: they are replaced by applications f(kv) of fresh functions,
    and the axiom instances are re-stated for every key.  Returns the rewritten terms."""
    new = ex.facts[nfacts0:]

    def fresh(c):
        nm = c.decl().name()
        if z3.eq(c, kv) or '!' not in nm:
            return False
        tail = nm.rsplit('!', 1)[1]
        return tail.isdigit() and int(tail) > mark
    cs = [c for c in _consts_of(list(new) + list(terms)) if fresh(c)]
    if not cs and not new:
        return list(terms)
    sub = [(c, Function(fresh_name(c.decl().name().split('!')[0] + '_of'), Key, c.sort())(kv)) for c in cs]
    for f in new:
        ex._fact_ids.discard(f.get_id())
    del ex.facts[nfacts0:]
    for f in new:
        g = z3.substitute(f, *sub) if sub else f
        ex.fact(ForAll([kv], g) if any(z3.eq(c, kv) for c in _consts_of([g])) else g)
    return [z3.substitute(t, *sub) if sub else t for t in terms]


def lazy_to_list(ex, st, lz):
    """a map-form comprehension value (n, at) with opaque elements as a th_lists list"""
    j = Int(fresh_name('j!l2l'))
    sub = st.fork()
    v = lz.at(sub, j)
    if v.kind == 'none':
        term = NONEV
    elif v.kind == 'val':
        term = v.t
    else:
        raise OutOfSubset('list of %s as a column' % v.kind)
    return SV('list', lz.n, ety=VAL, arrs=[Lambda([j], term)])


class Init:
    """plain dicts of columns (`colmap`), the keyword mapping, and the builtins dictable.__init__ / _data_columns_as_dict / dict_concat use.
    Column names are strings (path precondition: is_int(key) is False for a column name)."""

    def __init__(self, dict_concat='contract'):
        self.dict_concat = dict_concat

    def expr(self, ex, st, e):
        if isinstance(e, ast.Dict) and not e.keys:
            return empty_colmap()
        return NotImplemented

    # ---- methods
    def method(self, ex, st, e, recv, mname, args, kwargs):
        if recv.kind == 'kwargs':
            if recv.f.get('items'):
                raise OutOfSubset('constructor with keyword columns')
            recv = empty_colmap()
        if recv.kind == 'colmap':
            if mname == 'items' and not args:
                return SV('cmitems', None, of=recv)
            if mname == 'values' and not args:
                return SV('tvalues', None, of=recv)
            if mname == 'keys' and not args:
                return SV('tkeys', None, of=recv)
            if mname == 'update' and len(args) == 1 and args[0].kind == 'colmap':
                a, b = recv, args[0]
                if b.f.get('empty'):
                    new = a
                elif a.f.get('empty'):
                    new = b
                else:
                    k = Const('k!upd', Key)
                    ex.use('axiom:d.update(e) stores every item of e and keeps the other items of d')
                    new = colmap(Lambda([k], Or(Select(a.dom, k), Select(b.dom, k))), Lambda([k], If(Select(b.dom, k), Select(b.clen, k), Select(a.clen, k))),
                                 Lambda([k], If(Select(b.dom, k), Select(b.carr, k), Select(a.carr, k))))
                if not isinstance(e.func.value, ast.Name):
                    raise OutOfSubset('update through %s' % ast.unparse(e.func.value)[:40])
                st.env[e.func.value.id] = new
                return NONE
            if mname == 'get' and len(args) == 2 and args[0].kind == 'key' and args[1].kind == 'list':
                d = as_list_sv(args[1], VAL)
                c = Select(recv.dom, args[0].t)
                col = column(recv, args[0].t)
                return SV('list', If(c, col.t, d.t), ety=VAL, arrs=[If(c, col.arrs[0], d.arrs[0])])
        if recv.kind == 'rowmap':
            if mname == 'items' and not args:
                return SV('rmitems', None, of=recv)
            if mname == 'get' and len(args) == 1 and args[0].kind == 'key':
                ex.use('axiom:d.get(k) is d[k] for a key of d; otherwise None for a Dict and [None] * len(d) for a table (dictable.get, proved in C01 get.*)')
                return V(If(Select(recv.dom, args[0].t), Select(recv.vals, args[0].t), recv.f.get('absent', NONEV)))
        if recv.kind == 'super' and mname == '__init__' and len(args) == 1 and args[0].kind == 'colmap':
            t = recv.f['of']
            if not t.f.get('fresh') or not recv.f.get('name'):
                raise OutOfSubset('dict.__init__ on an object that is not freshly created')
            ex.use('axiom:dict.__init__(mapping) on a new dict stores exactly the items of the mapping')
            cm = args[0]
            st.env[recv.f['name']] = SV('table', None, dom=cm.dom, clen=cm.clen, carr=cm.carr, cls=t.f.get('cls'))
            return NONE
        return NotImplemented

    # ---- calls
    def call(self, ex, st, e, fname, args, kwargs):
        a0 = args[0] if args else None
        if fname == 'dict' and len(args) == 1 and a0.kind in ('colmap', 'table'):
            ex.use('axiom:dict(mapping) is a new dict with the same items')
            return colmap(a0.dom, a0.clen, a0.carr, **({'empty': True} if a0.f.get('empty') else {}))
        if fname == 'len' and len(args) == 1 and a0.kind in ('colmap', 'kwargs'):
            if a0.kind == 'kwargs' or a0.f.get('empty'):
                if a0.kind == 'kwargs' and a0.f.get('items'):
                    raise OutOfSubset('constructor with keyword columns')
                return I(0)
            c = fresh_int('nkeys')
            ex.fact(And(c >= 0, (c == 0) == no_columns(a0)))
            ex.use('axiom:len(d) == 0 iff d has no key')
            return I(c)
        if fname == 'is_strs' and len(args) == 1 and a0.kind in ('none', 'tkeys', 'colmap', 'rowlist', 'table'):
            if a0.kind == 'tkeys':
                ex.use('path precondition:column names are strings')
                return B(Not(no_columns(a0.f['of'])))
            return B(False)
        if fname in ('is_str', 'is_df', 'is_tree', 'is_tuple') and len(args) == 1 and a0.kind in ('none', 'tkeys', 'colmap', 'rowlist', 'table', 'rowmap', 'list'):
            return B(False)
        if fname == 'is_int' and len(args) == 1 and a0.kind == 'key':
            ex.use('path precondition:column names are strings')
            return B(False)
        if fname == 'is_dicts' and len(args) == 1 and a0.kind == 'rowlist':
            ex.use('axiom:is_dicts(list of dicts) holds iff the list is not empty')
            return B(a0.t > 0)
        if fname == 'hasattr' and len(args) == 2 and a0.kind in ('rowlist', 'list') and args[1].kind == 'str' and args[1].lit in ('next', 'find'):
            return B(False)
        if fname == 'type' and len(args) == 1 and a0.kind in ('rowlist', 'list'):
            return SV('pytype', None, name='list')
        if fname == 'str' and len(args) == 1 and a0.kind == 'pytype':
            return S("<class '%s'>" % a0.f['name'])
        if fname == 'min' and len(args) == 1 and a0.kind == 'lazylist':
            ex.use('axiom:min(list of booleans) is True iff all are True; min([]) raises ValueError')
            ex.raise_if(st, a0.n == 0, 'ValueError')
            q = Int(fresh_name('q!min'))
            elt = a0.at(st.fork(), q)
            if elt.kind != 'bool':
                raise OutOfSubset('min over a non-boolean comprehension')
            return B(ForAll([q], Implies(And(0 <= q, q < a0.n), elt.t)))
        if fname == 'dict_concat' and len(args) == 1 and a0.kind == 'rowlist' and self.dict_concat == 'contract':
            ex.use('callee contract:dict_concat(records) maps every key of some record to the list of record.get(key), in order (proved in C01 dict_concat.*)')
            out = fresh_colmap('concat')
            for f in records_contract(a0, out):
                ex.fact(f)
            return out
        return NotImplemented

    def compare(self, ex, st, e, op, a, b):
        if op in ('Eq', 'NotEq') and a.kind == 'rowlist' and b.kind == 'list' and b.f.get('ety') is None:
            return (a.t == 0) if op == 'Eq' else (a.t != 0)
        return NotImplemented

    # ---- {k: f(k, v) for k, v in d.items()} / {k: f(k) for k in keys [if c(k)]}
    def dictcomp(self, ex, st, e):
        if len(e.generators) != 1 or e.generators[0].is_async:
            return NotImplemented
        g = e.generators[0]
        probe = st.fork()
        try:
            it = ex.eval(probe, g.iter)
        except OutOfSubset:
            return NotImplemented
        kv = Const(fresh_name('k!dc'), Key)
        if it.kind in ('cmitems', 'titems') and isinstance(g.target, ast.Tuple) and len(g.target.elts) == 2:
            src = it.f['of']
            dom, bind = src.dom, T([KEY(kv), column(src, kv)])
            if src.f.get('cells') == 'tuples':          # a dict whose values are tuples of cells (th_tables3: dict(zipper(names, zipper(*rows))))
                bind = T([KEY(kv), SV('vtuple', Select(src.clen, kv), arr=Select(src.carr, kv))])
            if src.f.get('empty'):
                return empty_colmap()
        elif it.kind == 'rmitems' and isinstance(g.target, ast.Tuple) and len(g.target.elts) == 2:
            src = it.f['of']
            dom, bind = src.dom, T([KEY(kv), V(Select(src.vals, kv))])
        elif it.kind == 'tkeys' and isinstance(g.target, ast.Name):
            dom, bind = it.f['of'].dom, KEY(kv)
        elif it.kind == 'kset' and isinstance(g.target, ast.Name):
            dom, bind = it.f['dom'], KEY(kv)
        else:
            return NotImplemented
        st.pending.extend(probe.pending)
        st.pc = probe.pc
        sub = st.fork(); sub.pending = []
        sub.pc.append(Select(dom, kv))
        base = len(sub.pc)
        mark, nfacts0 = _mark(), len(ex.facts)
        ex.assign(sub, g.target, bind, None)
        keep = []
        for c in g.ifs:
            t_ = ex.truth(sub, ex.eval(sub, c))
            keep.append(t_)
            sub.pc.append(t_)
        knew = ex.eval(sub, e.key)
        vnew = ex.eval(sub, e.value)
        if knew.kind != 'key' or not z3.eq(simplify(knew.t), kv):
            raise OutOfSubset('dict comprehension renames its keys')
        if vnew.kind == 'lazylist':
            vnew = lazy_to_list(ex, sub, vnew)
        if vnew.kind == 'list':
            vl = as_list_sv(vnew, VAL)
            if vl.ety != VAL:
                raise OutOfSubset('column of %s elements' % vl.ety)
            terms = [vl.t, vl.arrs[0]]
        elif vnew.kind in ('val', 'none'):
            terms = [vnew.t if vnew.kind == 'val' else NONEV]
        else:
            raise OutOfSubset('dict comprehension with %s values' % vnew.kind)
        conds = [(And(*o.st.pc[base:]) if len(o.st.pc) > base else BoolVal(True), o.val) for o in sub.pending]
        # what was evaluated is the element for one arbitrary key kv: constants made on the way are functions of the key
        out = generalise(ex, kv, mark, nfacts0, terms + keep + [c_ for c_, _ in conds])
        terms, keep, cds = out[:len(terms)], out[len(terms):len(terms) + len(keep)], out[len(terms) + len(keep):]
        for cond, (_, exc) in zip(cds, conds):      # the comprehension raises iff the element for some key raises
            k2 = Const(fresh_name('k!dcr'), Key)
            ex.raise_if(st, Exists([k2], And(Select(dom, k2), z3.substitute(cond, (kv, k2)))), exc)
        ex.use('axiom:{k: f(k, v) for k, v in d.items() if c(k, v)} has the keys of d that satisfy c and the values f(k, d[k]); it raises iff some element raises')
        ndom = Lambda([kv], And(Select(dom, kv), *keep)) if keep else dom
        if len(terms) == 2:
            return colmap(ndom, Lambda([kv], terms[0]), Lambda([kv], terms[1]))
        return rowmap(ndom, Lambda([kv], terms[0]))

    def merge(self, ex, st, cond, a, b):
        if a.kind == 'colmap' and b.kind == 'colmap':
            return colmap(If(cond, a.dom, b.dom), If(cond, a.clen, b.clen), If(cond, a.carr, b.carr))
        return NotImplemented

    def is_none(self, ex, st, v):
        if v.kind in ('colmap', 'kwargs', 'cmitems', 'rmitems', 'kset', 'pytype'):
            return BoolVal(False)
        return NotImplemented

    def truth(self, ex, st, v):
        if v.kind == 'colmap':
            return BoolVal(False) if v.f.get('empty') else Not(no_columns(v))
        return NotImplemented


# ================================================================================================ slice objects, tuples of column names
PySlice = z3.DeclareSort('PySlice')
SLEN = Function('slice_len', PySlice, IntSort(), IntSort())
SIDX = Function('slice_index', PySlice, IntSort(), IntSort(), IntSort())


def slice_axiom(s, L):
    j = Int('j!sl')
    return And(0 <= SLEN(s, L), SLEN(s, L) <= If(L >= 0, L, 0),
               ForAll([j], Implies(And(0 <= j, j < SLEN(s, L)), And(0 <= SIDX(s, L, j), SIDX(s, L, j) < L))))


def name_list(name):
    """a python list of column names: (length, names : Int -> Key)"""
    return SV('keylist', fresh_int(name + '_n'), arr=Array(fresh_name(name + '_a'), IntSort(), Key), elems='str')


def named(kl, k):
    j = Int('j!nm')
    return Exists([j], And(0 <= j, j < kl.t, Select(kl.arr, j) == k))


class Names:
    """lists of column names: d[[name, ...]] goes through dictattr.__getitem__ (inlined from its source) to the constructor with keyword columns"""

    def call(self, ex, st, e, fname, args, kwargs):
        a0 = args[0] if args else None
        if fname in ('is_strs', 'is_bools', 'is_ints') and len(args) == 1 and a0.kind == 'keylist':
            ex.use('path precondition:the item is a list of strs')
            return B(fname == 'is_strs')
        if fname == 'len' and len(args) == 1 and a0.kind == 'keylist':
            return I(a0.t)
        if fname == 'type' and len(args) == 1 and a0.kind == 'table':
            return CLS(a0.f.get('cls') or 'dictable')
        return NotImplemented

    def method(self, ex, st, e, recv, mname, args, kwargs):
        if recv.kind == 'super' and mname == '__getitem__' and len(args) == 1 and args[0].kind == 'keylist' and 'dictattr.__getitem__' in ex.inline:
            return ex.call_inline_expr(st, 'dictattr.__getitem__', [recv.f['of'], args[0]], {})
        return NotImplemented

    def dictcomp(self, ex, st, e):
        # {k: self[k] for k in names}
        if len(e.generators) != 1 or e.generators[0].ifs or not isinstance(e.generators[0].target, ast.Name):
            return NotImplemented
        g = e.generators[0]
        probe = st.fork()
        try:
            it = ex.eval(probe, g.iter)
        except OutOfSubset:
            return NotImplemented
        if it.kind != 'keylist':
            return NotImplemented
        kv = Const(fresh_name('k!nm'), Key)
        sub = st.fork(); sub.pending = []
        sub.pc.append(named(it, kv))
        base = len(sub.pc)
        sub.env = dict(st.env); sub.env[g.target.id] = KEY(kv)
        knew, vnew = ex.eval(sub, e.key), ex.eval(sub, e.value)
        if knew.kind != 'key' or not z3.eq(simplify(knew.t), kv) or vnew.kind != 'list':
            raise OutOfSubset('comprehension over a list of names with %s values' % vnew.kind)
        for o in sub.pending:
            cond = And(*o.st.pc[base:]) if len(o.st.pc) > base else BoolVal(True)
            k2 = Const(fresh_name('k!nmr'), Key)
            ex.raise_if(st, Exists([k2], And(named(it, k2), z3.substitute(cond, (kv, k2)))), o.val)
        ex.use('axiom:{k: f(k) for k in names} has exactly the listed names as keys and the values f(k); it raises iff some f(k) raises')
        vl = as_list_sv(vnew, VAL)
        dom = Array(fresh_name('named'), Key, BoolSort())
        ex.fact(ForAll([kv], Select(dom, kv) == named(it, kv)))
        return colmap(dom, Lambda([kv], vl.t), Lambda([kv], vl.arrs[0]))


class Slices:
    """xs[s] for an opaque slice object s: which indices are selected depends on s and len(xs) only (slice.indices), so equally long lists are
    cut alike; tuples of column names; `callable` / `is_tuple` / membership of non-names in keys()."""

    def subscript(self, ex, st, e, recv, idx):
        if recv.kind == 'list' and idx.kind == 'pyslice':
            lst = as_list_sv(recv, VAL)
            s, L = idx.t, lst.t
            ex.use('axiom:xs[s] for a slice object s holds xs[i] for the indices i = slice_index(s, len(xs), j), j < slice_len(s, len(xs)): they depend on s and '
                   'len(xs) only, lie within range and are at most len(xs) many')
            ex.fact(slice_axiom(s, L))
            j = Int(fresh_name('j!slc'))
            return SV('list', SLEN(s, L), ety=lst.ety, arrs=[Lambda([j], Select(a, SIDX(s, L, j))) for a in lst.arrs])
        return NotImplemented

    def call(self, ex, st, e, fname, args, kwargs):
        a0 = args[0] if args else None
        if fname == 'is_tuple' and len(args) == 1 and a0.kind != 'val':
            return B(a0.kind == 'tuple')
        if fname == 'callable' and len(args) == 1 and a0.kind in ('key', 'tuple', 'list', 'pyslice', 'int'):
            return B(False)
        if fname in ('is_int', 'is_arr') and len(args) == 1 and a0.kind in ('key', 'tuple', 'pyslice', 'list'):
            return B(False)
        return NotImplemented

    def compare(self, ex, st, e, op, a, b):
        if op in ('In', 'NotIn') and b.kind == 'tkeys' and a.kind in ('tuple', 'pyslice', 'int', 'list'):
            ex.use('path precondition:column names are strings (a tuple / slice / int is not a key of the table)')
            return BoolVal(op == 'NotIn')
        return NotImplemented

    def listcomp(self, ex, st, e):
        """[f(x) for x in <tuple display>]: evaluated element by element"""
        if len(e.generators) != 1 or e.generators[0].ifs or e.generators[0].is_async:
            return NotImplemented
        g = e.generators[0]
        probe = st.fork()
        try:
            it = ex.eval(probe, g.iter)
        except OutOfSubset:
            return NotImplemented
        if it.kind != 'tuple' or probe.pending:
            return NotImplemented
        out = []
        for x in it.items:
            sub = st.fork(); sub.env = dict(st.env); sub.guards = list(st.guards); sub.pending = []
            ex.assign(sub, g.target, x, None)
            out.append(ex.eval(sub, e.elt))
            st.pending.extend(sub.pending)
            st.pc = sub.pc
        return SV('lazylist', None, n=IntVal(len(out)), items=out, at=None)

    def pre_call(self, ex, st, e):
        # zip(*[col_0, ..., col_k-1]) for k >= 1 equally long lists known one by one: the list of row tuples (columnwise representation)
        if isinstance(e.func, ast.Name) and e.func.id == 'zip' and len(e.args) == 1 and isinstance(e.args[0], ast.Starred) and not e.keywords:
            probe = st.fork()
            try:
                v = ex.eval(probe, e.args[0].value)
            except OutOfSubset:
                return NotImplemented
            if v.kind != 'lazylist' or not v.f.get('items') or not all(x.kind == 'list' for x in v.f['items']):
                return NotImplemented
            v = ex.eval(st, e.args[0].value)
            from .th_lists import TUP
            ls = [as_list_sv(x, VAL) for x in v.f['items']]
            for l in ls[1:]:
                ex.oblige(st, 'zip.equal_lengths', l.t == ls[0].t, kind='pre')
            ex.use('axiom:zip of equally long lists is the list of tuples of their j-th elements (columnwise representation)')
            arrs = []
            for l in ls:
                arrs += l.arrs
            return SV('list', ls[0].t, ety=TUP(*[l.ety for l in ls]), arrs=arrs)
        return NotImplemented


# ================================================================================================ concat: tables as records of columns
MKCOL = Function('list_value', IntSort(), ArraySort(IntSort(), Val), Val)      # a python list (length, content) as one opaque cell value
VLEN = Function('len_of_list_value', Val, IntSort())
VARR = Function('items_of_list_value', Val, ArraySort(IntSort(), Val))


def list_value_axioms():
    n = Int('n!lv')
    a = Const('a!lv', ArraySort(IntSort(), Val))
    return [ForAll([n, a], And(VLEN(MKCOL(n, a)) == n, VARR(MKCOL(n, a)) == a), patterns=[MKCOL(n, a)])]


def records_of_tables(ex, tables, counts):
    """the list [t_0, t_1, ...] (known one by one) seen as a list of records whose cells are whole columns; a missing key reads as
    [None] * len(t_j) - what dictable.get returns"""
    k = Const('k!rt', Key)
    doms = Array(fresh_name('tdoms'), IntSort(), KB)
    vals = Array(fresh_name('tvals'), IntSort(), KV)
    absent = Array(fresh_name('tabsent'), IntSort(), Val)
    for j, (t, nr) in enumerate(zip(tables, counts)):
        cells = Array(fresh_name('tcells%d' % j), Key, Val)             # named array + defining fact instead of a lambda: keeps the grounded query first order
        ex.fact(ForAll([k], Select(cells, k) == MKCOL(Select(t.clen, k), Select(t.carr, k))))
        doms = Store(doms, j, t.dom)
        vals = Store(vals, j, cells)
        absent = Store(absent, j, MKCOL(nr, K(IntSort(), NONEV)))
    return SV('rowlist', IntVal(len(tables)), doms=doms, vals=vals, absent=absent)


class Concats:
    """dictable.concat on tables known one by one (d1 + d2): list(tuple), the comprehension over it, dict_concat of tables by its contract (a table
    read as a record of columns), sum([xs, ys], [])"""

    def __init__(self, rows):
        self.rows = rows

    def call(self, ex, st, e, fname, args, kwargs):
        a0 = args[0] if args else None
        if fname == 'list' and len(args) == 1 and a0.kind == 'tuple':
            ex.use('axiom:list(tuple) has the elements of the tuple in order')
            return SV('lazylist', None, n=IntVal(len(a0.items)), items=list(a0.items), at=None)
        if fname == 'dict_concat' and len(args) == 1 and a0.kind == 'lazylist' and a0.f.get('items') and all(x.kind == 'table' for x in a0.f['items']):
            ex.use('callee contract:dict_concat(records) maps every key of some record to the list of record.get(key), in order (proved in C01 dict_concat.*); '
                   'a table is a record whose cells are its columns and whose get(k) for an absent k is [None] * len (dictable.get, proved in C01 get.*)')
            for f in list_value_axioms():
                ex.fact(f)
            rl = records_of_tables(ex, a0.f['items'], [self.rows.rows_n(t) for t in a0.f['items']])
            out = fresh_colmap('concat')
            for f in records_contract(rl, out):
                ex.fact(f)
            out.f['cells'] = 'lists'
            return out
        if fname == 'sum' and len(args) == 2 and a0.kind == 'list' and a0.f.get('ety') == VAL and args[1].kind == 'list' and args[1].f.get('ety') is None:
            ex.use('axiom:sum([xs, ys], []) is xs + ys (stated for exactly two lists)')
            ex.oblige(st, 'sum.of_exactly_two_lists', a0.t == 2, kind='pre')
            c0, c1 = Select(a0.arrs[0], 0), Select(a0.arrs[0], 1)
            j = Int(fresh_name('j!sum'))
            return SV('list', VLEN(c0) + VLEN(c1), ety=VAL, arrs=[Lambda([j], If(j < VLEN(c0), Select(VARR(c0), j), Select(VARR(c1), j - VLEN(c0))))])
        return NotImplemented

    def listcomp(self, ex, st, e):
        if len(e.generators) != 1 or e.generators[0].ifs or e.generators[0].is_async:
            return NotImplemented
        g = e.generators[0]
        probe = st.fork()
        try:
            it = ex.eval(probe, g.iter)
        except OutOfSubset:
            return NotImplemented
        if it.kind != 'lazylist' or not it.f.get('items') or probe.pending:
            return NotImplemented
        out = []
        for x in it.f['items']:
            sub = st.fork(); sub.env = dict(st.env); sub.guards = list(st.guards); sub.pending = []
            ex.assign(sub, g.target, x, None)
            out.append(ex.eval(sub, e.elt))
            st.pending.extend(sub.pending)
            st.pc = sub.pc
        return SV('lazylist', None, n=IntVal(len(out)), items=out, at=None)

    def subscript(self, ex, st, e, recv, idx):
        if recv.kind == 'lazylist' and recv.f.get('items') and idx.kind == 'int':
            s = simplify(idx.t)
            if z3.is_int_value(s) and 0 <= s.as_long() < len(recv.f['items']):
                return recv.f['items'][s.as_long()]
        return NotImplemented


# ================================================================================================ update: a loop over __setitem__
class Updates:
    """`for k, v in other.items(): self[k] = v`: the items of a dict come in some order that lists every key once (positions <-> keys: the same
    bijection axioms as for sorted keys, any enumeration will do); `self[k] = v` by the contract of dictable.__setitem__ (proved in C01 __setitem__.*),
    here on its accepting path for a value that fits."""

    def __init__(self, rows):
        self.rows = rows          # the row count of the receiver once it has a column (as the loop contract knows it); checked at every call

    def iterate(self, ex, st, it):
        if it.kind in ('titems', 'cmitems'):
            src = it.f['of']
            d = src.dom
            ex.use('axiom:iterating d.items() yields every key of d exactly once, with its value (the order is left open)')
            for f in sorted_keys_axioms():
                ex.fact(f)
            return NK(d), (lambda st2, i: T([KEY(SK(d, i)), column(src, SK(d, i))]))
        return NotImplemented

    def store_subscript(self, ex, st, tg, recv, idx, v):
        if recv.kind == 'table' and idx.kind == 'key' and v.kind == 'list':
            vl = as_list_sv(v, VAL)
            k_ = Const('k!si', Key)
            ex.oblige(st, 'call.__setitem__.pre.receiver_is_rectangular_with_that_many_rows', ForAll([k_], Implies(Select(recv.dom, k_), Select(recv.clen, k_) == self.rows)), kind='pre')
            n = If(no_columns(recv), 0, self.rows)
            ex.use('callee contract:d[name] = list stores the list as column `name` when its length fits (len(d) rows, or d has no column yet) and leaves the other '
                   'columns; a length-1 list is broadcast, any other length raises ValueError before anything is stored (proved in C01 __setitem__.*)')
            fits = Or(vl.t == n, no_columns(recv))
            ex.raise_if(st, Not(Or(fits, vl.t == 1)), 'ValueError')
            ex.oblige(st, 'call.__setitem__.value_fits', fits, kind='pre')          # the broadcast path is not needed by update's callers: stated as a precondition
            return SV('table', None, dom=Store(recv.dom, idx.t, BoolVal(True)), clen=Store(recv.clen, idx.t, vl.t), carr=Store(recv.carr, idx.t, vl.arrs[0]),
                      cls=recv.f.get('cls'))
        return NotImplemented


# ================================================================================================ deleting a column
def without_column(t, k):
    return SV('table', None, dom=Store(t.dom, k, BoolVal(False)), clen=t.clen, carr=t.carr, cls=t.f.get('cls'))


class Deletes:
    """del d[name] / super().__delitem__(name) / d.copy().  `level`: 'dict' - only the dict-level delete is an axiom (for the section that proves
    dictattr.__delitem__ on its body); 'contract' - dictattr.__delitem__(name) by its contract (for its callers)."""

    def __init__(self, level='contract'):
        self.level = level

    def _dict_delete(self, ex, st, t, k):
        ex.use('axiom:dict.__delitem__(k) removes the key k and nothing else; KeyError when k is not a key')
        ex.raise_if(st, Not(Select(t.dom, k)), 'KeyError')
        return without_column(t, k)

    def _contract(self, ex, st, t, k):
        ex.use('callee contract:del d[name] removes the column `name` and nothing else; KeyError when there is no such column (dictattr.__delitem__, proved in C01 __delitem__.*)')
        ex.raise_if(st, Not(Select(t.dom, k)), 'KeyError')
        return without_column(t, k)

    def method(self, ex, st, e, recv, mname, args, kwargs):
        if recv.kind == 'super' and mname == '__delitem__' and len(args) == 1 and args[0].kind == 'key':
            call = e.func.value
            owner = call.args[0].id if isinstance(call, ast.Call) and call.args and isinstance(call.args[0], ast.Name) else None
            t = recv.f['of']
            if owner == 'dictattr':
                new = self._dict_delete(ex, st, t, args[0].t)        # dictattr's base is dict
            elif owner == 'dictable' and self.level == 'contract':
                new = self._contract(ex, st, t, args[0].t)           # dictable's base Dict / dictattr: dictattr.__delitem__
            else:
                return NotImplemented
            if not recv.f.get('name'):
                raise OutOfSubset('super().__delitem__ on an unnamed receiver')
            st.env[recv.f['name']] = new
            return NONE
        if recv.kind == 'table' and mname == 'copy' and not args:
            ex.use('model:d.copy() is a new table object holding the same columns (sharing of the column lists is the frame checker\'s business)')
            return recv
        if recv.kind == 'key' and mname == 'startswith' and len(args) == 1 and args[0].kind == 'str' and args[0].lit == '_':
            ex.use('path precondition:column names do not start with an underscore and contain no dot')
            return B(False)
        return NotImplemented

    def delete_subscript(self, ex, st, tg, recv, idx):
        if recv.kind == 'table' and idx.kind == 'key' and self.level == 'contract':
            return self._contract(ex, st, recv, idx.t)
        return NotImplemented

    def call(self, ex, st, e, fname, args, kwargs):
        if fname == 'is_str' and len(args) == 1 and args[0].kind == 'key':
            return B(True)
        return NotImplemented

    def compare(self, ex, st, e, op, a, b):
        if op in ('In', 'NotIn') and b.kind == 'key' and a.kind == 'str' and a.lit == '.':
            ex.use('path precondition:column names do not start with an underscore and contain no dot')
            return BoolVal(op == 'NotIn')
        return NotImplemented


# ================================================================================================ the builtins dict_concat chains
# sorted(keys): position <-> key.  For a key set d (an array Key -> Bool): NK(d) keys, SK(d, i) the i-th in sorted order, SP(d, k) the position of k.
NK = Function('n_keys', KB, IntSort())
SK = Function('sorted_key', KB, IntSort(), Key)
SP = Function('sorted_pos', KB, Key, IntSort())


def sorted_keys_axioms():
    d = Const('d!sk', KB)
    k = Const('k!sk', Key)
    i = Int('i!sk')
    return [ForAll([d], NK(d) >= 0, patterns=[NK(d)]),
            ForAll([d, k], Implies(Select(d, k), And(0 <= SP(d, k), SP(d, k) < NK(d), SK(d, SP(d, k)) == k)), patterns=[SP(d, k)]),
            ForAll([d, i], Implies(And(0 <= i, i < NK(d)), And(Select(d, SK(d, i)), SP(d, SK(d, i)) == i)), patterns=[SK(d, i)])]


class Concat:
    """sorted / tuple / set / list on key sets, sorted(d.items()), zip(*lists), map(list, .), dict(zip(keys, columns)), reduce of a union step:
    the builtins on the shapes dict_concat applies them to.  Keys of one dict are distinct, so sorting items never compares values."""

    def name(self, ex, st, ident):
        if ident == 'list' and ident not in st.env:
            return SV('builtin', None, name='list')
        return NotImplemented

    def _keyset_facts(self, ex):
        ex.use('axiom:sorted(keys of a dict) enumerates exactly these keys, each once, in an order that depends on the key set only; '
               'tuple() / list() keep elements and order; sorted(d.items()) orders the items by key (keys are distinct)')
        for f in sorted_keys_axioms():
            ex.fact(f)

    def call(self, ex, st, e, fname, args, kwargs):
        a0 = args[0] if args else None
        if fname == 'sorted' and len(args) == 1 and not kwargs and a0.kind == 'rkeys':
            self._keyset_facts(ex)
            return SV('ktuple', None, dom=a0.f['dom'])
        if fname == 'sorted' and len(args) == 1 and not kwargs and a0.kind == 'rmitems':
            self._keyset_facts(ex)
            return SV('sitems', None, row=a0.f['of'])
        if fname == 'tuple' and len(args) == 1 and a0.kind == 'ktuple':
            return a0
        if fname == 'set' and not args:
            return SV('kset', None, dom=K(Key, False))
        if fname == 'set' and len(args) == 1 and a0.kind == 'ktuple':
            return SV('kset', None, dom=a0.f['dom'])
        if fname == 'set' and len(args) == 1 and a0.kind == 'lazylist':
            el = a0.at(st.fork(), Int('j!probe'))
            if el.kind != 'ktuple':
                return NotImplemented
            return SV('ktset', None, src=a0)
        if fname == 'list' and len(args) == 1 and a0.kind == 'ktset':
            src = a0.f['src']
            D = lambda j: src.at(st.fork(), j).f['dom']
            c = fresh_int('ndistinct')
            j = Int('j!ds')
            ex.use('axiom:list(set(xs)) holds every distinct element of xs once: it is empty iff xs is, and has one element iff xs is not empty and all '
                   'elements of xs are equal; two tuples of sorted keys are equal iff the key sets are')
            same = ForAll([j], Implies(And(0 <= j, j < src.n), D(j) == D(IntVal(0))))
            ex.fact(And(c >= 0, c <= src.n, (c == 0) == (src.n <= 0), (c == 1) == And(src.n >= 1, same)))
            return SV('ktlist', None, n=c, src=src, D=D)
        if fname == 'len' and len(args) == 1 and a0.kind == 'ktlist':
            return I(a0.f['n'])
        if fname == 'map' and len(args) == 2 and a0.kind == 'builtin' and a0.f['name'] == 'list' and args[1].kind == 'transposed':
            ex.use('axiom:map(list, tuples) yields each tuple as a list')
            return SV('colseq', None, outer=args[1].f['outer'])
        if fname == 'dict' and len(args) == 1 and a0.kind == 'kczip':
            return self.dict_of_zip(ex, st, a0.f['keys'], a0.f['cols'].f['outer'])
        if fname == 'reduce' and len(args) == 3 and a0.kind == 'func' and args[1].kind == 'ktlist' and args[2].kind == 'kset':
            return self.reduce_union(ex, st, a0, args[1], args[2])
        return NotImplemented

    def dict_of_zip(self, ex, st, keys, outer):
        """dict(zip(keys, columns)) where column i is the list of the i-th elements of the lists of `outer`"""
        ex.use('axiom:dict(zip(ks, vs)) maps ks[i] to vs[i] for i < min(len(ks), len(vs)) (distinct keys)')
        dom0 = keys.f['dom']
        n = outer.n
        L = fresh_int('ncolumns')
        j = Int(fresh_name('j!dz'))
        i = Int(fresh_name('i!dz'))
        k = Const(fresh_name('k!dz'), Key)
        sub = st.fork()
        inner = outer.at(sub, j)
        if inner.kind != 'lazylist':
            raise OutOfSubset('zip(*xs) over elements of kind %s' % inner.kind)
        cell = inner.at(sub, i)
        if cell.kind not in ('val', 'none'):
            raise OutOfSubset('cells of kind %s' % cell.kind)
        cterm = cell.t if cell.kind == 'val' else NONEV
        ex.fact(And(L >= 0, ForAll([j], Implies(And(0 <= j, j < n), L <= inner.n)),
                    Implies(n >= 1, Exists([j], And(0 <= j, j < n, L == inner.n))), Implies(n <= 0, L == 0)))
        pos = SP(dom0, k)
        return colmap(Lambda([k], And(Select(dom0, k), pos < L)), K(Key, n) if not z3.is_expr(n) else Lambda([k], n),
                      Lambda([k], Lambda([j], z3.substitute(cterm, (i, pos)))))

    def reduce_union(self, ex, st, fn, lst, init):
        """reduce(lambda res, keys: res | set(keys), tuples, set()): the step is executed once on an arbitrary set and tuple; if it adds exactly the
        keys of the tuple, the fold is the union of the key sets of all tuples (induction over the list; the elements of list(set(xs)) are those of xs)"""
        S0, D0 = Const(fresh_name('S!red'), KB), Const(fresh_name('D!red'), KB)
        r = ex.call_func(st, fn, [SV('kset', None, dom=S0), SV('ktuple', None, dom=D0)], {})
        if r.kind != 'kset':
            raise OutOfSubset('reduce step returns %s' % r.kind)
        k = Const('k!red', Key)
        ex.oblige(st, 'reduce.step_adds_exactly_the_keys_of_the_tuple', ForAll([k], Select(r.f['dom'], k) == Or(Select(S0, k), Select(D0, k))), kind='lemma')
        ex.use('axiom:reduce(f, xs, init) folds f over xs from the left; the union over list(set(xs)) is the union over xs (induction over the list is trusted)')
        j = Int(fresh_name('j!red'))
        src, D = lst.f['src'], lst.f['D']
        return SV('kset', None, dom=Lambda([k], Or(Select(init.f['dom'], k), Exists([j], And(0 <= j, j < src.n, Select(D(j), k))))))

    def binop(self, ex, st, e, op, a, b):
        if op == 'BitOr' and a.kind == 'kset' and b.kind == 'kset':
            k = Const('k!or', Key)
            return SV('kset', None, dom=Lambda([k], Or(Select(a.f['dom'], k), Select(b.f['dom'], k))))
        return NotImplemented

    def subscript(self, ex, st, e, recv, idx):
        if recv.kind == 'ktlist' and idx.kind == 'int':
            s = simplify(idx.t)
            if not (z3.is_int_value(s) and s.as_long() == 0):
                raise OutOfSubset('element %s of list(set(...))' % s)
            ex.raise_if(st, recv.f['n'] <= 0, 'IndexError')
            d = Const(fresh_name('keys0'), KB)
            j = Int(fresh_name('j!k0'))
            src, D = recv.f['src'], recv.f['D']
            ex.fact(Implies(recv.f['n'] >= 1, Exists([j], And(0 <= j, j < src.n, d == D(j)))))       # facts are global: conditional on the list having an element
            ex.fact(Implies(recv.f['n'] == 1, d == D(IntVal(0))))
            return SV('ktuple', None, dom=d)
        return NotImplemented

    def iterate(self, ex, st, it):
        if it.kind == 'sitems':
            row = it.f['row']
            d = row.dom
            return NK(d), (lambda st2, i: T([KEY(SK(d, i)), V(Select(row.vals, SK(d, i)))]))
        return NotImplemented

    def is_none(self, ex, st, v):
        if v.kind in ('ktuple', 'ktset', 'ktlist', 'sitems', 'transposed', 'colseq', 'kczip', 'builtin', 'rkeys'):
            return BoolVal(False)
        return NotImplemented
