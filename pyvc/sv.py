"""Symbolic values and z3 helpers shared by the executor, the theories and the contract files."""
import itertools
import z3
from z3 import (And, Or, Not, If, Implies, IntVal, BoolVal, Int, Bool, Ints, is_true, is_false, simplify,
                is_int_value, ForAll, Exists, Function, IntSort, BoolSort, DeclareSort, Const, Consts)

_fresh = itertools.count()


def fresh_name(prefix='v'):
    return '%s!%d' % (prefix, next(_fresh))


def fresh_int(prefix='i'):
    return Int(fresh_name(prefix))


def fresh_bool(prefix='b'):
    return Bool(fresh_name(prefix))


class SV:
    """A symbolic Python value.  `kind` is static; `t` is the main z3 term (or None); `f` holds further fields."""
    __slots__ = ('kind', 't', 'f')

    def __init__(self, kind, t=None, **f):
        self.kind = kind
        self.t = t
        self.f = f

    def __getattr__(self, k):
        try:
            return self.f[k]
        except KeyError:
            raise AttributeError(k)

    def __repr__(self):
        return 'SV(%s,%s,%s)' % (self.kind, self.t, {k: v for k, v in self.f.items() if k not in ('closure',)})


def zi(x):
    return x if z3.is_expr(x) else IntVal(x)


def I(x):
    return SV('int', zi(x))


def B(x):
    return SV('bool', x if z3.is_expr(x) else BoolVal(bool(x)))


NONE = SV('none')


def S(lit):
    return SV('str', None, lit=lit)


def T(items):
    return SV('tuple', None, items=list(items))


# ---- datetime / timedelta: the pair CPython itself stores (days|ordinal, microseconds-in-day) with carry
DAYUS = 86400 * 10 ** 6


def DT(o, us=0):
    return SV('dt', zi(o), us=zi(us))


def TD(days, us=0):
    """normalised timedelta: 0 <= us < DAYUS is an invariant re-established by td_norm"""
    return SV('td', zi(days), us=zi(us))


def td_norm(days, us):
    days, us = zi(days), zi(us)
    return TD(simplify(days + us / DAYUS), simplify(us % DAYUS))   # z3 div/mod by a positive constant are floor div/mod


def dt_add(a, b):
    u = a.us + b.us
    return DT(simplify(a.t + b.t + u / DAYUS), simplify(u % DAYUS))


def dt_sub_td(a, b):
    u = a.us - b.us
    return DT(a.t - b.t + u / DAYUS, u % DAYUS)


def dt_diff(a, b):
    u = a.us - b.us
    return TD(a.t - b.t + u / DAYUS, u % DAYUS)


def lex_lt(a, b):
    return Or(a.t < b.t, And(a.t == b.t, a.us < b.us))


def lex_le(a, b):
    return Or(a.t < b.t, And(a.t == b.t, a.us <= b.us))


def pair_eq(a, b):
    return And(a.t == b.t, a.us == b.us)


# ---- Python integer division
def fdiv(a, b):
    """Python a // b on mathematical ints (z3 Int div is floor for a positive divisor)"""
    a, b = zi(a), zi(b)
    bs = simplify(b)
    if is_int_value(bs):
        v = bs.as_long()
        if v > 0:
            return a / b
        if v < 0:
            return (-a) / (-b)
        raise ZeroDivisionError
    return If(b > 0, a / b, (-a) / (-b))


def fmod(a, b):
    """Python a % b (sign of the divisor)"""
    a, b = zi(a), zi(b)
    bs = simplify(b)
    if is_int_value(bs):
        v = bs.as_long()
        if v > 0:
            return a % b
        if v < 0:
            return -((-a) % (-b))
        raise ZeroDivisionError
    return If(b > 0, a % b, -((-a) % (-b)))


def zmin(a, b):
    return If(a <= b, a, b)


def zmax(a, b):
    return If(a >= b, a, b)


# ---- polymorphic spec functions: work on python ints and on z3 Ints alike ---------------------------------
def _isz(*xs):
    return any(z3.is_expr(x) for x in xs)


def p_fdiv(a, b):
    return fdiv(a, b) if _isz(a, b) else a // b


def p_fmod(a, b):
    return fmod(a, b) if _isz(a, b) else a % b


def p_if(c, a, b):
    if z3.is_expr(c):
        return If(c, zi(a) if not z3.is_expr(a) and isinstance(a, int) and not isinstance(a, bool) else a,
                  zi(b) if not z3.is_expr(b) and isinstance(b, int) and not isinstance(b, bool) else b)
    return a if c else b


def p_and(*cs):
    if _isz(*cs):
        return And(*[c if z3.is_expr(c) else BoolVal(bool(c)) for c in cs])
    return all(cs)


def p_or(*cs):
    if _isz(*cs):
        return Or(*[c if z3.is_expr(c) else BoolVal(bool(c)) for c in cs])
    return any(cs)


def p_not(c):
    return Not(c) if z3.is_expr(c) else (not c)


def leap(y):
    return p_and(p_fmod(y, 4) == 0, p_or(p_fmod(y, 100) != 0, p_fmod(y, 400) == 0))


def dim(y, m):
    """days in month"""
    return p_if(m == 2, p_if(leap(y), 29, 28), p_if(p_or(m == 4, m == 6, m == 9, m == 11), 30, 31))


def dfc(y, m, d):
    """days from civil: proleptic Gregorian ordinal of (y, m, d), 1 <= m <= 12 (validated against date.toordinal)"""
    y2 = p_if(m <= 2, y - 1, y)
    era = p_fdiv(y2, 400)
    yoe = y2 - era * 400
    mp = p_if(m > 2, m - 3, m + 9)
    doy = p_fdiv(153 * mp + 2, 5) + d - 1
    doe = yoe * 365 + p_fdiv(yoe, 4) - p_fdiv(yoe, 100) + doy
    return era * 146097 + doe - 719468 + 719163


# ---- opaque days-from-civil: DFC is uninterpreted in first-attempt queries; `reveal` adds its definition per application
DFCf = Function('DFC', IntSort(), IntSort(), IntSort(), IntSort())


def DFC(y, m, d):
    return DFCf(zi(y), zi(m), zi(d))


def dfc_apps(exprs):
    """all distinct applications DFC(y,m,d) occurring in the given z3 expressions"""
    seen, out, stack = set(), {}, list(exprs)
    while stack:
        e = stack.pop()
        i = e.get_id()
        if i in seen:
            continue
        seen.add(i)
        if z3.is_app(e):
            if e.decl().name() == 'DFC' and e.num_args() == 3:
                out[i] = e
            stack.extend(e.children())
        elif z3.is_quantifier(e):
            stack.append(e.body())
    return list(out.values())


def reveal_dfc(exprs):
    """definition instances DFC(y,m,d) == days_from_civil(y,m,d) (and linearity in d) for every application in exprs"""
    eqs = []
    for app in dfc_apps(exprs):
        y, m, d = app.children()
        eqs.append(app == dfc(y, m, d))
    return eqs


def valid_ymd(y, m, d):
    return And(1 <= m, m <= 12, 1 <= d, d <= dim(y, m))


def next_month(y, m):
    return (p_if(m == 12, y + 1, y), p_if(m == 12, 1, m + 1))


def ym_spec(y, m):
    return (y + p_fdiv(m - 1, 12), 1 + p_fmod(m - 1, 12))


def wd(o):
    """weekday of ordinal o, Monday = 0"""
    return p_fmod(o + 6, 7)


def W(a):
    """number of weekdays among ordinals 1..a (a counting function; only differences are used)"""
    k = p_fdiv(a + 6, 7)
    r = p_fmod(a + 6, 7)
    return 5 * k + p_if(r + 1 < 5, r + 1, 5)


def merge_sv(cond, a, b):
    """ITE-merge of two symbolic values of the same shape; returns None when the shapes differ"""
    if a is b:
        return a
    if a.kind != b.kind:
        return None
    if a.kind == 'list' and ('arrs' in a.f or 'arrs' in b.f):
        # th_lists representation (length + content arrays): the content must be merged too, not taken from the first operand
        if a.f.get('arrs') is None or b.f.get('arrs') is None or a.f.get('ety') != b.f.get('ety') or len(a.f['arrs']) != len(b.f['arrs']):
            return None
        return SV('list', If(cond, a.t, b.t), ety=a.f['ety'], arrs=[If(cond, x, y) for x, y in zip(a.f['arrs'], b.f['arrs'])])
    if a.kind in ('int', 'bool', 'val', 'list', 'dict', 'set'):
        if a.t.sort() != b.t.sort():
            return None
        extra = {k: v for k, v in a.f.items()}
        return SV(a.kind, If(cond, a.t, b.t), **extra)
    if a.kind in ('dt', 'td'):
        return SV(a.kind, If(cond, a.t, b.t), us=If(cond, a.f['us'], b.f['us']))
    if a.kind == 'none':
        return a
    if a.kind == 'str':
        return a if a.f.get('lit') == b.f.get('lit') and a.t is None and b.t is None else None
    if a.kind == 'tuple':
        if len(a.items) != len(b.items):
            return None
        items = [merge_sv(cond, x, y) for x, y in zip(a.items, b.items)]
        if any(i is None for i in items):
            return None
        return T(items)
    return None
