"""Rows + headers: the constructor form dictable(list of row tuples, column names) and the integer-list selection that goes through it.

Builds on th_tables / th_tables2.  New values:

  tupseq    a python sequence (a list, or the zip object zipper returns) of tuples of opaque cells, given by closures:
            cnt tuples, tuple p has tlen(p) entries, the i-th entry of tuple p is elem(p, i).  zipper(*xs) of equally long tuples is the
            transposed sequence (the contract of zipper, C19, plus the zip axiom).
  vtuple    one tuple of opaque cells of symbolic length: (len, arr)
  kcpairs   zipper(names, tuples): the pairs (p-th name, p-th tuple)

A sequence of column names is read through `keyseq`: d.keys() of a dict / table (positions <-> keys: the bijection NK / SK / SP of th_tables2 for
that key set) or a python list of names (`keylist`, with a choice function from names to a position holding them).

Every contract of a callee registers itself with ex.use(...): 'callee contract:' when its body is proved in some section (named in the text)."""
import ast
import z3
from z3 import (And, Or, Not, If, Implies, IntVal, BoolVal, IntSort, BoolSort, ArraySort, Array, Select, K,
                Function, Const, ForAll, Exists, Int, Ints, simplify)

from .front import OutOfSubset
from .sv import SV, I, B, T, NONE, fresh_name, fresh_int, zi
from .th_lists import Val, NONEV, VAL, INT, as_list_sv, V
from .th_tables import Key, KEY, fresh_table, no_columns
from .th_tables2 import NK, SK, SP, named, CLS
from . import theories as _th

_th.TYPE_KINDS['list'] = tuple(sorted(set(_th.TYPE_KINDS.get('list', ())) | {'tupseq'}))          # a tupseq that is a zip object has list_=False
_th.TYPE_KINDS['tuple'] = tuple(sorted(set(_th.TYPE_KINDS.get('tuple', ())) | {'vtuple', 'tvrow'}))


# ------------------------------------------------------------------------------------------------ values
def tupseq(cnt, tlen, elem, is_list=True):
    return SV('tupseq', zi(cnt), tlen=tlen, elem=elem, is_list=is_list)


def fresh_rows(name):
    """a python list of tuples of opaque cells: (number of rows, length of every row, cells)"""
    n = fresh_int(name + '_n')
    rl = Array(fresh_name(name + '_rowlen'), IntSort(), IntSort())
    cells = Array(fresh_name(name + '_cells'), IntSort(), ArraySort(IntSort(), Val))
    return tupseq(n, lambda p: Select(rl, p), lambda p, i: Select(Select(cells, p), i)), rl, cells


def rows_of_width(rows, w):
    """every row tuple has w entries"""
    p = Int('p!rw')
    return ForAll([p], Implies(And(0 <= p, p < rows.t), rows.tlen(p) == w))


class KeySeq:
    """a sequence of column names: m names, at(p) the p-th, has(k) membership, pos(k) a position holding k (for a member)"""

    def __init__(self, m, at, has, pos, dom=None):
        self.m, self.at, self.has, self.pos, self.dom = m, at, has, pos, dom


def keys_bijection(d):
    """d.keys() enumerates the key set d: NK(d) positions, SK(d, i) the key at position i, SP(d, k) the position of key k (instances for this d of
    th_tables2.sorted_keys_axioms - any enumeration without repetition satisfies them)"""
    k = Const('k!kb', Key)
    i = Int('i!kb')
    return [NK(d) >= 0,
            ForAll([k], Implies(Select(d, k), And(0 <= SP(d, k), SP(d, k) < NK(d), SK(d, SP(d, k)) == k))),
            ForAll([i], Implies(And(0 <= i, i < NK(d)), And(Select(d, SK(d, i)), SP(d, SK(d, i)) == i)))]


def keyseq(ex, v):
    if v.kind == 'tkeys':
        d = v.f['of'].dom
        ex.use('axiom:d.keys() lists every key of d exactly once (positions <-> keys), in the order in which d.values() lists the values')
        for f in keys_bijection(d):
            ex.fact(f)
        return KeySeq(NK(d), lambda p: SK(d, p), lambda k: Select(d, k), lambda k: SP(d, k), dom=d)
    if v.kind == 'keylist':
        arr, m = v.f['arr'], v.t
        if v.f.get('pos') is None:
            v.f['pos'] = Function(fresh_name('pos_of_name'), Key, IntSort())
        pos = v.f['pos']
        p = Int('p!ks')
        # choice function: a listed name has some position that holds it (a definitional extension; with distinct names it is the position)
        ex.fact(ForAll([p], Implies(And(0 <= p, p < m), And(0 <= pos(Select(arr, p)), pos(Select(arr, p)) < m, Select(arr, pos(Select(arr, p))) == Select(arr, p)))))
        return KeySeq(m, lambda q: Select(arr, q), lambda k: named(v, k), lambda k: pos(k))
    return None


def distinct_names(ks):
    p, q = Ints('p!dn q!dn')
    return ForAll([p, q], Implies(And(0 <= p, p < q, q < ks.m), ks.at(p) != ks.at(q)))


# ------------------------------------------------------------------------------------------------ the stated contract
ROWS_CLAUSES = ('has_exactly_the_given_columns', 'every_column_has_one_entry_per_row', 'column_p_lists_the_pth_entries_of_the_rows_in_order')


def rows_headers_contract(ks, rows, out):
    """dictable(list of n row tuples, m distinct column names), every row of length m: the table has exactly the named columns, each with one
    entry per row; the column of the p-th name lists row[i][p] for i = 0..n-1 (for n == 0: the named columns, all empty)"""
    k = Const('k!rh', Key)
    p, i = Ints('p!rh i!rh')
    n = rows.t
    return [And(ForAll([p], Implies(And(0 <= p, p < ks.m), Select(out.dom, ks.at(p)))), ForAll([k], Implies(Select(out.dom, k), ks.has(k)))),
            ForAll([k], Implies(Select(out.dom, k), Select(out.clen, k) == n)),
            ForAll([p, i], Implies(And(0 <= p, p < ks.m, 0 <= i, i < n), Select(Select(out.carr, ks.at(p)), i) == rows.elem(i, p)))]


class RowsHeaders:
    """what `_data_columns_as_dict(data, columns)` / `dictable.__init__` do with a list of row tuples and a sequence of column names, and what
    `__getitem__` does with a list of integers.  construct: 'contract' - `type(self)(data = rows, columns = names)` by the stated contract
    (proved in C01 constructor.rows.*) | None - not handled here (the constructor is executed from its source)."""

    def __init__(self, construct=None):
        self.construct = construct

    # ---- zipper(*rows), zipper(names, tuples): by the contract of zipper (C19) on these shapes
    def pre_call(self, ex, st, e):
        if isinstance(e.func, ast.Name) and e.func.id == 'zipper' and len(e.args) == 1 and isinstance(e.args[0], ast.Starred) and not e.keywords:
            probe = st.fork()
            try:
                v = ex.eval(probe, e.args[0].value)
            except OutOfSubset:
                return NotImplemented
            if v.kind != 'tupseq':
                return NotImplemented
            v = ex.eval(st, e.args[0].value)
            ex.use('callee contract:zipper(*tuples) for tuples of one common length w is zip(*tuples): w tuples (none for no tuple), the q-th holding the q-th '
                   'entry of every tuple in order (proved in C19 zipper.* with the zip axiom)')
            p = Int('p!zp')
            ex.oblige(st, 'call.zipper.pre.tuples_equally_long', ForAll([p], Implies(And(0 <= p, p < v.t), v.tlen(p) == v.tlen(IntVal(0)))), kind='pre')
            n = v.t
            return tupseq(If(n >= 1, v.tlen(IntVal(0)), 0), lambda q: n, lambda q, i: v.elem(i, q), is_list=False)
        return NotImplemented

    def call(self, ex, st, e, fname, args, kwargs):
        a0 = args[0] if args else None
        if fname == 'zipper' and len(args) == 2 and a0.kind in ('tkeys', 'keylist') and args[1].kind == 'tupseq':
            ks = keyseq(ex, a0)
            ex.use('callee contract:zipper(names, tuples) with as many names as tuples pairs the p-th name with the p-th tuple (proved in C19 zipper.* '
                   'with the zip axiom)')
            ex.oblige(st, 'call.zipper.pre.as_many_names_as_tuples', ks.m == args[1].t, kind='pre')
            return SV('kcpairs', None, keys=ks, tuples=args[1])
        if fname == 'dict' and len(args) == 1 and a0.kind == 'kcpairs':
            return self.dict_of_pairs(ex, st, a0.f['keys'], a0.f['tuples'])
        if fname == 'len' and len(args) == 1 and a0.kind in ('tupseq', 'vtuple') and (a0.kind == 'vtuple' or a0.f['is_list']):
            return I(a0.t)
        if fname == 'len' and len(args) == 1 and a0.kind == 'keylist':
            return I(a0.t)
        if fname == 'list' and len(args) == 1 and a0.kind == 'vtuple':
            ex.use('axiom:list(tuple) has the elements of the tuple in order')
            return SV('list', a0.t, ety=VAL, arrs=[a0.f['arr']])
        if fname == 'list' and len(args) == 1 and a0.kind == 'lazylist':
            ex.use('axiom:list(iterable) lists the elements the iterable yields, in order')
            return a0
        if fname == 'list' and len(args) == 1 and a0.kind == 'tupseq':
            return tupseq(a0.t, a0.tlen, a0.elem, is_list=True)
        if fname == 'is_strs' and len(args) == 1 and a0.kind == 'keylist':
            ex.use('path precondition:column names are strings')
            return B(a0.t > 0)
        if fname in ('is_bools', 'is_ints') and len(args) == 1 and a0.kind == 'keylist':
            return B(False)
        if fname in ('is_str', 'is_df', 'is_tree', 'is_tuple', 'is_dicts') and len(args) == 1 and a0.kind in ('tupseq', 'keylist', 'kcpairs'):
            return B(False)
        if fname == 'hasattr' and len(args) == 2 and a0.kind == 'tupseq' and args[1].kind == 'str' and args[1].lit in ('next', 'find'):
            return B(False)
        if fname == 'type' and len(args) == 1 and a0.kind == 'table':
            return CLS(a0.f.get('cls') or 'dictable')
        return NotImplemented

    def dict_of_pairs(self, ex, st, ks, ts):
        """dict(pairs (p-th name, p-th tuple)): with distinct names, every name maps to its tuple"""
        ex.use('axiom:dict(pairs) with distinct keys maps the key of every pair to the value of that pair')
        ex.oblige(st, 'call.dict.pre.names_distinct', distinct_names(ks), kind='pre')
        k = Const('k!dp', Key)
        i = Int('i!dp')
        if ks.dom is not None:
            dom = ks.dom
        else:
            dom = Array(fresh_name('paired'), Key, BoolSort())
            ex.fact(ForAll([k], Select(dom, k) == And(0 <= ks.pos(k), ks.pos(k) < ks.m, ks.at(ks.pos(k)) == k)))
        # named arrays with defining facts instead of lambdas: the grounded queries stay first order
        clen = Array(fresh_name('paired_len'), Key, IntSort())
        carr = Array(fresh_name('paired_col'), Key, ArraySort(IntSort(), Val))
        ex.fact(ForAll([k], Select(clen, k) == ts.tlen(ks.pos(k))))
        ex.fact(ForAll([k, i], Select(Select(carr, k), i) == ts.elem(ks.pos(k), i)))
        return SV('colmap', None, dom=dom, clen=clen, carr=carr, cells='tuples')

    def compare(self, ex, st, e, op, a, b):
        if op in ('Eq', 'NotEq') and a.kind == 'tupseq' and a.f['is_list'] and b.kind == 'list' and b.f.get('ety') is None:
            return (a.t == 0) if op == 'Eq' else (a.t != 0)
        return NotImplemented

    def subscript(self, ex, st, e, recv, idx):
        # values[i] for a python list given by (n, at): Python list indexing - negative indices count from the end, IndexError outside -n .. n-1
        if recv.kind == 'lazylist' and recv.f.get('at') is not None and idx.kind == 'int':
            n, i = recv.n, idx.t
            ex.use('axiom:xs[i] for a list is the element at i (at len(xs) + i for a negative i); IndexError unless -len(xs) <= i < len(xs)')
            ex.raise_if(st, Not(And(-n <= i, i < n)), 'IndexError')
            return recv.at(st, If(i < 0, i + n, i))
        if recv.kind == 'lazylist' and recv.f.get('at') is not None and idx.kind == 'slice' and idx.step is None and idx.hi is None and idx.lo is not None and idx.lo.kind == 'int':
            lo = simplify(idx.lo.t)
            if not (z3.is_int_value(lo) and lo.as_long() >= 0):
                return NotImplemented
            ex.use('axiom:xs[a:] for 0 <= a is the suffix of xs from position a (empty when a >= len(xs))')
            at0 = recv.at
            r = SV('lazylist', None, n=If(recv.n >= lo, recv.n - lo, 0), at=lambda st2, jj: at0(st2, jj + lo))
            if recv.f.get('is_list'):
                r.f['is_list'] = True
            return r
        # rows[a:] : the suffix
        if recv.kind == 'tupseq' and recv.f['is_list'] and idx.kind == 'slice' and idx.step is None and idx.hi is None and idx.lo is not None and idx.lo.kind == 'int':
            lo = simplify(idx.lo.t)
            if not (z3.is_int_value(lo) and lo.as_long() >= 0):
                return NotImplemented
            ex.use('axiom:xs[a:] for 0 <= a is the suffix of xs from position a (empty when a >= len(xs))')
            return tupseq(If(recv.t >= lo, recv.t - lo, 0), lambda p: recv.tlen(p + lo), lambda p, i: recv.elem(p + lo, i))
        return NotImplemented

    def truth(self, ex, st, v):
        if v.kind == 'tupseq' and v.f['is_list']:
            return v.t > 0
        return NotImplemented

    def is_none(self, ex, st, v):
        if v.kind in ('tupseq', 'vtuple', 'kcpairs', 'keylist', 'lazylist', 'tvrow'):
            return BoolVal(False)
        return NotImplemented

    # ---- type(self)(data = rows, columns = self.keys()) by the stated contract
    def call_value(self, ex, st, e, fn, args, kwargs):
        if fn.kind != 'cls' or self.construct != 'contract':
            return NotImplemented
        a = dict(zip(['data', 'columns'], args))
        for k_, v in kwargs.items():
            if k_ in ('data', 'columns') and k_ not in a:
                a[k_] = v
            else:
                return NotImplemented
        data, columns = a.get('data', NONE), a.get('columns', NONE)
        if columns.kind not in ('tkeys', 'keylist'):
            return NotImplemented
        rows = rows_view(ex, st, data)
        if rows is None:
            return NotImplemented
        ks = keyseq(ex, columns)
        ex.use('callee contract:dictable(list of row tuples, column names) with as many distinct names as every row has entries has exactly the named columns, '
               'the column of the p-th name listing the p-th entries of the rows in order; no row: the named columns, all empty (proved in C01 constructor.rows.*)')
        ex.oblige(st, 'call.constructor.pre.every_row_has_one_entry_per_name', rows_of_width(rows, ks.m), kind='pre')
        ex.oblige(st, 'call.constructor.pre.names_distinct', distinct_names(ks), kind='pre')
        out = fresh_table('made')
        out.f['cls'] = fn.f['name']
        for f in rows_headers_contract(ks, rows, out):
            ex.fact(f)
        return out


def rows_view(ex, st, data):
    """a list of row tuples as a tupseq: given as one, or as a list (n, at) of rows of zip(*d.values())"""
    if data.kind == 'tupseq' and data.f['is_list']:
        return data
    if data.kind == 'lazylist' and data.f.get('at') is not None:
        el = data.at(st.fork(), Int(fresh_name('i!probe')))
        if el.kind != 'tvrow':
            return None
        t = el.f['of']
        d = t.dom
        ex.use('axiom:the j-th tuple of zip(*d.values()) holds the j-th entry of every column, in the order of d.keys()')
        for f in keys_bijection(d):
            ex.fact(f)

        def elem(p, i):
            row = data.at(st.fork(), p)
            return Select(Select(t.carr, SK(d, i)), row.f['index'])
        return tupseq(data.n, lambda p: NK(d), elem)
    return None


# ================================================================================================ one record with list / scalar cells
from .th_tables2 import VLEN, VARR, rowmap      # noqa: E402

ISL = Function('is_list_value', Val, BoolSort())          # the opaque cell value is a python list (its length / items: VLEN / VARR of th_tables2)


def cell_len(v):
    """how many entries the cell contributes as a column: a list its length, None / a scalar one"""
    return If(And(ISL(v), v != NONEV), VLEN(v), 1)


def cell_item(v, i):
    """entry i of the cell read as a column"""
    return If(And(ISL(v), v != NONEV), Select(VARR(v), i), v)


def cell_axioms():
    v = Const('v!cl', Val)
    # only for list values: VLEN is also the length component of th_tables2.MKCOL(n, a), which is defined for every integer n
    return [ForAll([v], Implies(ISL(v), VLEN(v) >= 0), patterns=[ISL(v)]), Not(ISL(NONEV))]


RECORD_CLAUSES = ('columns_are_the_keys_of_the_record', 'list_cells_keep_their_length', 'all_columns_have_one_length', 'only_cells_of_length_1_give_one_row',
                  'a_cell_of_the_common_length_is_stored_as_it_is_any_other_is_repeated')


def record_clash(rec):
    """two cells whose lengths differ and are both other than 1"""
    k1, k2 = Const('k1!rc', Key), Const('k2!rc', Key)
    l1, l2 = cell_len(Select(rec.vals, k1)), cell_len(Select(rec.vals, k2))
    return Exists([k1, k2], And(Select(rec.dom, k1), Select(rec.dom, k2), l1 != 1, l2 != 1, l1 != l2))


def record_contract(rec, out):
    """dictable(one record whose cells are None, lists or scalars) when no two list cells have different lengths other than 1: the keys of the record
    as columns, all of one length - the length of a cell that is not of length 1 when there is one, else 1 -, a cell of that length stored as it is,
    a cell of length 1 (a scalar, None, a one-element list) repeated"""
    k, k2 = Const('k!rd', Key), Const('k2!rd', Key)
    i = Int('i!rd')
    v = lambda kk: Select(rec.vals, kk)
    return [ForAll([k], Select(out.dom, k) == Select(rec.dom, k)),
            ForAll([k], Implies(And(Select(rec.dom, k), cell_len(v(k)) != 1), Select(out.clen, k) == cell_len(v(k)))),
            ForAll([k, k2], Implies(And(Select(rec.dom, k), Select(rec.dom, k2)), And(Select(out.clen, k) == Select(out.clen, k2), Select(out.clen, k) >= 0))),
            ForAll([k], Implies(And(Select(rec.dom, k), ForAll([k2], Implies(Select(rec.dom, k2), cell_len(v(k2)) == 1))), Select(out.clen, k) == 1)),
            ForAll([k, i], Implies(And(Select(rec.dom, k), 0 <= i, i < Select(out.clen, k)),
                                   Select(Select(out.carr, k), i) == If(cell_len(v(k)) == Select(out.clen, k), cell_item(v(k), i), cell_item(v(k), IntVal(0)))))]


class RecordCells:
    """opaque cells of a record on their way through `_value`: None, python lists or scalars.  Path precondition: no cell is a tuple, a range, a dict
    view or a zip object (those are converted by `_value` / as_list as well; not modelled)."""

    def pre_call(self, ex, st, e):
        if isinstance(e.func, ast.Name) and e.func.id == 'isinstance' and len(e.args) == 2:
            probe = st.fork()
            try:
                v = ex.eval(probe, e.args[0])
            except OutOfSubset:
                return NotImplemented
            if v.kind != 'val' or probe.pending:
                return NotImplemented
            tn = e.args[1]
            names = [ast.unparse(x) for x in tn.elts] if isinstance(tn, ast.Tuple) else [ast.unparse(tn)]
            ex.use('path precondition:cells are None, python lists or scalars (no tuple, range, dict view, zip, dict or path cells)')
            for f in cell_axioms():
                ex.fact(f)
            if any(n_ not in ('list', 'tuple', 'dict_values', 'dict_keys', 'range', 'zip', 'dict', 'Path', 'str') for n_ in names):
                return NotImplemented
            return B(ISL(v.t)) if 'list' in names else B(False)
        return NotImplemented

    def call(self, ex, st, e, fname, args, kwargs):
        a0 = args[0] if args else None
        if fname == 'as_list' and len(args) == 1 and a0.kind == 'val':
            ex.use('callee contract:as_list(x) is x for a list, [] for None and [x] for a scalar (proved in C19 as_list.summary.*)')
            for f in cell_axioms():
                ex.fact(f)
            v = a0.t
            return SV('list', If(v == NONEV, 0, If(ISL(v), VLEN(v), 1)), ety=VAL, arrs=[If(ISL(v), VARR(v), K(IntSort(), v))])
        if fname == 'dict' and len(args) == 1 and a0.kind == 'rowmap':
            ex.use('axiom:dict(mapping) is a new dict with the same items')
            return rowmap(a0.dom, a0.vals)
        if fname in ('is_str', 'is_df', 'is_tree', 'is_tuple') and len(args) == 1 and a0.kind == 'rowmap':
            return B(False)
        return NotImplemented

    def merge(self, ex, st, cond, a, b):
        # one branch returns the empty list literal (no element type yet), the other a list of cells
        if a.kind == 'list' and b.kind == 'list' and (a.f.get('ety') is None) != (b.f.get('ety') is None):
            ety = a.f.get('ety') or b.f.get('ety')
            a2, b2 = as_list_sv(a, ety), as_list_sv(b, ety)
            return SV('list', If(cond, a2.t, b2.t), ety=ety, arrs=[If(cond, x, y) for x, y in zip(a2.arrs, b2.arrs)])
        return NotImplemented


def row_table_contract(dom, val_of, clen, carr, N):
    """the table dictable(record) with its row count N made explicit (the clauses of `record_contract`, for a record with at least one key): every
    column has N entries; N is the length of a cell not of length 1 when there is one, else 1; a cell of length N is stored as it is, any other repeated"""
    k = Const('k!rt', Key)
    i = Int('i!rt')
    v = val_of(k)
    return [ForAll([k], Implies(Select(dom, k), Select(clen, k) == N)),
            N >= 0,
            ForAll([k], Implies(And(Select(dom, k), cell_len(v) != 1), N == cell_len(v))),
            Implies(ForAll([k], Implies(Select(dom, k), cell_len(v) == 1)), N == 1),
            ForAll([k, i], Implies(And(Select(dom, k), 0 <= i, i < N), Select(Select(carr, k), i) == If(cell_len(v) == N, cell_item(v, i), cell_item(v, IntVal(0)))))]


# ================================================================================================ concat of a symbolic number of tables (unlist, ungroup)
from .th_tables2 import MKCOL, list_value_axioms, records_contract, fresh_colmap, KB, KV, IA      # noqa: E402

VA = ArraySort(IntSort(), Val)
OFFN = Function('rows_before', IA, IntSort(), IntSort())             # OFFN(nr, r) = nr[0] + ... + nr[r-1]
OFFS = Function('items_before', VA, IntSort(), IntSort())            # for a list of list values: the total length of the first r of them
FLAT = Function('flattened', VA, IntSort(), VA)                      # the items of sum(lists[:n], [])


def _len0(v):
    """len of a list value; VLEN is also defined (and may be negative) on th_tables2.MKCOL(n, a) for n < 0, which is no python list: counted as empty, so that
    the blocks of the flattened list never overlap and the axioms below have a model"""
    return If(VLEN(v) >= 0, VLEN(v), 0)


def offsets_def():
    """recursive definitions of the two prefix sums, and what the flattened list holds"""
    a = Const('a!of', VA)
    nr = Const('nr!of', IA)
    r, i, n = Ints('r!of i!of n!of')
    return [ForAll([nr], OFFN(nr, 0) == 0, patterns=[OFFN(nr, 0)]),
            ForAll([nr, r], Implies(r >= 0, OFFN(nr, r + 1) == OFFN(nr, r) + Select(nr, r)), patterns=[OFFN(nr, r + 1)]),
            ForAll([a], OFFS(a, 0) == 0, patterns=[OFFS(a, 0)]),
            ForAll([a, r], Implies(r >= 0, OFFS(a, r + 1) == OFFS(a, r) + _len0(Select(a, r))), patterns=[OFFS(a, r + 1)]),
            ForAll([a, n, r, i], Implies(And(0 <= r, r < n, 0 <= i, i < VLEN(Select(a, r))), Select(FLAT(a, n), OFFS(a, r) + i) == Select(VARR(Select(a, r)), i)),
                   patterns=[z3.MultiPattern(FLAT(a, n), Select(VARR(Select(a, r)), i))])]


def flatten_instance(a, n, r, i):
    """the last axiom of offsets_def at given terms (the solver does not find this instance by matching: the position is a sum)"""
    return Implies(And(0 <= r, r < n, 0 <= i, i < VLEN(Select(a, r))), Select(FLAT(a, n), OFFS(a, r) + i) == Select(VARR(Select(a, r)), i))


def offsets_lemma(ctx, prefix):
    """if the r-th list has nr[r] >= 0 items for every r < n, then items_before(lists, r) == rows_before(nr, r) >= 0 for every r <= n: by induction on r
    (base and step are obligations; the schema is trusted)"""
    a = Const('A!ol', VA)
    nr = Const('NR!ol', IA)
    r = Int('r!ol')
    defs = [OFFN(nr, 0) == 0, OFFS(a, 0) == 0, OFFN(nr, r + 1) == OFFN(nr, r) + Select(nr, r), OFFS(a, r + 1) == OFFS(a, r) + _len0(Select(a, r))]
    P = lambda x: And(OFFS(a, x) == OFFN(nr, x), OFFN(nr, x) >= 0)
    ctx.post(prefix + '.offsets.base', defs, P(IntVal(0)), kind='lemma')
    ctx.post(prefix + '.offsets.step', defs + [r >= 0, VLEN(Select(a, r)) == Select(nr, r), Select(nr, r) >= 0, P(r)], P(r + 1), kind='lemma')
    ctx.trust('induction schema over the number of concatenated tables (prefix sums of their row counts; base and step are obligations)')


class ManyTables:
    """`cls.concat(list of records)` for a list whose length is symbolic - what unlist (and ungroup) end with: iteration over a table with the row index kept,
    `cls(record)` by the contract of the constructor from one record (C01 constructor.record.*), dict_concat of the resulting tables by its contract (C01
    dict_concat.*; a table read as a record of columns), sum(lists, []) as concatenation with prefix-sum offsets, the final constructor by contract."""

    def __init__(self, rows):
        self.rows = rows
        self._busy = False
        self._rowvals = {}
        self.per_row = None          # named arrays of the per-row tables once cls(record) has been met

    # ---- a list comprehension is a list
    def listcomp(self, ex, st, e):
        if self._busy:
            return NotImplemented
        self._busy = True
        try:
            r = ex.e_ListComp(st, e)
        finally:
            self._busy = False
        if r.kind == 'lazylist':
            r.f['is_list'] = True
        return r

    def pre_call(self, ex, st, e):
        if isinstance(e.func, ast.Name) and e.func.id == 'isinstance' and len(e.args) == 2 and ast.unparse(e.args[1]) == 'list':
            probe = st.fork()
            try:
                v = ex.eval(probe, e.args[0])
            except OutOfSubset:
                return NotImplemented
            if v.kind == 'lazylist' and v.f.get('is_list') and not probe.pending:
                return B(True)
        return NotImplemented

    # ---- rows of a rectangular table, each with its index (named arrays instead of lambdas)
    def iterate(self, ex, st, it):
        if it.kind != 'table':
            return NotImplemented
        R = self.rows.rows_n(it)
        ex.use('callee contract:iterating a rectangular table yields its rows in order, each a Dict column -> cell (dictable.__iter__, proved in C01 __iter__.*)')
        key = it.dom.get_id()
        if key not in self._rowvals:
            rv = Array(fresh_name('rowvals'), IntSort(), KV)
            j = Int('j!rv')
            c = Const('c!rv', Key)
            ex.fact(ForAll([j, c], Select(Select(rv, j), c) == Select(Select(it.carr, c), j)))
            self._rowvals[key] = rv
        rv = self._rowvals[key]
        return R, (lambda st2, j: rowmap(it.dom, Select(rv, j), index=j, of=it, count=R))

    def call(self, ex, st, e, fname, args, kwargs):
        a0 = args[0] if args else None
        if fname in st.env and st.env[fname].kind == 'cls' and len(args) == 1 and not kwargs and a0.kind == 'rowmap' and a0.f.get('index') is not None:
            return self.table_of_row(ex, st, st.env[fname], a0)
        if fname == 'dict_concat' and len(args) == 1 and a0.kind == 'lazylist' and a0.f.get('at') is not None:
            return self.concat_tables(ex, st, a0)
        if fname == 'sum' and len(args) == 2 and a0.kind == 'list' and a0.f.get('ety') == VAL and args[1].kind == 'list' and args[1].f.get('ety') is None:
            ex.use('axiom:sum(list of lists, []) is their concatenation: as long as all of them together, the items of the r-th list starting where the lists before it end')
            for f in offsets_def():
                ex.fact(f)
            a = a0.arrs[0]
            return SV('list', OFFS(a, a0.t), ety=VAL, arrs=[FLAT(a, a0.t)])
        return NotImplemented

    def table_of_row(self, ex, st, cls, row):
        """cls(row j of the table) - a function of j: named arrays for the columns and row counts of the per-row tables, the contract stated for every row at once"""
        t, j, R = row.f['of'], row.f['index'], row.f['count']
        if self.per_row is None:
            pcl = Array(fresh_name('rowtable_len'), IntSort(), ArraySort(Key, IntSort()))
            pca = Array(fresh_name('rowtable_col'), IntSort(), ArraySort(Key, VA))
            nr = Array(fresh_name('rowtable_rows'), IntSort(), IntSort())
            jj = Int('j!pr')
            k1, k2 = Const('k1!pr', Key), Const('k2!pr', Key)
            cell = lambda x, kk: Select(Select(t.carr, kk), x)
            clash = lambda x: Exists([k1, k2], And(Select(t.dom, k1), Select(t.dom, k2), cell_len(cell(x, k1)) != 1, cell_len(cell(x, k2)) != 1,
                                                   cell_len(cell(x, k1)) != cell_len(cell(x, k2))))
            ex.use('callee contract:dictable(one record) raises ValueError iff two list cells have different lengths other than 1; otherwise the keys as columns, all '
                   'of one length (that of a cell not of length 1, else 1), a cell of that length as it is, a scalar / None / one-element list repeated '
                   '(proved in C01 constructor.record.*)')
            ex.use('path precondition:cells are None, python lists or scalars (no tuple, range, dict view, zip, dict or path cells)')
            for f in cell_axioms():
                ex.fact(f)
            at = lambda x: Implies(And(0 <= x, x < R, Not(clash(x))), And(*row_table_contract(t.dom, lambda kk: cell(x, kk), Select(pcl, x), Select(pca, x), Select(nr, x))))
            fact = ForAll([jj], at(jj))
            ex.fact(fact)
            self.per_row = dict(R=R, t=t, pcl=pcl, pca=pca, nr=nr, clash=clash, fact=fact, at=at)
        p = self.per_row
        ex.raise_if(st, p['clash'](j), 'ValueError')
        return SV('table', None, dom=t.dom, clen=Select(p['pcl'], j), carr=Select(p['pca'], j), cls=cls.f['name'])

    def concat_tables(self, ex, st, tables):
        """dict_concat(list of tables): by its contract, the tables read as records whose cells are their columns"""
        jv = Int(fresh_name('j!ct'))
        tb = tables.at(st.fork(), jv)
        if tb.kind != 'table':
            return NotImplemented
        ex.use('callee contract:dict_concat(records) maps every key of some record to the list of record.get(key), in order (proved in C01 dict_concat.*); '
               'a table is a record whose cells are its columns and whose get(k) for an absent k is [None] * len (dictable.get, proved in C01 get.*)')
        for f in list_value_axioms():
            ex.fact(f)
        k = Const('k!ct', Key)
        dm = Array(fresh_name('tdoms'), IntSort(), KB)
        tv = Array(fresh_name('tvals'), IntSort(), KV)
        ab = Array(fresh_name('tabsent'), IntSort(), Val)          # [None] * len(table j): not needed when all tables have the same columns (left open)
        ex.fact(ForAll([jv], Select(dm, jv) == tb.dom))
        ex.fact(ForAll([jv, k], Select(Select(tv, jv), k) == MKCOL(Select(tb.clen, k), Select(tb.carr, k))))
        rl = SV('rowlist', tables.n, doms=dm, vals=tv, absent=ab)
        out = fresh_colmap('concat')
        for f in records_contract(rl, out):
            ex.fact(f)
        out.f['cells'] = 'lists'
        self.concatenated = out
        # prefix sums: every column of the result lists, for table r, a column of its row count
        p = self.per_row
        if p is not None:
            r = Int('r!ct')
            for f in offsets_def():
                ex.fact(f)
            # stepping stones (asserted, then assumed), each with the few hypotheses it needs: the columns of the concatenation, what its cells are, how long
            from .symex import Obligation
            t = p['t']
            contract = [f for f in records_contract(rl, out)] + [ForAll([jv], Select(dm, jv) == tb.dom), ForAll([jv, k], Select(Select(tv, jv), k) == MKCOL(Select(tb.clen, k), Select(tb.carr, k)))]

            def stone(name, hyps, goal):
                ex.obligations.append(Obligation('%s.%s' % (ex.name, name) if ex.name else name, list(hyps) + st.hyps(), goal, 'lemma'))
                st.assume(goal)
            stone('concat.lemma.the_concatenation_has_the_columns_of_the_table', contract,
                  Implies(tables.n >= 1, ForAll([k], Select(out.dom, k) == Select(t.dom, k))))
            stone('concat.lemma.every_column_of_the_concatenation_has_one_cell_per_table', contract,
                  Implies(tables.n >= 1, ForAll([k], Implies(Select(out.dom, k), Select(out.clen, k) == tables.n))))
            stone('concat.lemma.cell_r_of_a_column_of_the_concatenation_is_that_column_of_table_r', contract,
                  ForAll([k, r], Implies(And(Select(out.dom, k), 0 <= r, r < tables.n, tables.n >= 1),
                                         Select(Select(out.carr, k), r) == MKCOL(Select(Select(p['pcl'], r), k), Select(Select(p['pca'], r), k)))))
            stone('concat.lemma.column_r_of_the_concatenation_has_the_row_count_of_table_r', list_value_axioms() + [p['fact']],
                  ForAll([k, r], Implies(And(Select(out.dom, k), 0 <= r, r < tables.n),
                                         And(VLEN(Select(Select(out.carr, k), r)) == Select(p['nr'], r), Select(p['nr'], r) >= 0))))
            self.offsets_at = lambda kk, rr: Implies(And(Select(out.dom, kk), 0 <= rr, rr <= tables.n),
                                                     And(OFFS(Select(out.carr, kk), rr) == OFFN(p['nr'], rr), OFFN(p['nr'], rr) >= 0))
            st.assume(ForAll([k, r], self.offsets_at(k, r)))
            ex.use('lemma:items_before(column, r) == rows_before(row counts, r) >= 0 (offsets lemma, proved by induction: *.offsets.base / *.offsets.step)')
        return out
