"""Rows + headers: the constructor form dictable(list of row tuples, column names) and the integer-list selection that goes through it.

Builds on th_tables / th_tables2.  New values:

  tupseq    a python sequence (a list, or the zip object zipper returns) of tuples of opaque cells, given by closures:
            cnt tuples, tuple p has tlen(p) entries, the i-th entry of tuple p is elem(p, i).  zipper(*xs) of equally long tuples is the
            transposed sequence (the contract of zipper, C19, plus the zip axiom).
  vtuple    one tuple of opaque cells of symbolic length: (len, arr)
  kcpairs   zipper(names, tuples): the pairs (p-th name, p-th tuple)

A sequence of column names is read through `keyseq`: d.keys() of a dict / table (positions <-> keys: the bijection NK / SK / SP of th_tables2 for
that key set) or a python list of names (`keylist`, with a choice function from names to a position holding them).

Every contract of a callee registers itself with ex.use(...): 'callee contract:' when its body is proved in some section (named in the text)."""
import ast
import z3
from z3 import (And, Or, Not, If, Implies, IntVal, BoolVal, IntSort, BoolSort, ArraySort, Array, Select, K,
                Function, Const, ForAll, Exists, Int, Ints, simplify)

from .front import OutOfSubset
from .sv import SV, I, B, T, NONE, fresh_name, fresh_int, zi
from .th_lists import Val, NONEV, VAL, INT, as_list_sv, V
from .th_tables import Key, KEY, fresh_table, no_columns
from .th_tables2 import NK, SK, SP, named, CLS
from . import theories as _th

_th.TYPE_KINDS['list'] = tuple(sorted(set(_th.TYPE_KINDS.get('list', ())) | {'tupseq'}))          # a tupseq that is a zip object has list_=False
_th.TYPE_KINDS['tuple'] = tuple(sorted(set(_th.TYPE_KINDS.get('tuple', ())) | {'vtuple', 'tvrow'}))


# ------------------------------------------------------------------------------------------------ values
def tupseq(cnt, tlen, elem, is_list=True):
    return SV('tupseq', zi(cnt), tlen=tlen, elem=elem, is_list=is_list)


def fresh_rows(name):
    """a python list of tuples of opaque cells: (number of rows, length of every row, cells)"""
    n = fresh_int(name + '_n')
    rl = Array(fresh_name(name + '_rowlen'), IntSort(), IntSort())
    cells = Array(fresh_name(name + '_cells'), IntSort(), ArraySort(IntSort(), Val))
    return tupseq(n, lambda p: Select(rl, p), lambda p, i: Select(Select(cells, p), i)), rl, cells


def rows_of_width(rows, w):
    """every row tuple has w entries"""
    p = Int('p!rw')
    return ForAll([p], Implies(And(0 <= p, p < rows.t), rows.tlen(p) == w))


class KeySeq:
    """a sequence of column names: m names, at(p) the p-th, has(k) membership, pos(k) a position holding k (for a member)"""

    def __init__(self, m, at, has, pos, dom=None):
        self.m, self.at, self.has, self.pos, self.dom = m, at, has, pos, dom


def keys_bijection(d):
    """d.keys() enumerates the key set d: NK(d) positions, SK(d, i) the key at position i, SP(d, k) the position of key k (instances for this d of
    th_tables2.sorted_keys_axioms - any enumeration without repetition satisfies them)"""
    k = Const('k!kb', Key)
    i = Int('i!kb')
    return [NK(d) >= 0,
            ForAll([k], Implies(Select(d, k), And(0 <= SP(d, k), SP(d, k) < NK(d), SK(d, SP(d, k)) == k))),
            ForAll([i], Implies(And(0 <= i, i < NK(d)), And(Select(d, SK(d, i)), SP(d, SK(d, i)) == i)))]


def keyseq(ex, v):
    if v.kind == 'tkeys':
        d = v.f['of'].dom
        ex.use('axiom:d.keys() lists every key of d exactly once (positions <-> keys), in the order in which d.values() lists the values')
        for f in keys_bijection(d):
            ex.fact(f)
        return KeySeq(NK(d), lambda p: SK(d, p), lambda k: Select(d, k), lambda k: SP(d, k), dom=d)
    if v.kind == 'keylist':
        arr, m = v.f['arr'], v.t
        if v.f.get('pos') is None:
            v.f['pos'] = Function(fresh_name('pos_of_name'), Key, IntSort())
        pos = v.f['pos']
        p = Int('p!ks')
        # choice function: a listed name has some position that holds it (a definitional extension; with distinct names it is the position)
        ex.fact(ForAll([p], Implies(And(0 <= p, p < m), And(0 <= pos(Select(arr, p)), pos(Select(arr, p)) < m, Select(arr, pos(Select(arr, p))) == Select(arr, p)))))
        return KeySeq(m, lambda q: Select(arr, q), lambda k: named(v, k), lambda k: pos(k))
    return None


def distinct_names(ks):
    p, q = Ints('p!dn q!dn')
    return ForAll([p, q], Implies(And(0 <= p, p < q, q < ks.m), ks.at(p) != ks.at(q)))


# ------------------------------------------------------------------------------------------------ the stated contract
ROWS_CLAUSES = ('has_exactly_the_given_columns', 'every_column_has_one_entry_per_row', 'column_p_lists_the_pth_entries_of_the_rows_in_order')


def rows_headers_contract(ks, rows, out):
    """dictable(list of n row tuples, m distinct column names), every row of length m: the table has exactly the named columns, each with one
    entry per row; the column of the p-th name lists row[i][p] for i = 0..n-1 (for n == 0: the named columns, all empty)"""
    k = Const('k!rh', Key)
    p, i = Ints('p!rh i!rh')
    n = rows.t
    return [And(ForAll([p], Implies(And(0 <= p, p < ks.m), Select(out.dom, ks.at(p)))), ForAll([k], Implies(Select(out.dom, k), ks.has(k)))),
            ForAll([k], Implies(Select(out.dom, k), Select(out.clen, k) == n)),
            ForAll([p, i], Implies(And(0 <= p, p < ks.m, 0 <= i, i < n), Select(Select(out.carr, ks.at(p)), i) == rows.elem(i, p)))]


class RowsHeaders:
    """what `_data_columns_as_dict(data, columns)` / `dictable.__init__` do with a list of row tuples and a sequence of column names, and what
    `__getitem__` does with a list of integers.  construct: 'contract' - `type(self)(data = rows, columns = names)` by the stated contract
    (proved in C01 constructor.rows.*) | None - not handled here (the constructor is executed from its source)."""

    def __init__(self, construct=None):
        self.construct = construct

    # ---- zipper(*rows), zipper(names, tuples): by the contract of zipper (C19) on these shapes
    def pre_call(self, ex, st, e):
        if isinstance(e.func, ast.Name) and e.func.id == 'zipper' and len(e.args) == 1 and isinstance(e.args[0], ast.Starred) and not e.keywords:
            probe = st.fork()
            try:
                v = ex.eval(probe, e.args[0].value)
            except OutOfSubset:
                return NotImplemented
            if v.kind != 'tupseq':
                return NotImplemented
            v = ex.eval(st, e.args[0].value)
            ex.use('callee contract:zipper(*tuples) for tuples of one common length w is zip(*tuples): w tuples (none for no tuple), the q-th holding the q-th '
                   'entry of every tuple in order (proved in C19 zipper.* with the zip axiom)')
            p = Int('p!zp')
            ex.oblige(st, 'call.zipper.pre.tuples_equally_long', ForAll([p], Implies(And(0 <= p, p < v.t), v.tlen(p) == v.tlen(IntVal(0)))), kind='pre')
            n = v.t
            return tupseq(If(n >= 1, v.tlen(IntVal(0)), 0), lambda q: n, lambda q, i: v.elem(i, q), is_list=False)
        return NotImplemented

    def call(self, ex, st, e, fname, args, kwargs):
        a0 = args[0] if args else None
        if fname == 'zipper' and len(args) == 2 and a0.kind in ('tkeys', 'keylist') and args[1].kind == 'tupseq':
            ks = keyseq(ex, a0)
            ex.use('callee contract:zipper(names, tuples) with as many names as tuples pairs the p-th name with the p-th tuple (proved in C19 zipper.* '
                   'with the zip axiom)')
            ex.oblige(st, 'call.zipper.pre.as_many_names_as_tuples', ks.m == args[1].t, kind='pre')
            return SV('kcpairs', None, keys=ks, tuples=args[1])
        if fname == 'dict' and len(args) == 1 and a0.kind == 'kcpairs':
            return self.dict_of_pairs(ex, st, a0.f['keys'], a0.f['tuples'])
        if fname == 'len' and len(args) == 1 and a0.kind in ('tupseq', 'vtuple') and (a0.kind == 'vtuple' or a0.f['is_list']):
            return I(a0.t)
        if fname == 'len' and len(args) == 1 and a0.kind == 'keylist':
            return I(a0.t)
        if fname == 'list' and len(args) == 1 and a0.kind == 'vtuple':
            ex.use('axiom:list(tuple) has the elements of the tuple in order')
            return SV('list', a0.t, ety=VAL, arrs=[a0.f['arr']])
        if fname == 'list' and len(args) == 1 and a0.kind == 'lazylist':
            ex.use('axiom:list(iterable) lists the elements the iterable yields, in order')
            return a0
        if fname == 'list' and len(args) == 1 and a0.kind == 'tupseq':
            return tupseq(a0.t, a0.tlen, a0.elem, is_list=True)
        if fname == 'is_strs' and len(args) == 1 and a0.kind == 'keylist':
            ex.use('path precondition:column names are strings')
            return B(a0.t > 0)
        if fname in ('is_bools', 'is_ints') and len(args) == 1 and a0.kind == 'keylist':
            return B(False)
        if fname in ('is_str', 'is_df', 'is_tree', 'is_tuple', 'is_dicts') and len(args) == 1 and a0.kind in ('tupseq', 'keylist', 'kcpairs'):
            return B(False)
        if fname == 'hasattr' and len(args) == 2 and a0.kind == 'tupseq' and args[1].kind == 'str' and args[1].lit in ('next', 'find'):
            return B(False)
        if fname == 'type' and len(args) == 1 and a0.kind == 'table':
            return CLS(a0.f.get('cls') or 'dictable')
        return NotImplemented

    def dict_of_pairs(self, ex, st, ks, ts):
        """dict(pairs (p-th name, p-th tuple)): with distinct names, every name maps to its tuple"""
        ex.use('axiom:dict(pairs) with distinct keys maps the key of every pair to the value of that pair')
        ex.oblige(st, 'call.dict.pre.names_distinct', distinct_names(ks), kind='pre')
        k = Const('k!dp', Key)
        i = Int('i!dp')
        if ks.dom is not None:
            dom = ks.dom
        else:
            dom = Array(fresh_name('paired'), Key, BoolSort())
            ex.fact(ForAll([k], Select(dom, k) == And(0 <= ks.pos(k), ks.pos(k) < ks.m, ks.at(ks.pos(k)) == k)))
        # named arrays with defining facts instead of lambdas: the grounded queries stay first order
        clen = Array(fresh_name('paired_len'), Key, IntSort())
        carr = Array(fresh_name('paired_col'), Key, ArraySort(IntSort(), Val))
        ex.fact(ForAll([k], Select(clen, k) == ts.tlen(ks.pos(k))))
        ex.fact(ForAll([k, i], Select(Select(carr, k), i) == ts.elem(ks.pos(k), i)))
        return SV('colmap', None, dom=dom, clen=clen, carr=carr, cells='tuples')

    def compare(self, ex, st, e, op, a, b):
        if op in ('Eq', 'NotEq') and a.kind == 'tupseq' and a.f['is_list'] and b.kind == 'list' and b.f.get('ety') is None:
            return (a.t == 0) if op == 'Eq' else (a.t != 0)
        return NotImplemented

    def subscript(self, ex, st, e, recv, idx):
        # values[i] for a python list given by (n, at): Python list indexing - negative indices count from the end, IndexError outside -n .. n-1
        if recv.kind == 'lazylist' and recv.f.get('at') is not None and idx.kind == 'int':
            n, i = recv.n, idx.t
            ex.use('axiom:xs[i] for a list is the element at i (at len(xs) + i for a negative i); IndexError unless -len(xs) <= i < len(xs)')
            ex.raise_if(st, Not(And(-n <= i, i < n)), 'IndexError')
            return recv.at(st, If(i < 0, i + n, i))
        # rows[a:] : the suffix
        if recv.kind == 'tupseq' and recv.f['is_list'] and idx.kind == 'slice' and idx.step is None and idx.hi is None and idx.lo is not None and idx.lo.kind == 'int':
            lo = simplify(idx.lo.t)
            if not (z3.is_int_value(lo) and lo.as_long() >= 0):
                return NotImplemented
            ex.use('axiom:xs[a:] for 0 <= a is the suffix of xs from position a (empty when a >= len(xs))')
            return tupseq(If(recv.t >= lo, recv.t - lo, 0), lambda p: recv.tlen(p + lo), lambda p, i: recv.elem(p + lo, i))
        return NotImplemented

    def truth(self, ex, st, v):
        if v.kind == 'tupseq' and v.f['is_list']:
            return v.t > 0
        return NotImplemented

    def is_none(self, ex, st, v):
        if v.kind in ('tupseq', 'vtuple', 'kcpairs', 'keylist', 'lazylist', 'tvrow'):
            return BoolVal(False)
        return NotImplemented

    # ---- type(self)(data = rows, columns = self.keys()) by the stated contract
    def call_value(self, ex, st, e, fn, args, kwargs):
        if fn.kind != 'cls' or self.construct != 'contract':
            return NotImplemented
        a = dict(zip(['data', 'columns'], args))
        for k_, v in kwargs.items():
            if k_ in ('data', 'columns') and k_ not in a:
                a[k_] = v
            else:
                return NotImplemented
        data, columns = a.get('data', NONE), a.get('columns', NONE)
        if columns.kind not in ('tkeys', 'keylist'):
            return NotImplemented
        rows = rows_view(ex, st, data)
        if rows is None:
            return NotImplemented
        ks = keyseq(ex, columns)
        ex.use('callee contract:dictable(list of row tuples, column names) with as many distinct names as every row has entries has exactly the named columns, '
               'the column of the p-th name listing the p-th entries of the rows in order; no row: the named columns, all empty (proved in C01 constructor.rows.*)')
        ex.oblige(st, 'call.constructor.pre.every_row_has_one_entry_per_name', rows_of_width(rows, ks.m), kind='pre')
        ex.oblige(st, 'call.constructor.pre.names_distinct', distinct_names(ks), kind='pre')
        out = fresh_table('made')
        out.f['cls'] = fn.f['name']
        for f in rows_headers_contract(ks, rows, out):
            ex.fact(f)
        return out


def rows_view(ex, st, data):
    """a list of row tuples as a tupseq: given as one, or as a list (n, at) of rows of zip(*d.values())"""
    if data.kind == 'tupseq' and data.f['is_list']:
        return data
    if data.kind == 'lazylist' and data.f.get('at') is not None:
        el = data.at(st.fork(), Int(fresh_name('i!probe')))
        if el.kind != 'tvrow':
            return None
        t = el.f['of']
        d = t.dom
        ex.use('axiom:the j-th tuple of zip(*d.values()) holds the j-th entry of every column, in the order of d.keys()')
        for f in keys_bijection(d):
            ex.fact(f)

        def elem(p, i):
            row = data.at(st.fork(), p)
            return Select(Select(t.carr, SK(d, i)), row.f['index'])
        return tupseq(data.n, lambda p: NK(d), elem)
    return None
