"""dateutil.rrule, as far as pyg_base.drange uses it - AXIOMS about a third-party library, not proved.

  rrule(F, interval=k, dtstart=a, until=b)  for F in DAILY, WEEKLY, HOURLY, MINUTELY, SECONDLY and k >= 1, no by* arguments,
  tz-naive a and b, is the finite sequence
        a', a' + k*u, a' + 2*k*u, ...   (all terms <= b),      u = the fixed length of F's unit,
  where a' is a with its microsecond field set to 0  (rrule.__init__: `dtstart.replace(microsecond=0)`; `until` is compared
  as given).  k <= 0 is outside the callee's precondition (dateutil raises for k < 0 on some versions, loops or yields
  nonsense for k == 0): every call site carries the obligation `call.rrule.pre.interval_ge_1`.

  MONTHLY and YEARLY are NOT axiomatised (they skip months in which the day does not exist): such a call evaluates to an
  opaque sequence about which nothing is known; what the caller returns on that path is left to the bounded stand-in.

`rac/C10_ded.py: validate_rrule_axiom()` compares the axiom with the real dateutil on a sample (native, /venv/bin/python).
The index product j*k for a symbolic interval is MUL(j, k) of th_arith.
"""
import ast
import z3
from z3 import And, Or, Not, If, Implies, BoolVal, IntVal, simplify, is_int_value

from .front import OutOfSubset, SelectorError
from .sv import SV, I, DT, DAYUS, zi, fresh_int, lex_le
from .th_arith import MUL, mul_zero, mul_rec
from .th_seq import lazy

FREQS = ('YEARLY', 'MONTHLY', 'WEEKLY', 'DAILY', 'HOURLY', 'MINUTELY', 'SECONDLY')
UNIT_US = {'DAILY': DAYUS, 'WEEKLY': 7 * DAYUS, 'HOURLY': 3600 * 10 ** 6, 'MINUTELY': 60 * 10 ** 6, 'SECONDLY': 10 ** 6}
SEC = 10 ** 6


def whole_second(us):
    """the microsecond-of-day with the sub-second part removed"""
    return us - us % SEC


class RRule:
    def __init__(self, mod):
        """the names must really be dateutil's: `from dateutil.rrule import rrule, DAILY, ...` at module level"""
        names = set()
        for n in mod.tree.body:
            if isinstance(n, ast.ImportFrom) and n.module == 'dateutil.rrule':
                names |= {a.asname or a.name for a in n.names if (a.asname or a.name) == a.name}
        if 'rrule' not in names:
            raise SelectorError('%s does not import rrule from dateutil.rrule' % mod.name)
        self.names = names

    def name(self, ex, st, ident):
        if ident in FREQS and ident in self.names:
            return SV('rrfreq', None, name=ident)
        return NotImplemented

    def is_none(self, ex, st, v):
        if v.kind in ('rrfreq', 'rrule'):
            return BoolVal(False)
        return NotImplemented

    def call(self, ex, st, e, fname, args, kwargs):
        if fname == 'rrule':
            kw = dict(kwargs)
            freq = args[0] if args else kw.pop('freq', None)
            interval = kw.pop('interval', I(1))
            a, b = kw.pop('dtstart', None), kw.pop('until', None)
            if len(args) > 1 or kw or freq is None or freq.kind != 'rrfreq' or a is None or b is None or a.kind != 'dt' or b.kind != 'dt' \
                    or interval.kind != 'int':
                raise OutOfSubset('rrule call outside the axiomatised form: %s' % ast.unparse(e)[:80])
            ex.oblige(st, 'call.rrule.pre.interval_ge_1', interval.t >= 1, kind='pre')
            r = SV('rrule', None, freq=freq.name, interval=interval.t, a=a, b=b)
            st.ghost['rrule.call'] = r           # the last rrule call on this path (contracts may state what it was called with)
            return r
        if fname == 'list' and len(args) == 1 and not kwargs and args[0].kind == 'rrule':
            n, at = self.sequence(ex, st, args[0])
            return lazy(n, at, 'dt')
        return NotImplemented

    def iterate(self, ex, st, it):
        if it.kind == 'rrule':
            return self.sequence(ex, st, it)
        return NotImplemented

    def sequence(self, ex, st, r):
        a, b, k, F = r.a, r.b, simplify(zi(r.interval)), r.freq
        if F not in UNIT_US:
            ex.use('NOT axiomatised:rrule(%s, interval=k, ...) - the value of this call is an unknown sequence (bounded stand-in only)' % F)
            n = fresh_int('rr_opaque_len')
            ex.fact(n >= 0)
            return n, (lambda st2, j: DT(fresh_int('rr_opaque_o'), fresh_int('rr_opaque_us')))
        ex.use('axiom:dateutil rrule(%s, interval=k>=1, dtstart=a, until=b) = a\', a\'+k units, a\'+2k units, ... <= b with a\' = a.replace(microsecond=0) '
               '(third-party library; validated natively on a sample by rac/C10_ded.validate_rrule_axiom)' % F)
        us0 = whole_second(a.us)
        if F in ('DAILY', 'WEEKLY'):
            c = 1 if F == 'DAILY' else 7
            dmax = b.t - a.t - If(us0 <= b.us, 0, 1)            # largest day offset still <= until
            if is_int_value(k):
                step = c * k.as_long()
                if step < 1:
                    raise OutOfSubset('rrule with a non-positive constant interval')
                return If(dmax >= 0, dmax / step + 1, 0), (lambda st2, j: DT(a.t + zi(j) * step, us0))
            n = fresh_int('rr_len')
            ex.fact(And(n >= 0, Implies(dmax < 0, n == 0),
                        Implies(And(dmax >= 0, k >= 1), And(n >= 1, c * MUL(n - 1, k) <= dmax, dmax < c * MUL(n, k)))))
            ex.fact(mul_zero(k)); ex.fact(mul_rec(n - 1, k))
            return n, (lambda st2, j: DT(a.t + c * MUL(j, k), us0))
        u = UNIT_US[F]
        span = (b.t - a.t) * DAYUS + b.us - us0                  # microseconds from a' to until
        if is_int_value(k):
            step = u * k.as_long()
            if step < 1:
                raise OutOfSubset('rrule with a non-positive constant interval')
            n = If(span >= 0, span / step + 1, 0)
            prod = lambda j: zi(j) * step
        else:
            n = fresh_int('rr_len')
            ex.fact(And(n >= 0, Implies(span < 0, n == 0),
                        Implies(And(span >= 0, k >= 1), And(n >= 1, u * MUL(n - 1, k) <= span, span < u * MUL(n, k)))))
            ex.fact(mul_zero(k)); ex.fact(mul_rec(n - 1, k))
            prod = lambda j: u * MUL(j, k)

        def at(st2, j):
            tot = us0 + prod(j)
            return DT(a.t + tot / DAYUS, tot % DAYUS)
        return n, at
