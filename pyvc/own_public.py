"""frame contracts of the public functions named in the properties whose contracts do not carry their own frame section.

Every function listed here has the contract `modifies nothing of the caller's` (plus `top(self)` for the calendar methods, which cache the holiday
table on first use): no caller-owned argument, and no object reachable from one, is written to; module-level state (a memo table, a registry) may be
written, but nothing kept there is handed out for the caller to alter where a result level is declared.  The ownership checker of pyvc/own.py re-derives the effects of each body
from /repo's current source on every run; each store / in-place method / augmented assignment / call site is one obligation.

Why this belongs to the properties: each of them quantifies over repeated use of the same values (a list of methods given to df_reindex twice,
an operand list given to add_ and then to mul_, a calendar asked twice).  A function that rewrites its argument makes the second use disagree
with the first although every single call on fresh values still looks right - something no per-call postcondition and no per-call test sees.

Functions over pandas objects whose bodies store attributes on intermediate frames (`d.columns = ...`, `res.index.name = ...`) are not listed:
the checker cannot tell that the result of a pandas call is a fresh object, so `modifies nothing` is not provable for them (df_slice, bi_read,
bi_merge, df_concat, nona, perdictable join); the bounded runner compares their arguments before and after every call instead."""
from . import own

P = '_pandas'
# every clause allows writes to module-level state (a memo table, a registry): what a function keeps for itself does not touch the caller's values, and
# what it hands out of such state is covered by the declared result levels below
NOTHING = {own.EXT: own.ANY}
SELF = {'self': own.TOP, own.EXT: own.ANY}
PUBLIC_FUNCS = {
    'C03': [(P, f, NOTHING) for f in ('df_reindex', '_df_reindex', 'df_index', '_df_index', 'df_sync', 'df_columns')],
    'C04': [('_dates', f, NOTHING) for f in ('dt', 'ymd', 'dt2str')],
    'C05': [('_drange', 'Calendar.' + f, SELF) for f in ('adjust', 'add', 'bdays', 'drange', 'is_bday', 'is_trading')],
    'C07': [('_sort', f, NOTHING) for f in ('cmp', 'sort', 'cmparr')],
    'C08': [(P, f, NOTHING) for f in ('add_', 'mul_', 'sub_', 'div_', 'pow_', 'min_', 'max_', 'df_sum', 'df_mean', 'df_count', 'df_std')] + [('_reducer', 'reducer', NOTHING)],
    'C09': [('_dates', 'dt_bump', NOTHING)],
    'C10': [('_drange', 'drange', NOTHING)],
    'C14': [('_eq', 'eq', NOTHING), ('_eq', 'in_', NOTHING)],
    'C19': [('_as_list', 'as_list', NOTHING), ('_as_list', 'as_tuple', NOTHING), ('_tree', 'tree_to_table', NOTHING)],
}
NEVER = ['wrapper', 'Path']
# declared result levels: the schedule functions return a list built by the call itself (a memoised helper's list handed straight out would be
# shared between callers: one caller's edit would change what an equal later call returns)
RESULTS = {'_drange:drange': ('SHALLOW', []), '_drange:Calendar.drange': ('SHALLOW', []), '_drange:Calendar.bdays': ('SHALLOW', [])}


def replay_of(d):
    return dict(kind='frame', probe='public-frame', name=d['name'], where=d['where'], detail=d['detail'][:300])


def section(ctx, pid):
    """post the frame obligations of PUBLIC_FUNCS[pid] into the contract context (no-op for a property without an entry)"""
    if pid not in PUBLIC_FUNCS:
        return 0
    ctx.trust('frame checker path precondition: no argument is a pyg wrapper object or a pathlib.Path')
    an = own.Analyzer(None, never_types=NEVER)
    out = []
    for modname, qual, spec in PUBLIC_FUNCS[pid]:
        try:
            rs = own.check_function(an, modname, qual, modifies=spec, label=qual, result=RESULTS.get('%s:%s' % (modname, qual)))
        except own.SelectorError as e:
            rs = [own.Res('%s.frame.located' % qual, False, 'SelectorError: %s' % e, modname, kind='undecided')]
        out += [r.as_dict() for r in rs]
    return own.post_all(ctx, out, replay=replay_of)
