"""Theories for nested-dict trees.

TreeVals - trees as immutable *values* (tree_items / tree_keys / tree_values / tree_getitem only read):
    a Python value is a term of the uninterpreted sort Val;  typeof : Val -> Int (class identity);
    a mapping t has nkeys(t) keys key_at(t, 0..nkeys-1) in iteration order, has(t, k) and child(t, k) = t[k];
    lists are terms of sort L in the (len, at) style: len(l); a list of tuples has tlen(l, p) and tat(l, p, q), a list of values vat(l, p).
TreeHeap - trees as mutable *objects* (_tree_setitem writes): every value is an Int id, the heap is a pair of arrays
    has : (obj, key) -> Bool, get : (obj, key) -> Int kept in st.ghost; `base()` allocates the id st.ghost['next'].
Every axiom used registers itself with ex.use(...)."""
import ast
import z3
from z3 import (And, Or, Not, If, Implies, BoolVal, IntVal, Int, Function, IntSort, BoolSort, DeclareSort, ForAll, Const, Select, Store,
                simplify, is_true, is_false)

from .front import OutOfSubset
from .sv import SV, I, B, T, NONE, fresh_int, fresh_name, zi

Val = DeclareSort('Val')
L = DeclareSort('L')
TYPEOF = Function('typeof', Val, IntSort())
NK = Function('nkeys', Val, IntSort())
KEY = Function('key_at', Val, IntSort(), Val)
HAS = Function('has', Val, Val, BoolSort())
CHILD = Function('child', Val, Val, Val)
DEPTH = Function('depth', Val, IntSort())
LEN = Function('len', L, IntSort())
TL = Function('tlen', L, IntSort(), IntSort())
TA = Function('tat', L, IntSort(), IntSort(), Val)
VA = Function('vat', L, IntSort(), Val)
TYPE_ID = {'dict': 1, 'Dict': 2, 'dictattr': 3, 'OrderedDict': 4, 'list': 5, 'tuple': 6, 'str': 7}


def V(term):
    return SV('val', term)


def fresh_val(prefix='v'):
    return Const(fresh_name(prefix), Val)


def fresh_list(prefix='l'):
    return Const(fresh_name(prefix), L)


# ---- tuples: concrete T([...]) | SV('tupat', l=L term, i=index) | SV('ctup', prefix=[SV val...], rest=tuple SV)
def tup_len(sv):
    if sv.kind == 'tuple':
        return IntVal(len(sv.items))
    if sv.kind == 'tupat':
        return TL(sv.l, sv.i)
    if sv.kind == 'ctup':
        return len(sv.prefix) + tup_len(sv.rest)
    raise OutOfSubset('not a tuple: %s' % sv.kind)


def tup_at(sv, q):
    """q-th component as a Val term (q: python int or z3 Int); meaningful for 0 <= q < tup_len"""
    q = zi(q)
    if sv.kind == 'tuple':
        if not sv.items:
            return fresh_val('undef')
        r = _val(sv.items[-1])
        for k in range(len(sv.items) - 2, -1, -1):
            r = If(q == k, _val(sv.items[k]), r)
        return r
    if sv.kind == 'tupat':
        return TA(sv.l, sv.i, q)
    if sv.kind == 'ctup':
        n = len(sv.prefix)
        r = tup_at(sv.rest, q - n)
        for k in range(n - 1, -1, -1):
            r = If(q == k, _val(sv.prefix[k]), r)
        return r
    raise OutOfSubset('not a tuple: %s' % sv.kind)


def _val(sv):
    if sv.kind != 'val':
        raise OutOfSubset('tuple component of kind %s' % sv.kind)
    return sv.t


# ---- lists: SV('listlit', items=[...]) | SV('plist', t=L term, elt='tup'|'val') | lazylist (from the executor) | SV('flat', outer=lazylist, start=list SV)
def list_len(sv):
    if sv.kind == 'listlit':
        return IntVal(len(sv.items))
    if sv.kind == 'plist':
        return LEN(sv.t)
    if sv.kind == 'lazylist':
        return sv.n
    raise OutOfSubset('length of %s' % sv.kind)


def list_at(st, sv, p):
    """p-th element as an SV"""
    if sv.kind == 'listlit':
        if len(sv.items) == 1:
            return sv.items[0]
        raise OutOfSubset('symbolic index into a list literal with %d elements' % len(sv.items))
    if sv.kind == 'plist':
        return SV('tupat', None, l=sv.t, i=zi(p)) if sv.elt == 'tup' else V(VA(sv.t, zi(p)))
    if sv.kind == 'lazylist':
        return sv.at(st, zi(p))
    raise OutOfSubset('element of %s' % sv.kind)


class TreeVals:
    """trees as values; `recursive`: name -> (L-valued z3 function, element kind) for calls taken by the function's own contract"""

    def __init__(self, root=None, recursive=None):
        self.root = root
        self.recursive = recursive or {}

    def name(self, ex, st, ident):
        if ident in TYPE_ID:
            return SV('type', None, name=ident)
        return NotImplemented

    def expr(self, ex, st, e):
        if isinstance(e, ast.List):
            return SV('listlit', None, items=[ex.eval(st, x) for x in e.elts])
        return NotImplemented

    def call(self, ex, st, e, fname, args, kwargs):
        if fname == 'type' and len(args) == 1 and args[0].kind == 'val':
            return SV('typeof', TYPEOF(args[0].t))
        if fname in self.recursive and args and args[0].kind == 'val':
            fn, elt = self.recursive[fname]
            if self.root is not None:
                ex.oblige(st, 'call.%s.measure_decreases' % fname, And(DEPTH(args[0].t) < DEPTH(self.root), DEPTH(args[0].t) >= 0), kind='variant')
            ex.use('recursion: %s on a child is taken by the function\'s own contract (structural induction on the nesting depth)' % fname)
            return SV('plist', fn(args[0].t), elt=elt)
        if fname == 'sum' and len(args) == 2 and args[0].kind == 'lazylist' and args[1].kind == 'listlit' and not args[1].items:
            ex.use('axiom:sum(list_of_lists, []) is the left fold of list concatenation starting from the empty list')
            return SV('flat', None, outer=args[0])
        if fname in ('as_list', 'as_tuple') and len(args) == 1 and args[0].kind in ('keylist',):
            ex.use('contract:as_list(x) is x itself for a list and has the same elements for a tuple (C19 as_list summary)')
            return args[0]
        if fname == 'len' and len(args) == 1 and args[0].kind in ('plist', 'listlit', 'keylist'):
            return I(LEN(args[0].t)) if args[0].kind != 'listlit' else I(len(args[0].items))
        return NotImplemented

    def compare(self, ex, st, e, op, a, b):
        if op in ('In', 'NotIn') and a.kind == 'typeof' and b.kind == 'tuple' and all(x.kind == 'type' for x in b.items):
            ex.use('model:classes are distinct integers; type(x) in (A, B, ...) is a disjunction of identities')
            r = Or(*[a.t == TYPE_ID[x.name] for x in b.items]) if b.items else BoolVal(False)
            return r if op == 'In' else Not(r)
        if op in ('In', 'NotIn') and a.kind == 'val' and b.kind == 'val':
            r = HAS(b.t, a.t)
            return r if op == 'In' else Not(r)
        if op in ('Eq', 'NotEq') and a.kind == 'val' and b.kind == 'val':
            return (a.t == b.t) if op == 'Eq' else (a.t != b.t)
        return NotImplemented

    def iterate(self, ex, st, it):
        if it.kind == 'val':
            t = it.t
            ex.use('model:iterating a mapping yields key_at(t, 0..nkeys(t)-1), each of them a key of t (insertion order, CPython >= 3.7)')

            def at(st2, j):
                ex.fact(Implies(And(0 <= j, j < NK(t)), HAS(t, KEY(t, j))))
                return V(KEY(t, j))
            ex.fact(NK(t) >= 0)
            return NK(t), at
        if it.kind in ('plist', 'keylist'):
            l = it.t
            ex.fact(LEN(l) >= 0)
            if it.kind == 'keylist':
                off = it.f.get('off', 0)
                return If(LEN(l) - off >= 0, LEN(l) - off, 0), (lambda st2, j: V(VA(l, off + j)))
            if it.elt == 'val':
                return LEN(l), (lambda st2, j: V(VA(l, j)))
            return LEN(l), (lambda st2, j: SV('tupat', None, l=l, i=j))
        return NotImplemented

    def subscript(self, ex, st, e, recv, idx):
        if recv.kind == 'keylist' and idx.kind == 'slice' and idx.hi is None and idx.step is None and idx.lo is not None and idx.lo.kind == 'int':
            lo = simplify(idx.lo.t)
            if z3.is_int_value(lo) and lo.as_long() >= 0:
                return SV('keylist', recv.t, off=recv.f.get('off', 0) + lo.as_long())
        if recv.kind == 'val' and idx.kind == 'val':
            ex.raise_if(st, Not(HAS(recv.t, idx.t)), 'KeyError')
            c = CHILD(recv.t, idx.t)
            ex.use('axiom:trees are finite - a child is strictly less deep than its parent')
            ex.fact(Implies(HAS(recv.t, idx.t), And(DEPTH(c) < DEPTH(recv.t), DEPTH(c) >= 0)))
            return V(c)
        return NotImplemented

    def binop(self, ex, st, e, op, a, b):
        if op == 'Add' and a.kind == 'tuple' and b.kind in ('tupat', 'ctup', 'tuple') and all(x.kind == 'val' for x in a.items):
            if b.kind == 'tuple':
                return T(a.items + b.items)
            return SV('ctup', None, prefix=list(a.items), rest=b)
        return NotImplemented

    def truth(self, ex, st, v):
        return NotImplemented

    def fresh_like(self, ex, st, name, v):
        if v.kind == 'val':
            return V(fresh_val(name))
        return NotImplemented

    def is_none(self, ex, st, v):
        if v.kind in ('val', 'plist', 'listlit', 'keylist', 'type', 'typeof'):
            return BoolVal(False)
        return NotImplemented


# ================================================================================================ mutable trees
ISB = Function('is_branch', IntSort(), BoolSort())      # isinstance(v, types)
IGN = Function('ignored', IntSort(), BoolSort())        # in_(v, ignore)
ITEM = Function('item_at', IntSort(), IntSort())


def R(term):
    return SV('ref', zi(term))


class TreeHeap:
    """objects are Int ids; st.ghost['Hhas'] / ['Hget'] : Array (obj, key) -> Bool / Int is the heap, st.ghost['next'] the allocation pointer.
    `ctor`: the local name that is called to create a new branch (base); `types`: the name isinstance is tested against"""

    def __init__(self, ctor='base', types='types'):
        self.ctor, self.types = ctor, types

    def pre_call(self, ex, st, e):
        if isinstance(e.func, ast.Name) and e.func.id == 'isinstance' and len(e.args) == 2 and isinstance(e.args[1], ast.Name) and e.args[1].id == self.types:
            v = ex.eval(st, e.args[0])
            if v.kind == 'ref':
                ex.use('model:isinstance(v, types) is a predicate of the object identity (an object never changes its class)')
                return B(ISB(v.t))
        return NotImplemented

    def call(self, ex, st, e, fname, args, kwargs):
        if fname == self.ctor and not args and not kwargs:
            nw = st.ghost['next']
            st.ghost['next'] = nw + 1
            ex.use('model:%s() allocates a new object: its identity is the allocation pointer, which no existing object or reference reaches' % self.ctor)
            return R(nw)
        if fname == 'len' and len(args) == 1 and args[0].kind == 'reflist':
            return I(args[0].n)
        if fname == 'in_' and len(args) == 2 and args[0].kind == 'ref':
            ex.use('assumed contract:in_(x, ignore) is a pure membership test (predicate `ignored` of x)')
            return B(IGN(args[0].t))
        return NotImplemented

    def compare(self, ex, st, e, op, a, b):
        if op in ('In', 'NotIn') and a.kind == 'ref' and b.kind == 'ref':
            r = Select(st.ghost['Hhas'], b.t, a.t)
            return r if op == 'In' else Not(r)
        return NotImplemented

    def subscript(self, ex, st, e, recv, idx):
        if recv.kind == 'ref' and idx.kind == 'ref':
            ex.raise_if(st, Not(Select(st.ghost['Hhas'], recv.t, idx.t)), 'KeyError')
            return R(Select(st.ghost['Hget'], recv.t, idx.t))
        if recv.kind == 'reflist' and idx.kind == 'slice' and idx.lo is None and idx.step is None and idx.hi is not None and idx.hi.kind == 'int':
            h = simplify(idx.hi.t)
            if z3.is_int_value(h) and h.as_long() < 0:
                n2 = recv.n + h.as_long()
                return SV('reflist', None, n=If(n2 >= 0, n2, 0), off=recv.off)
        if recv.kind == 'reflist' and idx.kind == 'int':
            h = simplify(idx.t)
            if z3.is_int_value(h):
                k = h.as_long()
                pos = recv.n + k if k < 0 else IntVal(k)
                ex.raise_if(st, Not(And(0 <= pos, pos < recv.n)), 'IndexError')
                return R(ITEM(recv.off + pos))
        return NotImplemented

    def iterate(self, ex, st, it):
        if it.kind == 'reflist':
            return it.n, (lambda st2, j: R(ITEM(it.off + j)))
        return NotImplemented

    def store_subscript(self, ex, st, tg, recv, idx, v):
        if recv.kind == 'ref' and idx.kind == 'ref' and v.kind == 'ref':
            st.ghost['Hhas'] = Store(st.ghost['Hhas'], recv.t, idx.t, BoolVal(True))
            st.ghost['Hget'] = Store(st.ghost['Hget'], recv.t, idx.t, v.t)
            return None
        return NotImplemented

    def fresh_like(self, ex, st, name, v):
        if v.kind == 'ref':
            return R(fresh_int(name))
        return NotImplemented

    def is_none(self, ex, st, v):
        if v.kind in ('ref', 'reflist'):
            return BoolVal(False)
        return NotImplemented
