"""Contract context: what a contracts/Cxx.py module talks to while it generates obligations from the real source."""
import ast, time
import z3
from z3 import And, Or, Not, BoolVal

from . import front
from .front import SelectorError, OutOfSubset
from .symex import Exec, State, Outcome, Obligation, LoopSpec
from .sv import merge_sv


class Ctx:
    def __init__(self, prop, tier='quick', seed=0):
        self.prop, self.tier, self.seed = prop, tier, seed
        self.obligations = []       # must be unsat (negated goal)
        self.covers = []            # (name, hyps): must be sat (vacuity / reachability guards)
        self.expected_sat = []      # (Obligation, finding_key): known findings: must stay sat
        self.functions = {}         # qualified name -> info
        self.trusted = set()
        self.notes = []
        self.undecided = []         # (function, reason)
        self.frame_results = []     # ownership checker results
        self.xval = []              # encoder cross-validation cases for the venv side
        self.t0 = time.time()
        self.default_meta = {}

    # -- source access
    def mod(self, name):
        return front.module(name)

    def record_function(self, mod, qual, node, executed_ids=None, excluded=None, how='symbolic execution'):
        stmts = [n for n in ast.walk(node) if isinstance(n, ast.stmt) and n is not node
                 and not (isinstance(n, ast.Expr) and isinstance(n.value, ast.Constant))]
        ex_n = len([n for n in stmts if executed_ids is None or id(n) in executed_ids])
        key = '%s:%s' % (mod.name, qual)
        info = self.functions.setdefault(key, dict(file=mod.lines(node), source_sha256=mod.node_sha(node), statements=len(stmts),
                                                   statements_executed=0, excluded=[], how=how))
        info['statements_executed'] = max(info['statements_executed'], ex_n)
        for x in (excluded or []):
            if x not in info['excluded']:
                info['excluded'].append(x)
        return info

    # -- obligations
    def absorb(self, ex):
        """take over obligations, trusted entries and notes generated inside an executor"""
        for ob in ex.obligations:
            ob.name = '%s.%s' % (self.prop, ob.name) if not ob.name.startswith(self.prop + '.') else ob.name
            for k, v in self.default_meta.items():
                ob.meta.setdefault(k, v)
            self.obligations.append(ob)
        ex.obligations = []
        self.trusted |= ex.trusted
        self.notes += ex.notes

    def post(self, name, hyps, goal, kind='post', witness=None, replay=None, func=None):
        ob = Obligation('%s.%s' % (self.prop, name), hyps, goal, kind, meta=dict(self.default_meta, replay=replay, func=func), witness=witness)
        self.obligations.append(ob)
        return ob

    def cover(self, name, hyps):
        self.covers.append(('%s.%s' % (self.prop, name), list(hyps)))

    def known(self, name, hyps, goal, key, witness=None, replay=None):
        """an obligation that fails today for a recorded finding: must come back sat (expected failure guard)"""
        ob = Obligation('%s.%s' % (self.prop, name), hyps, goal, 'known', meta=dict(replay=replay, key=key), witness=witness)
        self.expected_sat.append(ob)
        return ob

    def trust(self, what):
        self.trusted.add(what)

    def guarded(self, label, fn):
        """run a contract section; a selector or subset failure makes that section UNDECIDED, not a violation.
        With `self.only` set (a dependency run: only the sections that carry the callee contracts another property uses) other sections are skipped."""
        only = getattr(self, 'only', None)
        if only is not None and not any(label == l or label.startswith(l) for l in only):
            return None
        n0 = len(self.obligations)
        try:
            return self._guarded(label, fn)
        finally:
            for ob in self.obligations[n0:]:            # every obligation knows the contract section it came from
                ob.meta.setdefault('section', '%s/%s' % (self.prop, label))

    def _guarded(self, label, fn):
        try:
            fn()
            return True
        except (SelectorError, OutOfSubset) as e:
            self.undecided.append((label, '%s: %s' % (type(e).__name__, e)))
            return False
        except (KeyError, AttributeError, IndexError, TypeError, ValueError, z3.Z3Exception) as e:
            # the sidecar contract refers to something (a local name, a shape) the code no longer has: the section cannot be decided
            import traceback
            where = traceback.extract_tb(e.__traceback__)[-1]
            self.undecided.append((label, 'contract no longer matches the code (%s: %s at %s:%d)' % (type(e).__name__, str(e)[:120], where.filename.split('/')[-1], where.lineno)))
            return False


def suffix(st, base_len):
    """conjunction of the path-condition entries added after position base_len"""
    extra = st.pc[base_len:]
    return And(*extra) if extra else BoolVal(True)


def summarize(outs, base_len):
    """merge the return outcomes of a loop-free region into one value: ITE over path conditions.
    returns (value, defined_cond) or raises OutOfSubset when shapes differ"""
    rets = [(suffix(o.st, base_len), o.val) for o in outs if o.kind == 'return']
    if not rets:
        raise OutOfSubset('no returning path')
    val = rets[-1][1]
    for c, v in reversed(rets[:-1]):
        m = merge_sv(c, v, val)
        if m is None:
            raise OutOfSubset('cannot merge return values')
        val = m
    return val, Or(*[c for c, _ in rets])
